"""C13 — PolarMeasurements.integrate sums exactly the bins inside the requested limits.

The bins of axis j of a PolarMeasurements object cover [offset_j + i*sampling_j, offset_j + (i+1)*sampling_j)
with (offset_j, sampling_j) as published by `base_axes_metadata`.  A limit L on axis j therefore maps to
the bin index (L - offset_j) / sampling_j.  Two necessary conditions are decided on the terms (ring normal
form, single reaching definitions inlined, `int(...)` transparent):

R-AXISFAMILY  the index terms of the radial and of the azimuthal slice are the same term up to the
              renaming radial<->azimuthal (sibling alpha-equivalence);
R-AXISMETA    each index term equals (limit[k] - offset_j)/sampling_j built from the offset/sampling
              expressions that base_axes_metadata publishes for that array axis.

Both read every rounding step (int, floor, round, `//`, floor_divide, divmod()[0]) as transparent (`_IndexNorm`): at
limits on bin edges the real quotient is an integer.  What the spelling of the rounding does in floating point is a
separate, structural rule:

R-FLOATFLOOR  no slice bound is formed by a float floor-type division (`//`, floor_divide, divmod, `%`) of exactly
              that quotient: Python/numpy compute those from the exact remainder of the stored operands, so a limit
              k*s with a non-representable bin width s yields k-1 (1.0 // 0.1 == 9.0) where true division gives k.

What is done with the indices afterwards — integer arithmetic, tests, one selection or a sum of several pieces — is
decided by exact evaluation:

R-WINDOWEXACT for limits on bin edges l <= r of an axis with n bins the returned formal sum holds exactly the cells of
              [l, r), each once (sa/rules/binwindow.py: abstract interpretation of integrate for all windows of all
              bin counts in {1,2,3}^2).  r = n must select up to the end (an index reduced `% n` becomes 0), l = r
              nothing, pieces must tile the window.  When the selection is made of several pieces R-AXISMETA and
              R-AXISFAMILY are stated on the limit-to-index conversions the piece bounds depend on (`_piecewise`).
"""
from __future__ import annotations

import ast
import copy
import re
from fractions import Fraction

from ..cfg import DataFlow
from ..model import AnalysisError, call_name, dotted, kw, norm_text, walk_no_nested
from ..terms import FlowNormalizer, Normalizer, Poly

MOD = "abtem.measurements"
CLS = "PolarMeasurements"
FAMILIES = ("radial", "azimuthal")


def _swap_family(s: str) -> str:
    return re.sub(r"radial|azimuthal", lambda m: "azimuthal" if m.group(0) == "radial" else "radial", s)


def _rename(p: Poly) -> Poly:
    """Apply the renaming radial<->azimuthal to every atom of a term."""
    out = Poly()
    for mono, c in p.terms.items():
        t = Poly.const(c)
        for a, e in mono:
            t = t * Poly.atom(_swap_family(a)).power(e)
        out = out + t
    return out


def _strip_guard(p: Poly) -> Poly:
    """The term without its constant part when that is a rounding guard 0 <= c < 1."""
    c = p.terms.get((), Fraction(0))
    return p - Poly.const(c) if 0 <= c < 1 else p


def _limit_atom(param: str, k: int) -> Poly:
    """The term the normaliser produces for `param[k]` (built by the normaliser itself, not by text)."""
    return Normalizer().norm(ast.parse(f"{param}[{k}]", mode="eval").body)


def _axis_exprs(base_axes):
    """(offset expr, sampling expr) per base axis from the list returned by base_axes_metadata."""
    rets = [n for n in walk_no_nested(base_axes.node) if isinstance(n, ast.Return) and n.value is not None]
    if len(rets) != 1:
        raise AnalysisError(f"{base_axes.qualname}: expected a single return")
    val = rets[0].value
    df = DataFlow(base_axes.node)
    if isinstance(val, ast.Name):
        d = df.single_def(df.cfg.node_of(rets[0]).idx, val.id)
        if d is None or d.value is None:
            raise AnalysisError(f"{base_axes.qualname}: returned list is not a single definition")
        val = d.value
    if not isinstance(val, (ast.List, ast.Tuple)) or len(val.elts) != 2:
        raise AnalysisError(f"{base_axes.qualname}: does not return a two-element axis list")
    out = []
    for e in val.elts:
        if not isinstance(e, ast.Call) or kw(e, "offset") is None or kw(e, "sampling") is None:
            raise AnalysisError(f"{base_axes.qualname}: axis element {norm_text(e)[:40]} has no offset=/sampling=")
        out.append((kw(e, "offset"), kw(e, "sampling")))
    return out


def _is_none(e) -> bool:
    return isinstance(e, ast.Constant) and e.value is None


def _slice_bounds(df: DataFlow, at: int, expr: ast.expr, f, allow_open: bool = False):
    """All definitions of a slice expression used at node `at`: list of (lo, hi, def node idx) with
    lo/hi None for slice(None).  With `allow_open` (selections assembled from pieces) a bound left open (`slice(a, None)`,
    `[:b]`) is returned as None next to the computed one, and a definition `= None` of the slice variable (the marker
    'no such piece') is skipped."""
    if isinstance(expr, ast.Name):
        out = []
        defs = df.reaching(at, expr.id)
        if not defs:
            raise AnalysisError(f"{f.qualname}: slice variable {expr.id} has no definition")
        for d in defs:
            if d.kind != "assign" or d.value is None:
                raise AnalysisError(f"{f.qualname}: slice variable {expr.id} defined by {d.kind}")
            if allow_open and _is_none(d.value):
                continue
            out += _slice_bounds(df, d.node, d.value, f, allow_open)
        return out
    if isinstance(expr, ast.Call) and call_name(expr) == "slice":
        a = expr.args
        if len(a) == 1 and _is_none(a[0]):
            return [(None, None, at)]
        if allow_open and len(a) == 1 and not expr.keywords:
            return [(None, a[0], at)]
        if len(a) == 2:
            if allow_open:
                return [(None if _is_none(a[0]) else a[0], None if _is_none(a[1]) else a[1], at)]
            return [(a[0], a[1], at)]
        raise AnalysisError(f"{f.qualname}: unsupported slice form {norm_text(expr)}")
    if isinstance(expr, ast.Slice):
        if expr.step is not None:
            raise AnalysisError(f"{f.qualname}: stepped slice")
        if expr.lower is None and expr.upper is None:
            return [(None, None, at)]
        if expr.lower is None or expr.upper is None:
            if allow_open:
                return [(expr.lower, expr.upper, at)]
            raise AnalysisError(f"{f.qualname}: half-open slice literal")
        return [(expr.lower, expr.upper, at)]
    if isinstance(expr, ast.Call) and f.cls is not None and (call_name(expr) or "").startswith("self."):
        # a helper method of the class that returns slice(a, b): inline it (depth 1), once per reaching
        # definition of each argument variable (the argument may be the parameter or a default substituted
        # under `if <param> is None`)
        helper = f.cls.find_method((call_name(expr) or "")[5:])
        if helper is not None:
            return _inline_slice_helper(df, at, expr, helper, f)
    raise AnalysisError(f"{f.qualname}: cannot interpret slice expression {norm_text(expr)[:50]}")


class _Subst(ast.NodeTransformer):
    def __init__(self, mapping):
        self.mapping = mapping

    def visit_Name(self, n):
        if isinstance(n.ctx, ast.Load) and n.id in self.mapping:
            return copy.deepcopy(self.mapping[n.id])
        return n

    def visit_Subscript(self, n):
        n = self.generic_visit(n)
        # (a, b)[k] -> element k
        if isinstance(n.value, (ast.Tuple, ast.List)) and isinstance(n.slice, ast.Constant) and \
                isinstance(n.slice.value, int) and -len(n.value.elts) <= n.slice.value < len(n.value.elts):
            return n.value.elts[n.slice.value]
        return n


def _inline_slice_helper(df: DataFlow, at: int, call: ast.Call, helper, f):
    from ..model import bind_args

    rets = [r for r in walk_no_nested(helper.node) if isinstance(r, ast.Return) and r.value is not None]
    if len(rets) != 1 or not (isinstance(rets[0].value, ast.Call) and call_name(rets[0].value) == "slice"
                              and len(rets[0].value.args) == 2):
        raise AnalysisError(f"{helper.qualname}: helper does not end in a single `return slice(a, b)`")
    hdf = DataFlow(helper.node)
    hat = hdf.cfg.node_of(rets[0]).idx

    def resolve(e, node, depth=0):
        """expression of the helper with its straight-line locals inlined"""
        if depth > 20:
            raise AnalysisError(f"{helper.qualname}: local definitions too deep")
        mapping = {}
        for n in ast.walk(e):
            if isinstance(n, ast.Name) and isinstance(n.ctx, ast.Load) and n.id not in mapping:
                defs = hdf.reaching(node, n.id)
                if defs and all(d.kind == "param" for d in defs):
                    continue
                if not defs:
                    continue  # global / builtin (int, slice, ...)
                d = hdf.single_def(node, n.id)
                if d is None or d.kind != "assign" or d.value is None:
                    raise AnalysisError(f"{helper.qualname}: local `{n.id}` is not a single straight-line definition")
                mapping[n.id] = resolve(d.value, d.node, depth + 1)
        return _Subst(mapping).visit(copy.deepcopy(e))

    lo_h, hi_h = (resolve(a, hat) for a in rets[0].value.args)
    is_static = "staticmethod" in helper.decorators
    bound = bind_args(call, helper, skip_self=not is_static)
    if not bound:
        raise AnalysisError(f"{f.qualname}: cannot bind the arguments of {norm_text(call)[:50]}")
    # alternatives for argument variables with several reaching definitions in the caller
    alts = [{}]
    for pname, arg in bound.items():
        choices = [arg]
        if isinstance(arg, ast.Name):
            defs = df.reaching(at, arg.id)
            if len(defs) > 1:
                choices = []
                for d in defs:
                    if d.kind == "param":
                        choices.append(arg)
                    elif d.kind == "assign" and d.value is not None:
                        choices.append(d.value)
                    else:
                        raise AnalysisError(f"{f.qualname}: `{arg.id}` defined by {d.kind}")
        alts = [dict(a, **{pname: c}) for a in alts for c in choices]
    out = []
    for a in alts:
        sub = _Subst(a)
        out.append((sub.visit(copy.deepcopy(lo_h)), sub.visit(copy.deepcopy(hi_h)), at))
    return out


_ROUNDERS = {"floor", "trunc", "fix", "rint", "round", "around", "round_"}  # one value -> a neighbouring integer
_QUOT_CALLS = {"floor_divide"}
_REM_CALLS = {"mod", "remainder", "fmod"}


def _last_name(c: ast.Call) -> str:
    return (call_name(c) or "").split(".")[-1]


class _IndexNorm(FlowNormalizer):
    """Term of a bin index *in real arithmetic*: every rounding step is transparent.  Besides `int(x)` that is
    `floor/trunc/rint/round(x)` (one argument) and the floor divisions `a // b`, `floor_divide(a, b)`,
    `divmod(a, b)[0]`, all read as the quotient a/b.  At limits aligned with bin edges — the inputs the property
    quantifies over — the real quotient is an integer and every one of these roundings returns it, so the rules that
    compare index terms (R-AXISMETA, R-AXISFAMILY, R-BOUNDCHECK) do not depend on the spelling of the rounding; what
    the spellings do to the *floating-point* quotient is the subject of R-FLOATFLOOR."""

    def __init__(self, df, node_idx: int):
        super().__init__(df, node_idx, identity_calls={"int"})

    def norm(self, n: ast.AST) -> Poly:
        if isinstance(n, ast.BinOp) and isinstance(n.op, ast.FloorDiv):
            return self.norm(n.left) * self.norm(n.right).inverse()
        if isinstance(n, ast.Call) and not n.keywords and not any(isinstance(a, ast.Starred) for a in n.args):
            short = _last_name(n)
            if short in _QUOT_CALLS and len(n.args) == 2:
                return self.norm(n.args[0]) * self.norm(n.args[1]).inverse()
            if short in _ROUNDERS and len(n.args) == 1:
                if short not in ("floor", "trunc", "fix"):
                    self.flags.add("round:nearest")
                return self.norm(n.args[0])
        if isinstance(n, ast.Subscript) and isinstance(n.value, ast.Call) and _last_name(n.value) == "divmod" \
                and len(n.value.args) == 2 and isinstance(n.slice, ast.Constant) and n.slice.value == 0:
            return self.norm(n.value.args[0]) * self.norm(n.value.args[1]).inverse()
        return super().norm(n)


def _rounded_float_quotient(e: ast.expr) -> bool:
    """Does the expression round a quotient formed in floating point (int(x / s), x // s, floor_divide, divmod)?"""
    for c in ast.walk(e):
        if isinstance(c, ast.Call) and (_last_name(c) == "int" or _last_name(c) in _ROUNDERS) and any(
                isinstance(b, ast.BinOp) and isinstance(b.op, ast.Div) for b in ast.walk(c)):
            return True
        if isinstance(c, ast.BinOp) and isinstance(c.op, ast.FloorDiv) and not (
                isinstance(c.right, ast.Constant) and isinstance(c.right.value, int)):
            return True
        if isinstance(c, ast.Call) and _last_name(c) in (_QUOT_CALLS | {"divmod"}):
            return True
    return False


def _sum_chain_reduces_both(stmt: ast.stmt, sub: ast.expr) -> bool:
    """`<sub>.sum(axis=a).sum(axis=b)...`: do the successive sums over trailing axes remove both base axes?"""
    parent = {}
    for p in ast.walk(stmt):
        for c in ast.iter_child_nodes(p):
            parent[id(c)] = p
    cur, left = sub, 2
    while left > 0:
        attr = parent.get(id(cur))
        call = parent.get(id(attr)) if attr is not None else None
        if not (isinstance(attr, ast.Attribute) and attr.attr == "sum" and attr.value is cur
                and isinstance(call, ast.Call) and call.func is attr):
            return False
        ax = kw(call, "axis") or (call.args[0] if call.args else None)
        try:
            axes = ast.literal_eval(ax) if ax is not None else None
        except Exception:  # noqa: BLE001
            return False
        axes = (axes,) if isinstance(axes, int) else axes
        if not isinstance(axes, tuple) or not all(isinstance(a, int) and -left <= a < 0 for a in axes) \
                or len(set(axes)) != len(axes):
            return False
        left -= len(axes)
        cur = call
    return left == 0


def _stmt_node(integ, df: DataFlow, sub) -> int:
    """CFG node of the simple statement that holds the expression `sub`."""
    stmt = None
    for st in walk_no_nested(integ.node):
        if isinstance(st, ast.stmt) and not isinstance(st, (ast.If, ast.For, ast.While, ast.With, ast.Try, ast.FunctionDef)) \
                and any(x is sub for x in ast.walk(st)):
            stmt = st
    if stmt is None:
        raise AnalysisError(f"{integ.qualname}: selection statement not found")
    return df.cfg.node_of(stmt).idx


def _dep_roots(df: DataFlow, at: int, expr: ast.expr, seen: set):
    """(expression, CFG node it is evaluated at) for `expr` and for every definition its value depends on."""
    yield expr, at
    names = set()
    for n in ast.walk(expr):
        if isinstance(n, ast.Name) and isinstance(n.ctx, ast.Load):
            names.add(n.id)
    for name in sorted(names):
        for d in df.reaching(at, name):
            if (d.node, name) in seen or d.value is None or d.kind not in ("assign", "walrus", "aug"):
                continue
            seen.add((d.node, name))
            yield from _dep_roots(df, d.node, d.value, seen)


def _conversion_arg(n: ast.AST):
    """If `n` turns a real quotient into an integer (int, floor, round, //, floor_divide, divmod()[0]): the expressions
    it converts; else None."""
    if isinstance(n, ast.Call) and not n.keywords and len(n.args) == 1 and (_last_name(n) == "int" or _last_name(n) in _ROUNDERS):
        return [n.args[0]]
    if isinstance(n, ast.BinOp) and isinstance(n.op, ast.FloorDiv):
        return [n.left, n.right]
    if isinstance(n, ast.Call) and len(n.args) == 2 and _last_name(n) in (_QUOT_CALLS | {"divmod"}):
        return list(n.args)
    return None


def _limit_conversions(df: DataFlow, at: int, expr: ast.expr, integ):
    """The innermost limit-to-index conversions a slice bound depends on: list of (conversion expression, node).  A
    conversion is a rounding step whose value depends on a parameter of integrate; it is innermost when nothing it
    converts has itself been converted (int(int(q) % n) -> the inner int(q))."""

    def dependent(e, nd) -> bool:
        return bool(df.backward_slice(nd, e).params - {"self"})

    def sites(e, nd, seen):
        for root, rn in _dep_roots(df, nd, e, seen):
            for n in ast.walk(root):
                args = _conversion_arg(n)
                if args is not None and dependent(n, rn):
                    yield n, rn, args

    out, ids = [], set()
    for n, nd, args in sites(expr, at, set()):
        if any(True for a in args for _ in sites(a, nd, set())):
            continue  # derived from an earlier conversion
        if id(n) not in ids:
            ids.add(id(n))
            out.append((n, nd))
    return out


def _piecewise(ctx, integ, base_axes, axes, subs, df: DataFlow) -> None:
    """R-AXISMETA / R-AXISFAMILY for a window assembled from several selections `self.array[..., r_i, a_i]`.  The
    rules are stated on the *limit-to-index conversions*: every rounded quotient a piece bound depends on is
    (limit[k] - offset_j)/sampling_j for k = 0 or 1, both occur, and the radial and azimuthal conversions are the same
    formula.  The integer arithmetic done with the indices afterwards (reduction modulo the number of bins, wrap test,
    which piece ends where) is decided by R-WINDOWEXACT, as are the unlimited slices and the reduction."""
    q = integ.qualname
    params = set(integ.params)
    for sub in subs:
        ctx.require(len(sub.slice.elts) == 3, f"{q}: a selection does not index exactly the two base axes")
    nz_meta = FlowNormalizer(DataFlow(base_axes.node), 0)
    conv_terms: dict[str, dict[int, Poly]] = {}
    limit_param: dict[str, str] = {}
    for j, fam in enumerate(FAMILIES):
        convs, seen_ids = [], set()
        for sub in subs:
            at = _stmt_node(integ, df, sub)
            for lo, hi, node in _slice_bounds(df, at, sub.slice.elts[1 + j], integ, allow_open=True):
                for e in (lo, hi):
                    if e is None:
                        continue
                    for c, nd in _limit_conversions(df, node, e, integ):
                        if id(c) not in seen_ids:
                            seen_ids.add(id(c))
                            convs.append((c, nd))
        ctx.require(bool(convs), f"{q}: no limit-to-index conversion reaches the pieces of base axis {j - 2}")
        off, samp = axes[j]
        offp, sampp = nz_meta.norm(off), nz_meta.norm(samp)
        found: dict[int, Poly] = {}
        why = []
        pnames = set()
        for c, nd in convs:
            nz = _IndexNorm(df, nd)
            t = nz.norm(c)
            nearest = "round:nearest" in nz.flags
            used = set()
            for a in t.atoms():
                m = re.fullmatch(r"(?:1\*)?(\w+)\[(\d+)\]", a)
                if m and m.group(1) in params:
                    used.add((m.group(1), int(m.group(2))))
            match = None
            for p, k in sorted(used):
                guard = (t - (_limit_atom(p, k) - offp) * sampp.inverse()).const_value()
                if guard is not None and 0 <= guard < 1 and (guard == 0 or not nearest):
                    match = (p, k)
            if match is None or match[1] not in (0, 1):
                why.append(f"the conversion `{norm_text(c)[:70]}` is {t.key()[:90]}, not (limit[k] - {norm_text(off)}) / "
                           f"{norm_text(samp)} of the published axis {j - 2}")
                continue
            pnames.add(match[0])
            found.setdefault(match[1], t)
        if not why:
            if len(pnames) != 1:
                why.append(f"the pieces read the limits {sorted(pnames)} instead of one limits pair")
            for k in (0, 1):
                if k not in found:
                    why.append(f"no piece bound is computed from limit [{k}]")
        # In this shape the symbolic rule only *reads*: a window built from another, equally correct set of conversions
        # (left index plus the number of bins in the window, ...) is not a violation.  What the pieces select is decided
        # by the exact evaluation, which ran before and reports a wrong formula with a concrete window.
        ctx.require(not why, f"{q}: pieces of base axis {j - 2}: " + "; ".join(why))
        ctx.ok("R-AXISMETA", f"{q}:{fam}-axis index", integ.loc(convs[0][0]),
               f"every limit-to-index conversion of the {len(subs)} pieces is (limits[k] - {norm_text(off)}) / "
               f"{norm_text(samp)}, k = 0 and 1")
        conv_terms[fam] = found
        limit_param[fam] = sorted(pnames)[0]
    if len(conv_terms) == 2:
        ctx.check(limit_param["radial"] != limit_param["azimuthal"], "R-AXISMETA", f"{q}:limit-parameters",
                  integ.where, f"axes are limited by distinct parameters {limit_param}",
                  f"both base axes are limited by the same parameter {limit_param['radial']}", key_detail="params")
        bad, differing = [], set()
        for k, which in ((0, "lower"), (1, "upper")):
            r, a = (_strip_guard(conv_terms[fam][k]) for fam in FAMILIES)
            if _rename(r) != a:
                bad.append(f"{which}: radial {r.key()}  vs azimuthal {a.key()}")
                differing |= {x for x in (_rename(r) - a).atoms() if not re.search(r"\[\d+\]$", x)}
        ctx.check(not bad, "R-AXISFAMILY", f"{q}:radial~azimuthal", integ.loc(subs[0]),
                  "radial and azimuthal limit-to-index conversions are alpha-equivalent under radial<->azimuthal: "
                  + conv_terms["radial"][0].key(),
                  "the azimuthal index is not the radial formula with radial->azimuthal: " + " | ".join(bad),
                  key_detail="alpha[" + ",".join(sorted(differing)) + "]")
    ctx.info("R-AXISMETA", f"{q}:pieces", integ.loc(subs[0]),
             f"the window is assembled from {len(subs)} selections; unlimited slices, the tiling of [l, r) by the pieces "
             "and the reduction are decided by exact evaluation (R-WINDOWEXACT)")


def run(ctx) -> None:
    repo = ctx.repo
    ctx.rule("R-AXISFAMILY", "in PolarMeasurements.integrate the index terms of the radial slice and of the "
             "azimuthal slice are identical up to the renaming radial<->azimuthal (the two axes of one linear-axis "
             "family must be indexed by the same formula)")
    ctx.rule("R-AXISMETA", "the index of limit k on array axis j is (limit[k] - offset_j)/sampling_j with offset_j "
             "and sampling_j the expressions base_axes_metadata publishes for that axis (a constant guard 0 <= c < 1 "
             "added before a floor/truncation is allowed: it does not change the index of a limit on a bin edge); "
             "lower and upper index use the same limits parameter with subscripts 0 and 1; no limits -> the full "
             "slice.  The rounding step (int, floor, //, round) is transparent here, see R-FLOATFLOOR")
    ctx.undecided("int() truncation of the float ratio at limits aligned with bin edges (floating-point off-by-one)")
    ctx.undecided("numerical equality of the integrated sums; the detector_regions arm")

    integ = repo.method(MOD, CLS, "integrate")
    base_axes = repo.method(MOD, CLS, "base_axes_metadata")
    axes = _axis_exprs(base_axes)
    params = set(integ.params)

    df = DataFlow(integ.node)
    # the reduction: <self.array>[..., S_-2, S_-1] (.sum over the two base axes)
    subs = []
    for n in walk_no_nested(integ.node):
        if isinstance(n, ast.Subscript) and dotted(n.value) == "self.array" and isinstance(n.slice, ast.Tuple) \
                and len(n.slice.elts) >= 2 and isinstance(n.slice.elts[0], ast.Constant) \
                and n.slice.elts[0].value is Ellipsis:
            subs.append(n)
    ctx.require(len(subs) >= 1, f"{integ.qualname}: no `self.array[..., r, a]` selection found")
    if len(subs) > 1:
        # the window is assembled from several pieces (e.g. a periodic axis summed in two parts)
        _piecewise(ctx, integ, base_axes, axes, subs, df)
        return
    sub = subs[0]
    ctx.require(len(sub.slice.elts) == 3, f"{integ.qualname}: selection does not index exactly the two base axes")
    stmt = None
    for st in walk_no_nested(integ.node):
        if isinstance(st, ast.stmt) and not isinstance(st, (ast.If, ast.For, ast.While, ast.With, ast.Try,
                                                              ast.FunctionDef)) \
                and any(x is sub for x in ast.walk(st)):
            stmt = st
    ctx.require(stmt is not None, f"{integ.qualname}: selection statement not found")
    at = df.cfg.node_of(stmt).idx

    nz_meta = FlowNormalizer(DataFlow(base_axes.node), 0)
    index_terms: dict[str, dict[str, Poly]] = {}
    limit_param: dict[str, str] = {}
    for j, fam in enumerate(FAMILIES):
        sl = sub.slice.elts[1 + j]
        bounds = _slice_bounds(df, at, sl, integ)
        full, lim = [], []
        for lo_, hi_, node_ in bounds:
            if lo_ is None:
                full.append((lo_, hi_, node_))
                continue
            sl_ = df.backward_slice(node_, ast.Tuple(elts=[lo_, hi_], ctx=ast.Load()))
            (lim if (sl_.params - {"self"}) else full).append((lo_, hi_, node_))
        ctx.require(len(lim) >= 1, f"{integ.qualname}: no limited slice for base axis {j - 2}")
        ctx.require(len(full) >= 1, f"{integ.qualname}: no unlimited slice definition for base axis {j - 2}")
        for lo_, hi_, node_ in full:
            whole = lo_ is None
            if not whole:
                nzf = _IndexNorm(df, node_)
                whole = nzf.norm(lo_).is_zero() and nzf.norm(hi_) == nzf.norm(
                    ast.parse(f"self.shape[{j - 2}]", mode="eval").body)
                # ... and exactly so: an upper index obtained by truncating a float quotient, int(x / s) or x // s,
                # can come out one short of the number of bins
                inexact = [e_ for e_ in (lo_, hi_) if _rounded_float_quotient(e_)]
                if whole and inexact and not nzf.norm(hi_).is_zero():
                    ctx.violation("R-AXISMETA", f"{integ.qualname}:{fam}-axis no-limits", integ.loc(sub),
                                  f"without {fam} limits the upper index is `{norm_text(hi_)[:80]}`: algebraically the "
                                  "number of bins, but computed by truncating a floating-point quotient, which yields "
                                  "n-1 for some geometries — the outermost bin is silently dropped",
                                  key_detail="full-inexact")
                    continue
            ctx.check(whole, "R-AXISMETA", f"{integ.qualname}:{fam}-axis no-limits", integ.loc(sub),
                      "without limits the whole axis is summed",
                      f"without {fam} limits base axis {j - 2} is sliced "
                      f"[{norm_text(lo_) if lo_ is not None else ''}:{norm_text(hi_) if hi_ is not None else ''}], "
                      "not over all bins: integrating without limits does not give the total", key_detail="full")
        ctx.require(len(lim) == 1, f"{integ.qualname}: several limited slices reach base axis {j - 2}")
        lo, hi, node = lim[0]
        terms = {}
        nearest = {}
        for which, e in (("lower", lo), ("upper", hi)):
            nz = _IndexNorm(df, node)
            terms[which] = nz.norm(e)
            nearest[which] = "round:nearest" in nz.flags
        index_terms[fam] = terms
        # which parameter carries the limits: atoms of the form <param>[k]
        used = {}
        for which, p in terms.items():
            for a in p.atoms():
                m = re.fullmatch(r"1\*(\w+)\[(\d+)\]", a) or re.fullmatch(r"(\w+)\[(\d+)\]", a)
                if m and m.group(1) in params:
                    used.setdefault(which, set()).add((m.group(1), int(m.group(2))))
        ctx.require(all(len(used.get(w, ())) == 1 for w in ("lower", "upper")),
                    f"{integ.qualname}: cannot identify the limits parameter of base axis {j - 2} "
                    f"({ {w: sorted(v) for w, v in used.items()} })")
        (plo, klo), = used["lower"]
        (phi, khi), = used["upper"]
        limit_param[fam] = plo
        off, samp = axes[j]
        offp, sampp = nz_meta.norm(off), nz_meta.norm(samp)
        good = True
        why = []
        if plo != phi or (klo, khi) != (0, 1):
            good = False
            why.append(f"lower/upper index read {plo}[{klo}] and {phi}[{khi}] instead of one limits pair [0],[1]")
        for which, k in (("lower", 0), ("upper", 1)):
            expected = (_limit_atom(plo, k) - offp) * sampp.inverse()
            # a constant guard 0 <= c < 1 under a floor/truncation (int(x / s + 0.5), (x + s/2) // s) leaves the index of
            # every limit on a bin edge unchanged: floor(k + c) = k.  Under round-to-nearest it does not.
            guard = (terms[which] - expected).const_value()
            if not (guard is not None and 0 <= guard < 1 and (guard == 0 or not nearest[which])):
                good = False
                why.append(f"{which} index is {terms[which].key()} but axis {j - 2} is published with "
                           f"offset={norm_text(off)}, sampling={norm_text(samp)}, i.e. index {expected.key()}")
        ctx.check(good, "R-AXISMETA", f"{integ.qualname}:{fam}-axis index", integ.loc(lo),
                  f"index = ({plo}[k] - {norm_text(off)}) / {norm_text(samp)} for k=0,1",
                  "; ".join(why), key_detail="index")

    ctx.check(limit_param["radial"] != limit_param["azimuthal"], "R-AXISMETA", f"{integ.qualname}:limit-parameters",
              integ.where, f"axes are limited by distinct parameters {limit_param}",
              f"both base axes are limited by the same parameter {limit_param['radial']}", key_detail="params")

    # sibling alpha-equivalence
    bad = []
    differing: set[str] = set()
    for which in ("lower", "upper"):
        # a constant guard 0 <= c < 1 under the truncation is not part of the formula (see R-AXISMETA)
        r, a = (_strip_guard(index_terms[fam][which]) for fam in FAMILIES)
        if _rename(r) != a:
            bad.append(f"{which}: radial {r.key()}  vs azimuthal {a.key()}")
            differing |= {x for x in (_rename(r) - a).atoms() if not re.search(r"\[\d+\]$", x)}
    # the key names the quantities on which the two arms disagree (stable under refactoring, distinct per defect)
    ctx.check(not bad, "R-AXISFAMILY", f"{integ.qualname}:radial~azimuthal", integ.loc(sub),
              "radial and azimuthal index terms are alpha-equivalent under radial<->azimuthal: "
              + index_terms["radial"]["lower"].key(),
              "the azimuthal index is not the radial formula with radial->azimuthal: " + " | ".join(bad),
              key_detail="alpha[" + ",".join(sorted(differing)) + "]")
    for which in ("lower", "upper"):
        for fam in FAMILIES:
            ctx.info("R-AXISFAMILY", f"{integ.qualname}:{fam} {which}", integ.where,
                     f"index term {index_terms[fam][which].key()} (int() truncation not decided)")

    # the selection is reduced over exactly the two base axes
    red = None
    for n in walk_no_nested(stmt):
        if isinstance(n, ast.Call) and isinstance(n.func, ast.Attribute) and n.func.attr == "sum" and n.func.value is sub:
            red = n
    if red is not None:
        ax = kw(red, "axis") or (red.args[0] if red.args else None)
        txt = norm_text(ax) if ax is not None else "None"
        ctx.check(txt in ("(-2, -1)", "(-1, -2)") or _sum_chain_reduces_both(stmt, sub), "R-AXISMETA",
                  f"{integ.qualname}:reduction", integ.loc(red),
                  "selection summed over both base axes", f"the selection is summed over axis={txt}, not over both "
                  "base axes", key_detail="reduction")
    else:
        raise AnalysisError(f"{integ.qualname}: the selection is not reduced by .sum(...) directly")


# ---- added after the seeded change C13-seed5: step-by-step slicing must keep the earlier restriction
_inner_run_c13 = run


def run(ctx) -> None:  # noqa: F811
    import ast as _ast

    from ..model import dotted as _dotted, norm_text as _nt, walk_no_nested as _walk

    ctx.rule("R-STEPWISE", "when PolarMeasurements.integrate restricts the array step by step (one slicing per limits "
             "argument), every later step slices the working array produced by the earlier steps, not the full array "
             "again: otherwise giving radial and azimuthal limits together silently drops the radial restriction")
    f = ctx.repo.method("abtem.measurements", "PolarMeasurements", "integrate")
    steps = []

    def scan(body, guard):
        for st in body:
            if isinstance(st, _ast.If):
                g = _nt(st.test)
                scan(st.body, g if "limits" in g else guard)
                scan(st.orelse, guard)
            elif isinstance(st, _ast.Assign) and len(st.targets) == 1 and isinstance(st.targets[0], _ast.Name) \
                    and isinstance(st.value, _ast.Subscript) and guard is not None:
                steps.append((st, guard))

    scan(f.node.body, None)
    by_var: dict[str, list] = {}
    for st, g in steps:
        by_var.setdefault(st.targets[0].id, []).append((st, g))
    found = False
    for var, sts in by_var.items():
        guards = {g for _, g in sts}
        if len(sts) >= 2 and len(guards) >= 2:
            found = True
            sts = sorted(sts, key=lambda x: x[0].lineno)
            for k, (st, g) in enumerate(sts):
                base = st.value.value
                ok = (isinstance(base, _ast.Name) and base.id == var) or k == 0  # the first step may start afresh
                ctx.check(ok, "R-STEPWISE", f"{f.qualname}:{var} under `{g[:40]}`", f.loc(st),
                          f"step slices the working array `{var}`",
                          f"`{_nt(st)[:70]}` slices `{_nt(base)}` instead of the working array `{var}`: a restriction "
                          "applied by an earlier step is discarded when both limits are given", key_detail=g[:30])
    if not found:
        ctx.ok("R-STEPWISE", f"{f.qualname}:single-selection", f.where,
               "limits are applied in one selection (no step-by-step slicing)", nontrivial=False)
    _inner_run_c13(ctx)


# ---- added after the seeded change C13-r3seed5: limits are defaulted with `is None`
_inner_run_c13b = run


def run(ctx) -> None:  # noqa: F811
    from ..rules import nonedefault

    ctx.rule("R-NONEDEFAULT", nonedefault.__doc__.split("\n\n", 1)[1] + "  Applied to PolarMeasurements.integrate / "
             "integrate_radial / integrate_azimuthal and their helpers: a limit of exactly 0.0 (an edge at 0 rad of "
             "rotated bins, an upper limit 0) is a legal bound, not 'no limit'")
    k = ctx.repo.cls("abtem.measurements", "PolarMeasurements")
    n = 0
    NAMES = {"radial_limits", "azimuthal_limits", "limits", "inner", "outer", "limit", "lower", "upper"}
    for defs in k.methods.values():
        for f in defs:
            n += nonedefault.check(ctx, "R-NONEDEFAULT", f, NAMES, "integration limit")
    ctx.require(n >= 2, f"R-NONEDEFAULT examined only {n} methods of PolarMeasurements")
    _inner_run_c13b(ctx)



# ---- added after the mutation sweep (sweepF): the range check of an upper index
_inner_run_c13c = run


def run(ctx) -> None:  # noqa: F811
    import ast as _ast

    from ..cfg import DataFlow as _DF
    from ..model import norm_text as _nt, walk_no_nested as _walk
    from ..terms import FlowNormalizer as _FN

    ctx.rule("R-BOUNDCHECK", "where PolarMeasurements.integrate rejects limits by comparing a bin index with the number "
             "of bins, the index is compared with the length of its own axis (radial index with shape[-2], azimuthal "
             "index with shape[-1]) and only an index strictly greater than that length is rejected: an upper index "
             "equal to the number of bins is the slice end of the outermost bin, so the last piece of a partition of "
             "the range (and the full range itself) must be accepted")
    f = ctx.repo.method(MOD, CLS, "integrate")
    df = _DF(f.node)
    flip = {_ast.Lt: _ast.Gt, _ast.Gt: _ast.Lt, _ast.LtE: _ast.GtE, _ast.GtE: _ast.LtE}
    sym = {_ast.Lt: "<", _ast.Gt: ">", _ast.LtE: "<=", _ast.GtE: ">="}
    n = 0
    for st in _walk(f.node):
        if not (isinstance(st, _ast.If) and any(isinstance(x, _ast.Raise) for x in st.body) and not st.orelse):
            continue
        t = st.test
        if not (isinstance(t, _ast.Compare) and len(t.ops) == 1 and type(t.ops[0]) in flip):
            continue
        nz = _IndexNorm(df, df.cfg.node_of(st).idx)
        sides = [nz.norm(t.left), nz.norm(t.comparators[0])]
        shapes = {k: nz.norm(_ast.parse(f"self.shape[{k}]", mode="eval").body) for k in (-2, -1)}
        for i in (0, 1):
            axis = [k for k, p in shapes.items() if sides[i] == p]
            if not axis:
                continue
            idx = sides[1 - i]
            fams = {fam for fam in FAMILIES if any(fam in a for a in idx.atoms())}
            if len(fams) != 1:
                continue
            fam = fams.pop()
            own = -2 + FAMILIES.index(fam)
            op = type(t.ops[0]) if i == 1 else flip[type(t.ops[0])]  # orientation: index OP length
            n += 1
            ctx.check(axis[0] == own, "R-BOUNDCHECK", f"{f.qualname}:{fam} index range:axis", f.loc(t),
                      f"the {fam} index is checked against shape[{own}]",
                      f"the {fam} index {idx.key()[:70]} is checked against shape[{axis[0]}], the number of bins of the "
                      f"other axis: legal {fam} limits are rejected (or illegal ones accepted) whenever the two bin "
                      "counts differ", key_detail="axis")
            ctx.check(op is _ast.Gt, "R-BOUNDCHECK", f"{f.qualname}:{fam} index range:strict", f.loc(t),
                      "rejected only if index > number of bins",
                      f"limits are rejected when index {sym[op]} number of bins: "
                      + ("an upper limit at the outer edge of the last bin (index == number of bins) is refused, so the "
                         "outermost piece of a partition cannot be integrated" if op is _ast.GtE else
                         "every limit inside the range is refused"), key_detail="strict")
    if n == 0:
        ctx.ok("R-BOUNDCHECK", f"{f.qualname}:no-range-check", f.where, "no index/length range check in integrate",
               nontrivial=False)
    _inner_run_c13c(ctx)


# ---- added after the seeded change C13-r4seed3: floor division of the float quotient limit / bin width
_inner_run_c13d = run

FLOATFLOOR_TEXT = (
    "in PolarMeasurements.integrate no slice bound is obtained by a floor-type division (`a // b`, floor_divide, "
    "divmod, `a % b`, mod/remainder/fmod) whose divisor is a float and whose real quotient a/b is the index quotient "
    "(limit[k] - offset_j)/sampling_j of R-AXISMETA (up to an integer constant).  This clause is about Python/numpy "
    "float semantics, not about real arithmetic: float floor division and modulus are computed from the exact "
    "remainder of the two *stored* operands (fmod), so for a limit on a bin edge k*s with a bin width s that is not "
    "exactly representable they see a quotient a hair below k and return k-1 (1.0 // 0.1 == 9.0, 1.0 % 0.1 == "
    "0.0999...), whereas true division rounds the quotient to the nearest float, k (1.0 / 0.1 == 10.0).  The property "
    "quantifies exactly over limits on bin edges, where the real quotient is an integer and the floor is discontinuous; "
    "with `//` the upper/right limit loses the last bin inside the limits and the lower/left limit gains one bin "
    "below, and the pieces of a partition no longer add up.  Decided structurally only: which operator forms and "
    "rounds the quotient.  Silent: floor divisions with a provably integer divisor (n // 2, len, shape elements, "
    "int(...)/round(...) results), and a quotient moved off the integers by a fractional constant ((x + s/2) // s).  "
    "A divisor whose type cannot be established, or a float floor division of some other quotient, is an analysis "
    "error.  NOT decided: whether int(x / s) itself truncates a correctly rounded quotient below k (0.3 / 0.1)")


def _annotation_kind(ann, element: bool = False):
    """'int' / 'float' from an annotation (of the value, or of the elements of a tuple/sequence annotation)."""
    if ann is None:
        return None
    txt = ast.unparse(ann)
    words = set(re.findall(r"[A-Za-z_][\w.]*", txt))
    containers = {"tuple", "Tuple", "list", "List", "Sequence", "typing.Sequence"}
    if bool(words & containers) != element:
        return None
    words -= containers | {"Optional", "Union", "None", "typing.Optional", "typing.Union"}
    if words and words <= {"float", "int"}:
        return "float" if "float" in words else "int"
    return None


def _param_annotation(f, name: str):
    a = f.node.args
    for x in a.posonlyargs + a.args + a.kwonlyargs:
        if x.arg == name:
            return x.annotation
    return None


_INT_CALLS = {"int", "len", "round"}  # round with ONE argument
_FLOAT_CALLS = {"float", "float32", "float64", "floor", "ceil", "trunc", "rint", "sqrt", "hypot", "radians", "degrees",
                "arctan2", "deg2rad", "rad2deg"}


def _numkind(e: ast.expr, df: DataFlow, node: int, f, depth: int = 0):
    """'int' if the value is provably a Python/numpy integer, 'float' if it is (or can be) a float, None if unknown."""
    if depth > 12:
        return None
    if isinstance(e, ast.Constant):
        if isinstance(e.value, (bool, int)):
            return "int"
        return "float" if isinstance(e.value, float) else None
    if isinstance(e, ast.UnaryOp) and isinstance(e.op, (ast.USub, ast.UAdd)):
        return _numkind(e.operand, df, node, f, depth + 1)
    if isinstance(e, ast.BinOp):
        if isinstance(e.op, ast.Div):
            return "float"
        if isinstance(e.op, (ast.Add, ast.Sub, ast.Mult, ast.FloorDiv, ast.Mod, ast.Pow)):
            a, b = _numkind(e.left, df, node, f, depth + 1), _numkind(e.right, df, node, f, depth + 1)
            if "float" in (a, b):
                return "float"
            if a == b == "int":
                if isinstance(e.op, ast.Pow) and not (isinstance(e.right, ast.Constant) and isinstance(e.right.value, int)
                                                      and e.right.value >= 0):
                    return None
                return "int"
        return None
    if isinstance(e, ast.Call):
        short = _last_name(e)
        mod = dotted(e.func.value) if isinstance(e.func, ast.Attribute) else None
        if mod is None and short in _INT_CALLS and len(e.args) == 1 and not e.keywords:
            return "int"
        if mod == "math" and short in ("floor", "ceil", "trunc"):
            return "int"
        if (mod is None and short == "float") or (mod is not None and short in _FLOAT_CALLS):
            return "float"
        if short in ("abs", "absolute") and len(e.args) == 1:
            return _numkind(e.args[0], df, node, f, depth + 1)
        if isinstance(e.func, ast.Attribute) and short == "astype" and len(e.args) == 1:
            t = norm_text(e.args[0])
            return "int" if t in ("int", "np.int32", "np.int64") else ("float" if "float" in t else None)
        return None
    if isinstance(e, ast.Attribute):
        if e.attr in ("size", "ndim"):
            return "int"
        if e.attr == "pi":
            return "float"
        d = dotted(e)
        if d is not None and d.startswith("self.") and d.count(".") == 1 and f.cls is not None:
            if df.reaching(node, d):
                return None
            g = f.cls.find_method(e.attr, "getter")
            if g is not None and g.is_property:
                return _annotation_kind(g.node.returns)
        return None
    if isinstance(e, ast.Subscript):
        idx_const = isinstance(e.slice, ast.Constant) and isinstance(e.slice.value, int)
        neg_const = isinstance(e.slice, ast.UnaryOp) and isinstance(e.slice.op, ast.USub) and isinstance(
            e.slice.operand, ast.Constant) and isinstance(e.slice.operand.value, int)
        if isinstance(e.value, ast.Attribute) and e.value.attr == "shape" and (idx_const or neg_const):
            return "int"
        if isinstance(e.value, (ast.Tuple, ast.List)) and idx_const and -len(e.value.elts) <= e.slice.value < len(e.value.elts):
            return _numkind(e.value.elts[e.slice.value], df, node, f, depth + 1)
        if isinstance(e.value, ast.Name) and idx_const:
            defs = df.reaching(node, e.value.id)
            kinds = set()
            for d in defs:
                if d.kind == "param":
                    kinds.add(_annotation_kind(_param_annotation(f, e.value.id), element=True))
                elif d.kind == "assign" and isinstance(d.value, (ast.Tuple, ast.List)) and \
                        -len(d.value.elts) <= e.slice.value < len(d.value.elts):
                    kinds.add(_numkind(d.value.elts[e.slice.value], df, d.node, f, depth + 1))
                else:
                    kinds.add(None)
            return _join(kinds)
        return None
    if isinstance(e, ast.Name):
        defs = df.reaching(node, e.id)
        kinds = set()
        for d in defs:
            if d.kind == "param":
                kinds.add(_annotation_kind(_param_annotation(f, e.id)))
            elif d.kind in ("assign", "walrus") and d.value is not None:
                st = df.cfg.nodes[d.node].ast
                tgt = st.targets[0] if isinstance(st, ast.Assign) else None
                if isinstance(tgt, (ast.Tuple, ast.List)):
                    v = d.value
                    if isinstance(v, (ast.Tuple, ast.List)) and len(v.elts) == len(tgt.elts):
                        pos = [i for i, t in enumerate(tgt.elts) if isinstance(t, ast.Name) and t.id == e.id]
                        kinds.add(_numkind(v.elts[pos[0]], df, d.node, f, depth + 1) if pos else None)
                    elif isinstance(v, ast.Attribute) and v.attr == "shape" or (
                            isinstance(v, ast.Subscript) and isinstance(v.value, ast.Attribute) and v.value.attr == "shape"):
                        kinds.add("int")
                    else:
                        kinds.add(None)
                else:
                    kinds.add(_numkind(d.value, df, d.node, f, depth + 1))
            else:
                kinds.add(None)
        return _join(kinds)
    return None


def _join(kinds: set):
    if not kinds or None in kinds:
        return None
    return "float" if "float" in kinds else "int"


def _floor_ops(df: DataFlow, at: int, expr: ast.expr, seen: set, pos=None):
    """Floor-type divisions in `expr` (evaluated at CFG node `at`) and in every definition its value depends on:
    tuples (kind 'quot'|'rem'|'both', dividend, divisor, node where the operands are evaluated, ast node)."""
    parent = {}
    for p in ast.walk(expr):
        for c in ast.iter_child_nodes(p):
            parent[id(c)] = p
    for n in ast.walk(expr):
        if isinstance(n, ast.BinOp) and isinstance(n.op, (ast.FloorDiv, ast.Mod)):
            if isinstance(n.op, ast.Mod) and (isinstance(n.left, ast.JoinedStr) or (
                    isinstance(n.left, ast.Constant) and isinstance(n.left.value, str))):
                continue  # string formatting
            yield ("quot" if isinstance(n.op, ast.FloorDiv) else "rem", n.left, n.right, at, n)
        elif isinstance(n, ast.Call) and len(n.args) == 2 and _last_name(n) in (_QUOT_CALLS | _REM_CALLS | {"divmod"}):
            short = _last_name(n)
            kind = "quot" if short in _QUOT_CALLS else "rem" if short in _REM_CALLS else "both"
            if short == "divmod":
                par = parent.get(id(n))
                if isinstance(par, ast.Subscript) and par.value is n and isinstance(par.slice, ast.Constant) \
                        and par.slice.value in (0, 1):
                    kind = ("quot", "rem")[par.slice.value]
                elif n is expr and pos in (0, 1):
                    kind = ("quot", "rem")[pos]
            yield (kind, n.args[0], n.args[1], at, n)
    names = set()
    for n in ast.walk(expr):
        if isinstance(n, ast.Name) and isinstance(n.ctx, ast.Load):
            names.add(n.id)
        elif isinstance(n, ast.Attribute) and isinstance(n.ctx, ast.Load):
            d = dotted(n)
            if d is not None and d.startswith("self."):
                names.add(d)
    for name in sorted(names):
        for d in df.reaching(at, name):
            if (d.node, name) in seen or d.value is None or d.kind not in ("assign", "walrus", "aug"):
                continue
            seen.add((d.node, name))
            st = df.cfg.nodes[d.node].ast
            if isinstance(st, ast.AugAssign):
                if isinstance(st.op, (ast.FloorDiv, ast.Mod)):
                    yield ("quot" if isinstance(st.op, ast.FloorDiv) else "rem", st.target, st.value, d.node, st)
                load = copy.deepcopy(st.target)
                for x in ast.walk(load):
                    if hasattr(x, "ctx"):
                        x.ctx = ast.Load()
                yield from _floor_ops(df, d.node, load, seen)
                yield from _floor_ops(df, d.node, st.value, seen)
                continue
            p = None
            tgt = st.targets[0] if isinstance(st, ast.Assign) else None
            if isinstance(tgt, (ast.Tuple, ast.List)):
                hit = [i for i, t in enumerate(tgt.elts) if (isinstance(t, ast.Name) and t.id == name) or dotted(t) == name]
                p = hit[0] if hit else None
                if isinstance(d.value, (ast.Tuple, ast.List)) and p is not None and len(d.value.elts) == len(tgt.elts):
                    yield from _floor_ops(df, d.node, d.value.elts[p], seen)
                    continue
            yield from _floor_ops(df, d.node, d.value, seen, pos=p)


def _selections(integ, df: DataFlow):
    """[(subscript `self.array[..., r, a]`, CFG node of its statement)]: the selection, or the pieces it is made of."""
    subs = [n for n in walk_no_nested(integ.node)
            if isinstance(n, ast.Subscript) and dotted(n.value) == "self.array" and isinstance(n.slice, ast.Tuple)
            and len(n.slice.elts) == 3 and isinstance(n.slice.elts[0], ast.Constant) and n.slice.elts[0].value is Ellipsis]
    if not subs:
        raise AnalysisError(f"{integ.qualname}: no `self.array[..., r, a]` selection found")
    return [(sub, _stmt_node(integ, df, sub)) for sub in subs]


def _selection(integ, df: DataFlow):
    """(subscript `self.array[..., r, a]`, CFG node of its statement), as the base rule locates it."""
    subs = [n for n in walk_no_nested(integ.node)
            if isinstance(n, ast.Subscript) and dotted(n.value) == "self.array" and isinstance(n.slice, ast.Tuple)
            and len(n.slice.elts) == 3 and isinstance(n.slice.elts[0], ast.Constant) and n.slice.elts[0].value is Ellipsis]
    if len(subs) != 1:
        raise AnalysisError(f"{integ.qualname}: expected exactly one `self.array[..., r, a]` selection, found {len(subs)}")
    stmt = None
    for st in walk_no_nested(integ.node):
        if isinstance(st, ast.stmt) and not isinstance(st, (ast.If, ast.For, ast.While, ast.With, ast.Try, ast.FunctionDef)) \
                and any(x is subs[0] for x in ast.walk(st)):
            stmt = st
    if stmt is None:
        raise AnalysisError(f"{integ.qualname}: selection statement not found")
    return subs[0], df.cfg.node_of(stmt).idx


def floatfloor(ctx, rule: str = "R-FLOATFLOOR") -> int:
    """R-FLOATFLOOR on the slice bounds of PolarMeasurements.integrate (also run by C12); returns the number of bound
    expressions examined."""
    repo = ctx.repo
    integ = repo.method(MOD, CLS, "integrate")
    axes = _axis_exprs(repo.method(MOD, CLS, "base_axes_metadata"))
    nz_meta = FlowNormalizer(DataFlow(repo.method(MOD, CLS, "base_axes_metadata").node), 0)
    df = DataFlow(integ.node)
    pieces = _selections(integ, df)
    limit_params = [p for p in integ.params if p != "self"]
    pending = None
    examined = 0
    for j, fam in enumerate(FAMILIES):
        offp, sampp = nz_meta.norm(axes[j][0]), nz_meta.norm(axes[j][1])
        expected = [(_limit_atom(p, k) - offp) * sampp.inverse() for p in limit_params for k in (0, 1)]
        n_arm = 0
        bounds, seen_b = [], set()
        for sub, at in pieces:
            for b in _slice_bounds(df, at, sub.slice.elts[1 + j], integ, allow_open=len(pieces) > 1):
                if (id(b[0]), id(b[1]), b[2]) not in seen_b or (b[0] is None and b[1] is None):
                    seen_b.add((id(b[0]), id(b[1]), b[2]))
                    bounds.append(b)
        for lo, hi, node in bounds:
            if lo is None and hi is None:
                continue
            n_arm += 1
            for which, e in (("lower", lo), ("upper", hi)):
                if e is None:
                    continue  # a piece that runs to the end / from the start of the axis
                examined += 1
                construct = f"{integ.qualname}:{fam}-axis {which} index"
                ops = list(_floor_ops(df, node, e, set()))
                kinds_float = set()
                verdicts = []
                for kind, a, b, nd, opnode in ops:
                    what = norm_text(opnode)[:70]
                    bk = _numkind(b, df, nd, integ)
                    if bk == "int":
                        verdicts.append(("ok", kind, f"`{what}`: integer divisor"))
                        continue
                    if bk is None:
                        pending = pending or AnalysisError(
                            f"{integ.qualname}: {rule}: cannot establish whether the divisor `{norm_text(b)[:40]}` of the "
                            f"floor division `{what}` in the {fam} {which} index is an integer")
                        continue
                    kinds_float.add(kind)
                    nz = _IndexNorm(df, nd)
                    q = nz.norm(a) * nz.norm(b).inverse()
                    consts = [c for c in ((q - x).const_value() for x in expected) if c is not None]
                    if not consts:
                        pending = pending or AnalysisError(
                            f"{integ.qualname}: {rule}: float floor division `{what}` in the {fam} {which} index: its "
                            f"quotient {q.key()[:70]} is not the index quotient (limit - offset)/sampling; whether it "
                            "meets an integer at bin-edge limits is not decided")
                        continue
                    c = consts[0]
                    if c.denominator != 1:
                        verdicts.append(("ok", kind, f"`{what}`: the quotient is (limit - offset)/sampling + {c}, kept "
                                                     "off the integers at bin-edge limits"))
                    else:
                        verdicts.append(("bad", kind, what))
                if {"quot", "rem"} <= kinds_float or "both" in kinds_float:
                    pending = pending or AnalysisError(
                        f"{integ.qualname}: {rule}: the {fam} {which} index combines a float floor quotient with the "
                        "remainder of the same kind of division (a rounding correction?) — not interpreted")
                    continue
                bad = [v for v in verdicts if v[0] == "bad"]
                for _, kind, what in bad[:1]:
                    ctx.violation(
                        rule, construct, integ.loc(e),
                        f"the {fam} {which} bin index is obtained with the float floor-type division `{what}`: its real "
                        "quotient is (limit - offset)/sampling, an integer k for every limit on a bin edge, but float "
                        "`//`/`%` work on the exact remainder of the stored operands and yield k-1 (resp. a remainder "
                        "just below the bin width) whenever the bin width is not exactly representable (1.0 // 0.1 == "
                        "9.0): " + ("the last bin inside the limits is dropped" if which == "upper" else
                                    "one bin below the limit is included")
                        + "; form the quotient with true division and round/truncate it",
                        key_detail="floatfloor-" + ("quotient" if kind in ("quot", "both") else "remainder"))
                if not bad:
                    oks = [t for v, _, t in verdicts if v == "ok"]
                    ctx.ok(rule, construct, integ.loc(e),
                           "; ".join(oks) if oks else "no floor-type division enters this bound (the quotient is formed "
                                                      "with true division)")
        if n_arm == 0:
            raise AnalysisError(f"{integ.qualname}: {rule}: no computed slice bounds for base axis {j - 2}")
    if pending is not None:
        raise pending
    return examined


def run(ctx) -> None:  # noqa: F811
    from ..rules import deferred

    ctx.rule("R-FLOATFLOOR", FLOATFLOOR_TEXT)
    deferred.run(ctx, lambda: floatfloor(ctx), _inner_run_c13d)


# ---- added after the seeded change C13-r6seed3: a window assembled from several pieces (periodic azimuthal limits)
_inner_run_c13e = run

WINDOWEXACT_TEXT = (
    "for limits on bin edges with indices 0 <= l <= r <= n on an axis with n bins, PolarMeasurements.integrate returns "
    "the formal sum of exactly the cells with index in [l, r) on that axis (and all cells of an axis without limits), "
    "each once: r = n, the outer edge of the last bin, selects up to the end, l = r selects nothing, no limits select "
    "everything.  Decided by exact evaluation (sa/rules/binwindow.py): the method is interpreted over abstract arrays "
    "whose elements are formal sums of cells, for every pair of bin counts in {1,2,3}^2 and every window (l, r) of both "
    "axes, with the limits put on the bin edges the class publishes (offset_j + k*sampling_j, generic rational "
    "offsets and samplings) and exact integer/rational index arithmetic.  This reads selections made of several "
    "pieces (a sum of sliced sums, possibly under a test): the pieces must tile [l, r) — a piece counted twice gives "
    "weight 2, a gap weight 0, and an index reduced with `% n` turns the upper index n into 0, so the explicit full "
    "range selects nothing.  Necessary for the property: the property quantifies over exactly these limits")


def _window_kind(l, r, n) -> str:
    if l == r:
        return "empty"
    if l == 0 and r == n:
        return "full"
    if r == n:
        return "upper-on-last-edge"
    if l == 0:
        return "lower-on-first-edge"
    return "interior"


_KIND_ORDER = ("no-limits", "full", "upper-on-last-edge", "lower-on-first-edge", "interior", "empty")


def windowexact(ctx, rule: str = "R-WINDOWEXACT") -> int:
    """R-WINDOWEXACT on PolarMeasurements.integrate (also run by C12); returns the number of windows evaluated."""
    from ..rules import binwindow as bw

    repo = ctx.repo
    integ = repo.method(MOD, CLS, "integrate")
    base_axes = repo.method(MOD, CLS, "base_axes_metadata")
    cls = integ.cls
    limit_param = {}
    for fam in FAMILIES:
        ps = [p for p in integ.params if fam in p and integ.defaults().get(p) is not None
              and isinstance(integ.defaults()[p], ast.Constant) and integ.defaults()[p].value is None]
        ctx.require(len(ps) == 1, f"{integ.qualname}: expected one optional {fam} limits parameter, found {ps}")
        limit_param[fam] = ps[0]

    attr_table: dict = {}

    def published(nbins):
        it = bw.Interp(repo, cls, nbins, attr_table)
        try:
            val = it.call_function(base_axes, [], {}, bw.SELF)
        except bw.Raised as e:
            raise AnalysisError(f"{base_axes.qualname}: exact evaluation: raises {e.name}")
        if not isinstance(val, (list, tuple)) or len(val) != 2:
            raise AnalysisError(f"{base_axes.qualname}: does not return a two-element axis list")
        return it

    # offset / sampling of each base axis as published, evaluated in the same sample of the object's attributes
    axes = _axis_exprs(base_axes)

    def edges(nbins, j, k):
        it = bw.Interp(repo, cls, nbins, attr_table)
        it._fn.append(base_axes)
        env = {base_axes.positional_params[0]: bw.SELF}
        # locals of base_axes_metadata the published expressions may mention
        try:
            try:
                it.block(base_axes.node.body, env)
            except bw._Return:
                pass
            off, samp = (it.eval(x, env) for x in axes[j])
        except bw.Raised as e:
            raise AnalysisError(f"{base_axes.qualname}: exact evaluation: raises {e.name}")
        off, samp = it.num(off, axes[j][0]), it.num(samp, axes[j][1])
        if samp == 0:
            raise AnalysisError(f"{base_axes.qualname}: sampling evaluates to 0")
        return off + k * samp

    def evaluate(nbins, windows):
        """windows: per family None or (l, r).  Returns ('sum', weights) | ('raises', name) | ('shape', text)."""
        it = bw.Interp(repo, cls, nbins, attr_table)
        kwargs = {}
        for j, fam in enumerate(FAMILIES):
            w = windows[j]
            kwargs[limit_param[fam]] = None if w is None else (Fraction(edges(nbins, j, w[0])),
                                                               Fraction(edges(nbins, j, w[1])))
        try:
            val = it.call_function(integ, [], kwargs, bw.SELF)
        except bw.Raised as e:
            return ("raises", e.name)
        arrs = bw.arrays_in(val)
        if len(arrs) != 1:
            raise AnalysisError(f"{integ.qualname}: exact evaluation: the returned value holds {len(arrs)} arrays derived "
                                "from self.array, expected one")
        wts = arrs[0].weights()
        if wts is None:
            return ("shape", f"an array that still has {len(arrs[0].shape)} of the two base axes")
        return ("sum", wts)

    def expected(nbins, windows):
        rng = [range(nbins[j]) if windows[j] is None else range(windows[j][0], windows[j][1]) for j in (0, 1)]
        return {(i, j): Fraction(1) for i in rng[0] for j in rng[1]}

    def show_cells(wts, nbins, j):
        """projection of a weight table on axis j, as text"""
        parts = []
        for i in range(nbins[j]):
            ws = {wts.get((i, k) if j == 0 else (k, i), Fraction(0)) for k in range(nbins[1 - j])}
            if ws == {Fraction(0)}:
                continue
            parts.append(str(i) if ws == {Fraction(1)} else f"{i} (weight {'/'.join(str(w) for w in sorted(ws))})")
        stray = sorted({c[j] for c in wts if not 0 <= c[j] < nbins[j]})
        parts += [f"{i} (outside)" for i in stray]
        return "bins {" + ", ".join(parts) + "}" if parts else "no bins"

    sizes = [(a, b) for a in (1, 2, 3) for b in (1, 2, 3)]
    n_eval = 0
    failures = {fam: [] for fam in FAMILIES}
    failures["none"] = []
    failures["both"] = []
    totals: dict = {}

    def pairs(n):
        return [(l, r) for l in range(n + 1) for r in range(l, n + 1)]

    def run_case(nbins, windows, bucket, kind):
        nonlocal n_eval
        n_eval += 1
        got = evaluate(nbins, windows)
        if got[0] == "sum" and got[1] == expected(nbins, windows):
            return
        if bucket == "none":
            totals[nbins] = got
        elif bucket in FAMILIES and got[0] == "sum" and totals.get(nbins, ("",))[0] == "sum":
            # the sum without limits is already wrong for these bin counts: a window that is exactly that sum masked
            # to [l, r) restricts its own axis correctly — the deviation is the one reported for the total
            j = FAMILIES.index(bucket)
            l, r = windows[j]
            if got[1] == {c: w for c, w in totals[nbins][1].items() if l <= c[j] < r}:
                return
        failures[bucket].append((kind, nbins, windows, got))

    for nbins in sizes:
        run_case(nbins, (None, None), "none", "no-limits")
        for j, fam in enumerate(FAMILIES):
            for (l, r) in pairs(nbins[j]):
                w = [None, None]
                w[j] = (l, r)
                run_case(nbins, tuple(w), fam, _window_kind(l, r, nbins[j]))
    single_clean = not any(failures[k] for k in ("none",) + FAMILIES)
    if single_clean:
        for nbins in sizes:
            for wr in pairs(nbins[0]):
                for wa in pairs(nbins[1]):
                    kinds = {_window_kind(*wr, nbins[0]), _window_kind(*wa, nbins[1])}
                    run_case(nbins, (wr, wa), "both", sorted(kinds, key=_KIND_ORDER.index)[0])

    def describe(case, j):
        kind, nbins, windows, got = case
        n = nbins[j] if j is not None else None
        lim = ", ".join(f"{fam} limits on the edges (l, r) = {windows[jj]} of {nbins[jj]} bins"
                        for jj, fam in enumerate(FAMILIES) if windows[jj] is not None) or "no limits"
        if got[0] == "raises":
            return f"{lim}: raises {got[1]} instead of returning the sum"
        if got[0] == "shape":
            return f"{lim}: returns {got[1]}"
        exp = expected(nbins, windows)
        if j is None:
            return (f"{lim} ({nbins[0]} x {nbins[1]} bins): sums radial {show_cells(got[1], nbins, 0)} x azimuthal "
                    f"{show_cells(got[1], nbins, 1)} instead of radial {show_cells(exp, nbins, 0)} x azimuthal "
                    f"{show_cells(exp, nbins, 1)}, each cell once")
        return (f"{lim}: sums {show_cells(got[1], nbins, j)} of the {n} bins along the {FAMILIES[j]} axis instead of "
                f"{show_cells(exp, nbins, j)}")

    def smallest(cases):
        # the most readable witness: the largest sample size, then the smallest window
        return min(cases, key=lambda c: (-sum(c[1]), c[1], [w or () for w in c[2]]))

    q = integ.qualname
    bad = failures["none"]
    ctx.check(not bad, rule, f"{q}:no-limits total", integ.where,
              f"without limits every cell is summed once ({len(sizes)} pairs of bin counts)",
              describe(smallest(bad), None) if bad else "", key_detail="total")
    for j, fam in enumerate(FAMILIES):
        bad = failures[fam]
        kinds = sorted({c[0] for c in bad}, key=_KIND_ORDER.index)
        detail = ""
        if bad:
            first = smallest([c for c in bad if c[0] == kinds[0]])
            detail = (f"the {fam} axis is not summed exactly for windows of the kind {', '.join(kinds)}; e.g. "
                      + describe(first, j)
                      + ("; an upper limit on the outer edge of the last bin has the index n, the number of bins: it "
                         "must select up to the end of the axis" if {"full", "upper-on-last-edge"} & set(kinds) else ""))
        ctx.check(not bad, rule, f"{q}:{fam}-axis window", integ.where,
                  f"every window [l, r) with 0 <= l <= r <= n on bin edges sums exactly the bins l..r-1 (n = 1, 2, 3; "
                  f"full range, last edge, first edge, interior and empty windows)", detail,
                  key_detail="window[" + ",".join(kinds) + "]")
    if single_clean:
        bad = failures["both"]
        kinds = sorted({c[0] for c in bad}, key=_KIND_ORDER.index)
        ctx.check(not bad, rule, f"{q}:both-axes window", integ.where,
                  "radial and azimuthal windows given together select the product of the two index ranges",
                  ("with both limits given the sum is not over the product of the two windows; e.g. "
                   + describe(smallest(bad), None)) if bad else "", key_detail="joint[" + ",".join(kinds) + "]")
    return n_eval


def run(ctx) -> None:  # noqa: F811
    from ..rules import deferred

    ctx.rule("R-WINDOWEXACT", WINDOWEXACT_TEXT)
    deferred.run(ctx, lambda: windowexact(ctx), _inner_run_c13e)
