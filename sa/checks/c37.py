"""C37 — real-space multislice is a faithful discretization (abtem/finite_difference.py).

Decides the stencil clauses: symmetry and size of every literal coefficient table, centring of the rolled
coefficient vector, the same coefficient table applied along both grid axes with a symmetric offset range, and
the per-axis scale 1/sampling[a]^2.  The classical accuracy (moment) conditions are computed and reported only.
"""
from __future__ import annotations

import ast
from fractions import Fraction

from ..cfg import DataFlow
from ..model import AnalysisError, FuncInfo, bind_args, call_name, dotted, last_attr, module_constants, norm_text, \
    walk_no_nested
from ..terms import FlowNormalizer, Normalizer, Poly

FD = "abtem.finite_difference"


def _bare(k: str) -> str:
    return k[2:] if k.startswith("1*") else k


# ====================================================================== tables
def _tables(ctx):
    mod = ctx.repo.module(FD)
    consts = module_constants(mod)
    ctx.require("fd_coefficients" in consts and isinstance(consts["fd_coefficients"], dict),
                f"{FD}.fd_coefficients is no longer a foldable literal table")
    tabs = consts["fd_coefficients"]
    ctx.require(len(tabs) >= 3, "fewer than three coefficient tables")
    for acc in sorted(tabs):
        c = list(tabs[acc])
        cons = f"{FD}.fd_coefficients[{acc}]"
        n = len(c)
        asym = [i for i in range(n // 2) if c[i] != c[n - 1 - i]]
        why = f"table has an even number of entries ({n}): no centre coefficient" if n % 2 == 0 else (
            f"c[{asym[0]}] = {c[asym[0]]!r} differs from c[{n - 1 - asym[0]}] = {c[n - 1 - asym[0]]!r}" if asym else "")
        ctx.check(not asym and n % 2 == 1, "R-SYMMETRIC", f"{cons}:symmetry", mod.relpath,
                  f"{n} coefficients, c[i] == c[-1-i] for all i",
                  why + " — an asymmetric stencil has a complex eigenvalue on plane waves, so vacuum propagation by the "
                  "exponential series does not preserve intensity", key_detail="symmetry")
        ctx.check(isinstance(acc, int) and n == acc + 1, "R-SYMMETRIC", f"{cons}:size", mod.relpath,
                  f"accuracy {acc} uses {n} = accuracy + 1 points",
                  f"the table filed under accuracy {acc} has {n} points; a centred second-derivative stencil of that "
                  f"accuracy has {acc + 1} (the table of another accuracy was stored under this key)", key_detail="size")
        # ---- accuracy conditions: informational
        try:
            fr = [Fraction(x).limit_denominator(10 ** 9) for x in c]
            h = n // 2
            ks = list(range(-h, h + 1))
            m0 = sum(fr)
            m2 = sum(f * k ** 2 for f, k in zip(fr, ks))
            hi = [p for p in range(4, acc + 1, 2) if sum(f * k ** p for f, k in zip(fr, ks)) != 0]
            exact = m0 == 0 and m2 == 2 and not hi
            resid = abs(sum(x for x in c)), abs(sum(x * k ** 2 for x, k in zip(c, ks)) - 2)
            ctx.info("R-MOMENTS", f"{cons}", mod.relpath,
                     ("moment conditions hold exactly in rationals (sum c = 0, sum c k^2 = 2, even moments 4.."
                      f"{acc} = 0)") if exact else
                     f"moment conditions not exact after rational reconstruction: sum c = {float(m0):.3g}, "
                     f"sum c k^2 - 2 = {float(m2 - 2):.3g}, failing even moments {hi}; float residuals {resid[0]:.2e}, "
                     f"{resid[1]:.2e} (informational: the property's eigenvalue is defined by the stencil)")
        except Exception as e:  # pragma: no cover - informational only
            ctx.info("R-MOMENTS", cons, mod.relpath, f"moments not computed: {e}")
    # the lookup uses the requested accuracy as the key
    fdc = ctx.repo.function(FD, "finite_difference_coefficients")
    subs = [s for s in walk_no_nested(fdc.node) if isinstance(s, ast.Subscript) and dotted(s.value) == "fd_coefficients"]
    ctx.require(len(subs) >= 1, f"{fdc.qualname}: table lookup not found")
    acc_param = "accuracy"
    ctx.require(acc_param in fdc.params, f"{fdc.qualname}: parameter `accuracy` not found")
    for s in subs:
        ctx.check(dotted(s.slice) == acc_param, "R-SYMMETRIC", f"{fdc.qualname}:lookup", fdc.loc(s),
                  "table is selected by the requested accuracy",
                  f"table lookup `{norm_text(s)}` is not keyed by `{acc_param}`", key_detail="lookup")
    dpar = fdc.positional_params[0]
    tab_guard = any(isinstance(n, ast.Compare) and dpar in {m.id for m in ast.walk(n) if isinstance(m, ast.Name)} and
                    any(isinstance(o, (ast.Eq, ast.NotEq)) for o in n.ops) for n in ast.walk(fdc.node))
    if not tab_guard:
        ctx.info("R-SYMMETRIC", f"{fdc.qualname}:derivative", fdc.where,
                 f"the literal tables are second-derivative stencils but are returned for any `{dpar}` (only "
                 f"{dpar}=2 is requested inside the package)")
    return tabs


# ====================================================================== kernels
class _KernelNorm(Normalizer):
    """Normalises the accumulated expression of a stencil kernel: samples `a[..]` become atoms S<n>, coefficient
    lookups `name[k]` become atoms `name@k`."""

    def __init__(self, arr: str, loopvar: str):
        super().__init__()
        self.arr = arr
        self.loopvar = loopvar
        self.samples: dict[str, list[Poly]] = {}
        self.coefs: set[str] = set()

    def norm(self, n):
        if isinstance(n, ast.Subscript) and isinstance(n.value, ast.Name):
            if n.value.id == self.arr:
                idx = n.slice.elts if isinstance(n.slice, ast.Tuple) else [n.slice]
                polys = [Normalizer().norm(e) for e in idx]
                name = f"S{len(self.samples)}"
                self.samples[name] = polys
                return Poly.atom(name)
            if isinstance(n.slice, ast.Name) and n.slice.id == self.loopvar:
                self.coefs.add(n.value.id)
                return Poly.atom(f"{n.value.id}@{self.loopvar}")
        if isinstance(n, ast.Call) and len(n.args) == 1 and dotted(n.func) in ("dtype", "float", "complex", "np.complex64",
                                                                               "np.complex128"):
            return self.norm(n.args[0])
        return super().norm(n)


def _nested_functions(f: ast.FunctionDef):
    for n in ast.walk(f):
        if isinstance(n, ast.FunctionDef) and n is not f:
            yield n


def _kernel_terms(ctx, outer: FuncInfo, k: ast.FunctionDef):
    """-> {axis_from_end: coefficient Poly}, loop range ok?, loop node  for one stencil kernel, or None."""
    if not k.args.args:
        return None
    arr = k.args.args[0].arg
    best = None
    for loop in ast.walk(k):
        if not (isinstance(loop, ast.For) and isinstance(loop.target, ast.Name) and isinstance(loop.iter, ast.Call)
                and call_name(loop.iter) in ("range", "prange") and len(loop.iter.args) == 2):
            continue
        accs = [st for st in loop.body if isinstance(st, ast.AugAssign) and isinstance(st.op, ast.Add) and
                isinstance(st.target, ast.Name)]
        uses = [s for st in accs for s in ast.walk(st.value) if isinstance(s, ast.Subscript) and
                isinstance(s.value, ast.Name) and s.value.id == arr]
        if accs and uses:
            best = (loop, accs)
    if best is None:
        return None
    loop, accs = best
    kv = loop.target.id
    nz = _KernelNorm(arr, kv)
    total = Poly()
    for st in accs:
        total = total + nz.norm(st.value)
    by_axis: dict[int, Poly] = {}
    for mono, coef in total.terms.items():
        ss = [a for a, e in mono if a in nz.samples]
        if len(ss) != 1 or dict(mono)[ss[0]] != 1:
            raise AnalysisError(f"{outer.qualname}.{k.name}: accumulated term {Poly({mono: coef}).key()} is not "
                                "coefficient x sample")
        idx = nz.samples[ss[0]]
        shifted = []
        for pos, p in enumerate(idx):
            has = [m for m in p.terms if any(a == kv for a, _ in m)]
            if has:
                if p.terms.get(((kv, Fraction(1)),)) != 1 or len(has) != 1 or len(p.terms) != 2:
                    raise AnalysisError(f"{outer.qualname}.{k.name}: sample index {p.key()} is not <pixel> + {kv}")
                shifted.append(pos - len(idx))
        if len(shifted) != 1:
            raise AnalysisError(f"{outer.qualname}.{k.name}: a sample is shifted along {len(shifted)} axes")
        cpoly = Poly({mono: coef}) * Poly.atom(ss[0]).inverse()
        by_axis[shifted[0]] = by_axis.get(shifted[0], Poly()) + cpoly
    lo, hi = (Normalizer().norm(a) for a in loop.iter.args)
    sym = (lo + hi) == Poly.const(1)
    half = _bare((hi - Poly.const(1)).key())
    if not half.isidentifier():
        half = _bare((-lo).key())
    return by_axis, sym, loop, kv, nz.coefs, half


def _stencil(ctx):
    repo = ctx.repo
    f = repo.function(FD, "_laplace_operator_stencil")
    df = DataFlow(f.node)
    kernels = []
    for k in _nested_functions(f.node):
        r = _kernel_terms(ctx, f, k)
        if r is not None:
            kernels.append((k, r))
    ctx.require(len(kernels) >= 1, f"{f.qualname}: no stencil kernel (loop accumulating coefficient x sample) found")
    coef_names: set[str] = set()
    half_names: set[str] = set()
    for k, (by_axis, sym, loop, kv, coefs, half) in kernels:
        cons = f"{f.qualname}.{k.name}"
        axes = sorted(by_axis)
        ctx.check(axes == [-2, -1], "R-SAMEVECTOR", f"{cons}:axes", f.loc(loop),
                  "samples are shifted along array axes -2 and -1",
                  f"the kernel shifts samples along axes {axes}; a 2D Laplacian needs exactly the two grid axes -2 and -1",
                  key_detail="axes")
        if axes == [-2, -1]:
            cx, cy = by_axis[-2], by_axis[-1]
            same_tab = cx == cy or _same_table(f, df, k, cx, cy)
            ctx.check(same_tab, "R-SAMEVECTOR", f"{cons}:coefficients", f.loc(loop),
                      f"axis -2 uses {cx.key()}, axis -1 uses {cy.key()}" + ("" if cx == cy else
                                                                             " (same table, per-axis scale)"),
                      f"the second difference along axis -2 is weighted by {cx.key()} but along axis -1 by {cy.key()}: "
                      "the two directions use different stencils", key_detail="coefficients")
        ctx.check(sym, "R-SAMEVECTOR", f"{cons}:offset-range", f.loc(loop),
                  f"offsets run over range(-{half}, {half} + 1)",
                  f"offset loop `{norm_text(loop.iter)}` is not symmetric about 0: one side of the stencil is dropped",
                  key_detail="range")
        coef_names |= coefs
        half_names.add(half)
    # ---- R-CENTER: the rolled vector has the centre coefficient at index 0 and n = len // 2
    ctx.require(len(half_names) == 1, f"{f.qualname}: kernels use different half-widths {sorted(half_names)}")
    half = next(iter(half_names))
    anchor = None
    for k, _ in kernels:
        anchor = _anchor_of(df, k)
        if anchor is not None:
            break
    ctx.require(anchor is not None, f"{f.qualname}: kernel definition has no CFG node")
    nzh = FlowNormalizer(df, anchor)
    nzh.no_inline.update(coef_names)
    hp = nzh.norm(ast.Name(id=half, ctx=ast.Load())) if half.isidentifier() else None
    ctx.require(hp is not None, f"{f.qualname}: half-width `{half}` is not a plain variable")
    rolls = []
    for cname in sorted(coef_names):
        chain = _def_chain(df, anchor, cname)
        for call, node in chain:
            if last_attr(call) == "roll" and len(call.args) >= 2:
                nzr = FlowNormalizer(df, node)
                nzr.no_inline.update(coef_names)
                rolls.append((cname, call, nzr.norm(call.args[1]), node))
    ctx.require(len(rolls) >= 1, f"{f.qualname}: np.roll of the coefficient vector not found")
    for cname, call, shift, node in rolls:
        hp_c = _rename_len(hp, coef_names)
        sh_c = _rename_len(shift, coef_names)
        good = sh_c == -hp_c or sh_c == hp_c + Poly.const(1)
        ctx.check(good, "R-CENTER", f"{f.qualname}:roll {cname}", f.loc(call),
                  f"vector rolled by {shift.key()} with half-width {hp.key()}: the centre coefficient sits at index 0",
                  f"the coefficient vector is rolled by {shift.key()} while the kernels index it with offsets "
                  f"-{half}..{half}, {half} = {hp.key()}: index 0 is not the centre coefficient, the stencil is shifted",
                  key_detail="roll")
    return f, df, anchor, kernels, coef_names


def _pretty(p: Poly) -> str:
    parts = []
    for mono in sorted(p.terms, key=lambda m: [(a, float(e)) for a, e in m]):
        c = p.terms[mono]
        fs = [(_bare(a) if e == 1 else f"{_bare(a)}^{e}") for a, e in mono]
        if c != 1 or not fs:
            fs.insert(0, str(c))
        parts.append("*".join(fs))
    return " + ".join(parts) if parts else "0"


def _anchor_of(df: DataFlow, k: ast.FunctionDef):
    for n in df.cfg.nodes:
        if n.kind == "stmt" and n.ast is k:
            return n.idx
    return None


def _lookup_name(cp: Poly):
    """`name` when the coefficient polynomial is exactly one lookup name[k]."""
    if len(cp.terms) != 1:
        return None
    (mono, cc), = cp.terms.items()
    if cc != 1 or len(mono) != 1 or "@" not in mono[0][0] or mono[0][1] != 1:
        return None
    return mono[0][0].split("@")[0]


def _split_lookup(cp: Poly):
    """coefficient monomial -> (lookup name, extra scale polynomial): exactly one lookup atom name@k with exponent 1,
    any other factors (numbers, prefactor components applied inside the kernel) form the extra scale."""
    if len(cp.terms) != 1:
        return None
    (mono, cc), = cp.terms.items()
    looks = [(a, e) for a, e in mono if "@" in a]
    if len(looks) != 1 or looks[0][1] != 1:
        return None
    rest = tuple((a, e) for a, e in mono if "@" not in a)
    return looks[0][0].split("@")[0], Poly({rest: cc})


def _vector_of(df: DataFlow, anchor: int, cp: Poly):
    """The coefficient vector (table x scale) an axis is weighted with, in terms of T and prefactor components."""
    sp = _split_lookup(cp)
    if sp is None:
        return None
    name, extra = sp
    nzo = FlowNormalizer(df, anchor, call_hook=_scale_hook)
    return nzo.norm(ast.Name(id=name, ctx=ast.Load())) * extra


def _same_table(f: FuncInfo, df: DataFlow, k: ast.FunctionDef, cx: Poly, cy: Poly) -> bool:
    """Different lookups are acceptable when both vectors are the same table times a per-axis scale (the scale may be
    applied when the vector is built or inside the kernel)."""
    anchor = _anchor_of(df, k)
    if anchor is None:
        return False
    vecs = []
    for cp in (cx, cy):
        v = _vector_of(df, anchor, cp)
        if v is None:
            return False
        vecs.append(v.subst({"1*prefactor[0]": Poly.atom("P"), "1*prefactor[1]": Poly.atom("P"),
                             "prefactor[0]": Poly.atom("P"), "prefactor[1]": Poly.atom("P")}))
    return vecs[0] == vecs[1] and "T" in vecs[0].atoms()


def _rename_len(p: Poly, names: set[str]) -> Poly:
    """len() of any of the (shape-preserving) stages of the coefficient vector is the same number."""
    import re

    out = Poly()
    for mono, c in p.terms.items():
        m2 = []
        for a, e in mono:
            a2 = re.sub(r"len\(1\*(%s)\)" % "|".join(sorted(map(re.escape, names | {"coefficients", "coefs"}))), "len(C)", a)
            m2.append((a2, e))
        out = out + Poly({tuple(sorted(m2)): c})
    return out


def _def_chain(df: DataFlow, at: int, name: str, depth: int = 0):
    """Calls on the right-hand sides of the chain of single definitions of `name` reaching `at`."""
    out = []
    seen = set()
    while depth < 12:
        d = df.single_def(at, name)
        if d is None or d.value is None or d.node in seen:
            break
        seen.add(d.node)
        for c in ast.walk(d.value):
            if isinstance(c, ast.Call):
                out.append((c, d.node))
        srcs = {n.id for n in ast.walk(d.value) if isinstance(n, ast.Name)}
        if name in srcs:
            at = d.node
            depth += 1
            continue
        break
    return out


# ====================================================================== scale
def _scale_hook(nz, call: ast.Call):
    s = last_attr(call)
    if s == "roll" and len(call.args) >= 1:
        return nz.norm(call.args[0])
    if s == "finite_difference_coefficients":
        return Poly.atom("T")
    if s == "prod" and len(call.args) == 1:
        inner = call.args[0]
        while isinstance(inner, ast.Call) and last_attr(inner) in ("array", "asarray") and inner.args:
            inner = inner.args[0]
        if isinstance(inner, (ast.Tuple, ast.List)):
            return None
        k = nz.norm(inner).key()  # same atom spelling as Normalizer's Subscript rule
        return Poly.atom(f"{k}[0]") * Poly.atom(f"{k}[1]")  # a 2D grid: prod(sampling) = sampling[0]*sampling[1]
    if s in ("dtype",) and len(call.args) == 1:
        return nz.norm(call.args[0])
    return None


def _axis_scale(ctx, f: FuncInfo, df: DataFlow, anchor: int, kernels, coef_names) -> None:
    repo = ctx.repo
    gs = repo.method(FD, "LaplaceOperator", "_get_new_stencil")
    dfg = DataFlow(gs.node)
    calls = [c for c in walk_no_nested(gs.node) if isinstance(c, ast.Call) and call_name(c) == f.name]
    ctx.require(len(calls) == 1, f"{gs.qualname}: call of {f.name} not found")
    call = calls[0]
    b = bind_args(call, f)
    ctx.require("prefactor" in b and "prefactor" in f.params, f"{gs.qualname}: prefactor argument not found")
    at = None
    for n in dfg.cfg.nodes:
        if n.kind == "stmt" and n.ast is not None and any(m is call for m in ast.walk(n.ast)):
            at = n.idx
    ctx.require(at is not None, f"{gs.qualname}: call statement has no CFG node")
    # sampling variable: the 2-vector whose components [0] and [1] the (normalised) prefactor is built from — a
    # parameter of _get_new_stencil or an element unpacked from its cache-key parameter; temporaries are inlined
    import re as _re

    parg0 = b["prefactor"]
    if isinstance(parg0, ast.Name):
        d0 = dfg.single_def(at, parg0.id)
        if d0 is not None and d0.value is not None:
            parg0 = d0.value
    nz0 = FlowNormalizer(dfg, at, call_hook=_scale_hook)
    elts0 = parg0.elts if isinstance(parg0, (ast.Tuple, ast.List)) else [parg0]
    comps: dict[str, set] = {}
    for e0 in elts0:
        for a0 in nz0.norm(e0).atoms():
            m0 = _re.fullmatch(r"(?:1\*)?(\w+)\[(?:1\*)?([01])\]", a0)
            if m0:
                comps.setdefault(m0.group(1), set()).add(int(m0.group(2)))
    cands = [n_ for n_, cs in comps.items() if cs == {0, 1}]
    if not cands:  # scalar prefactor built from one name
        cands = sorted({a0 for e0 in elts0 for a0 in nz0.norm(e0).atoms() if _re.fullmatch(r"\w+", a0)})[:1]
    ctx.require(len(cands) == 1, f"{gs.qualname}: cannot identify the sampling vector the prefactor is built from "
                                 f"(`{norm_text(parg0)[:60]}`)")
    samp = cands[0]
    origin_ok = samp in gs.params or any(
        isinstance(st, ast.Assign) and isinstance(st.targets[0], ast.Tuple) and isinstance(st.value, ast.Name)
        and st.value.id in gs.params and any(isinstance(e, ast.Name) and e.id == samp for e in st.targets[0].elts)
        for st in walk_no_nested(gs.node))
    ctx.require(origin_ok, f"{gs.qualname}: `{samp}` is neither a parameter nor unpacked from the key parameter")
    nzg = FlowNormalizer(dfg, at, call_hook=_scale_hook)
    parg = b["prefactor"]
    if isinstance(parg, ast.Name):
        d = dfg.single_def(at, parg.id)
        if d is not None and isinstance(d.value, (ast.Tuple, ast.List)):
            parg = d.value
    if isinstance(parg, (ast.Tuple, ast.List)) and len(parg.elts) == 2:
        pre = [nzg.norm(e) for e in parg.elts]
        vector = True
    else:
        p = nzg.norm(parg)
        pre = [p, p]
        vector = False
    # coefficient vectors per axis inside the stencil builder, in terms of T (the table) and `prefactor`
    k, (by_axis, sym, loop, kv, coefs, half) = kernels[0]
    if not by_axis:
        raise AnalysisError(f"{f.qualname}: the kernel applies no coefficient")
    already = any(i.verdict == "violation" and i.rule == "R-SAMEVECTOR" for i in ctx.instances)
    for ax, axname, comp in ((-2, "x", 0), (-1, "y", 1)):
        cp = by_axis.get(ax)
        if cp is None:  # axis missing (already reported by R-SAMEVECTOR): the scale of the vector is still decidable
            cp = next(iter(by_axis.values()))
        vec = _vector_of(df, anchor, cp)  # numeric multiplicity and in-kernel factors count towards the scale
        if vec is None:
            if already:
                return  # the kernel shape is already reported as a violation; its scale is not meaningful
            raise AnalysisError(f"{f.qualname}: coefficient of axis {ax} is {cp.key()}, not a single lookup")
        scale = vec * Poly.atom("T").inverse()
        sub = {}
        for a in scale.atoms():
            if a == "prefactor":
                if vector:
                    raise AnalysisError(f"{f.qualname}: a per-axis prefactor pair is used as a scalar")
                sub[a] = pre[comp]
            elif a in ("1*prefactor[0]", "1*prefactor[1]", "prefactor[0]", "prefactor[1]"):
                if not vector:
                    raise AnalysisError(f"{f.qualname}: scalar prefactor is indexed per axis")
                sub[a] = pre[int(a[-2])]
            elif "T" == a or "prefactor" in a:
                raise AnalysisError(f"{f.qualname}: scale of axis {ax} is {scale.key()}: not a multiple of the table")
        scale = scale.subst(sub)
        want = Poly.atom(f"1*{samp}[{comp}]").power(Fraction(-2))
        cons = f"{gs.qualname}:axis {axname}"
        if not (scale.atoms() <= {f"1*{samp}[0]", f"1*{samp}[1]"}):
            raise AnalysisError(f"{cons}: scale {scale.key()} is not expressed in the grid sampling")
        ctx.check(scale == want, "R-AXIS-SCALE", cons, gs.loc(call),
                  f"second difference along {axname} scaled by {_pretty(scale)} = 1/{samp}[{comp}]^2",
                  f"the second difference along {axname} (array axis {ax}) is scaled by {_pretty(scale)}; the Laplacian "
                  f"needs {_pretty(want)} — the two agree only when {samp}[0] == {samp}[1], otherwise the {axname} term is "
                  f"off by the factor {_pretty(scale * want.inverse())}", key_detail=f"scale={_pretty(scale)}")


# ====================================================================== slow stencil array
def _slow_array(ctx) -> None:
    repo = ctx.repo
    mod = repo.module(FD)
    if "_laplace_stencil_array" not in mod.functions:
        return
    f = mod.functions["_laplace_stencil_array"]
    stores = []
    for st in walk_no_nested(f.node):
        tgt = None
        if isinstance(st, ast.Assign) and isinstance(st.targets[0], ast.Subscript):
            tgt = st.targets[0]
        elif isinstance(st, ast.AugAssign) and isinstance(st.target, ast.Subscript) and isinstance(st.op, ast.Add):
            tgt = st.target
        if tgt is not None and isinstance(tgt.slice, ast.Tuple) and len(tgt.slice.elts) == 2:
            full = [isinstance(e, ast.Slice) and e.lower is None and e.upper is None for e in tgt.slice.elts]
            if sum(full) == 1:
                stores.append((st, 0 if full[1] else 1, norm_text(tgt.slice.elts[0 if full[1] else 1]), norm_text(st.value)))
    if len(stores) != 2:
        return
    (s1, a1, i1, v1), (s2, a2, i2, v2) = stores
    ctx.check({a1, a2} == {0, 1} and i1 == i2 and v1 == v2, "R-SAMEVECTOR", f"{f.qualname}:row-and-column", f.where,
              f"centre row and centre column ({i1}) both receive {v1}",
              f"row store ({i1}, {v1}) and column store ({i2}, {v2}) of the 2D stencil disagree", key_detail="slow")


# ====================================================================== main
def run(ctx) -> None:
    ctx.rule("R-SYMMETRIC", "every literal table fd_coefficients[a] has a + 1 entries (odd) with c[i] == c[-1-i] and is "
             "selected by the requested accuracy: a symmetric stencil has a real eigenvalue on every discrete plane "
             "wave, necessary for the exponential series to preserve intensity in vacuum")
    ctx.rule("R-CENTER", "the coefficient vector is rolled by -(len//2) (centre coefficient at index 0) and the kernels "
             "index it with offsets -n..n, n = len//2")
    ctx.rule("R-SAMEVECTOR", "each stencil kernel (CPU and GPU) accumulates coefficient x sample with samples shifted "
             "along exactly the array axes -2 and -1, the same coefficient table on both, over a symmetric offset range")
    ctx.rule("R-AXIS-SCALE", "the second difference along grid axis a is scaled by 1/sampling[a]^2 (term normal form of "
             "the prefactor handed to the stencil builder by LaplaceOperator._get_new_stencil)")
    ctx.rule("R-MOMENTS", "informational: accuracy (moment) conditions of each table in exact rationals")
    ctx.assume("2D grids: prod(sampling) = sampling[0]*sampling[1]; len() of the coefficient vector is unchanged by "
               "scaling, casting and rolling")
    ctx.undecided("the eigenvalue identity itself, vacuum intensity under the truncated exponential series, lazy/eager "
                  "equality (single code path), convergence of the series")
    _tables(ctx)
    f, df, anchor, kernels, coef_names = _stencil(ctx)
    _slow_array(ctx)
    _axis_scale(ctx, f, df, anchor, kernels, coef_names)


# ---- added: package rule R-CACHEKEY (sa/rules/memo2.py) for the modules this property is anchored in
_inner_run = run


def run(ctx) -> None:  # noqa: F811
    from ..rules import memo2

    ctx.rule("R-CACHEKEY", memo2.__doc__.split("\n\n", 1)[1])
    memo2.positive_control(ctx)
    n = memo2.check(ctx, modules={"abtem.finite_difference"})
    ctx.ok("R-CACHEKEY", "scan", "abtem/", f"{n} cache stores found in the anchored modules; positive control matched")
    _inner_run(ctx)


# ---- added after the seeded change C37-r3seed0: the periodic halo is valid for any ratio of stencil width and grid
_inner_run_c37b = run


def run(ctx) -> None:  # noqa: F811
    ctx.rule("R-PERIODICHALO", "the boundary wrapper of the Laplace stencil extends the array periodically by the "
             "stencil's half width on the two grid axes before the kernel runs: either through the array module's "
             "pad(..., mode=<the wrapper's mode>) — which wraps as often as needed — or through index arithmetic "
             "with a modulo.  A halo that is filled by copying slices of the padded buffer ([H : H + p] etc.) is the "
             "periodic extension only while p <= H and p <= W; without a guard on that, grids narrower than the "
             "stencil (quasi-1d grids, high accuracy on few points) get zeros or misplaced samples in the halo and a "
             "plane wave is no longer an eigenfunction of the discrete Laplacian")
    repo = ctx.repo
    f = repo.function(FD, "_laplace_operator_stencil")
    wrappers = [n for n in ast.walk(f.node) if isinstance(n, ast.FunctionDef) and n is not f.node and any(
        isinstance(c, ast.Call) and isinstance(c.func, ast.Name) and c.func.id == "func" for c in ast.walk(n))
        and not any(isinstance(m, ast.FunctionDef) and m is not n for m in ast.walk(n))]
    ctx.require(len(wrappers) >= 1, f"{f.qualname}: boundary wrapper (the function that calls `func(...)`) not found")
    for w in wrappers:
        kcalls = [c for c in ast.walk(w) if isinstance(c, ast.Call) and isinstance(c.func, ast.Name) and c.func.id == "func"]
        pads = [c for c in ast.walk(w) if isinstance(c, ast.Call) and last_attr(c) == "pad"]
        stores = [st for st in ast.walk(w) if isinstance(st, ast.Assign) and isinstance(st.targets[0], ast.Subscript)
                  and isinstance(st.value, ast.Subscript) and dotted(st.targets[0].value) == dotted(st.value.value)
                  and dotted(st.value.value) is not None]
        modulo = any(isinstance(b, ast.BinOp) and isinstance(b.op, ast.Mod) for b in ast.walk(w)) or any(
            isinstance(c, ast.Call) and last_attr(c) in ("take", "roll") for c in ast.walk(w))
        guard = any(isinstance(c, ast.Compare) and "padding" in norm_text(c) and "shape" in norm_text(c)
                    for c in ast.walk(w)) or any(
            isinstance(c, ast.Compare) and {x.id for x in ast.walk(c) if isinstance(x, ast.Name)} >= {"p", "H"}
            for c in ast.walk(w))
        cons = f"{f.qualname}.{w.name}:periodic halo"
        if pads:
            fwd = any(any(k.arg == "mode" and isinstance(k.value, ast.Name) for k in c.keywords) for c in pads)
            ctx.check(fwd, "R-PERIODICHALO", cons, f.loc(pads[0]), "halo from pad(..., mode=mode)",
                      f"`{norm_text(pads[0])[:60]}` does not forward the wrapper's boundary mode", key_detail="halo")
        elif stores:
            ctx.check(modulo or guard, "R-PERIODICHALO", cons, f.loc(stores[0]),
                      "manual halo with modulo indexing / guarded against halos wider than the grid",
                      f"the halo is filled by copying slices of the padded buffer (`{norm_text(stores[0])[:60]}` ...) "
                      "without a modulo and without a guard p <= grid size: for a grid narrower than the stencil's "
                      "half width the copied slices are short or still zero, so the extension is not periodic",
                      key_detail="halo")
        else:
            raise AnalysisError(f"{cons}: cannot see how the array is extended before `{norm_text(kcalls[0])[:40]}`")
    _inner_run_c37b(ctx)
