"""C37 — real-space multislice is a faithful discretization (abtem/finite_difference.py).

Decides the stencil clauses: symmetry and size of every literal coefficient table, centring of the rolled
coefficient vector, the same coefficient table applied along both grid axes with a symmetric offset range, and
the per-axis scale 1/sampling[a]^2.  The classical accuracy (moment) conditions are computed and reported only.
"""
from __future__ import annotations

import ast
from fractions import Fraction

from ..cfg import DataFlow
from ..model import AnalysisError, FuncInfo, bind_args, call_name, dotted, kw, last_attr, module_constants, \
    norm_text, walk_no_nested
from ..terms import FlowNormalizer, Normalizer, Poly

FD = "abtem.finite_difference"


def _bare(k: str) -> str:
    return k[2:] if k.startswith("1*") else k


# ====================================================================== tables
def _tables(ctx):
    mod = ctx.repo.module(FD)
    consts = module_constants(mod)
    ctx.require("fd_coefficients" in consts and isinstance(consts["fd_coefficients"], dict),
                f"{FD}.fd_coefficients is no longer a foldable literal table")
    tabs = consts["fd_coefficients"]
    ctx.require(len(tabs) >= 3, "fewer than three coefficient tables")
    for acc in sorted(tabs):
        c = list(tabs[acc])
        cons = f"{FD}.fd_coefficients[{acc}]"
        n = len(c)
        asym = [i for i in range(n // 2) if c[i] != c[n - 1 - i]]
        why = f"table has an even number of entries ({n}): no centre coefficient" if n % 2 == 0 else (
            f"c[{asym[0]}] = {c[asym[0]]!r} differs from c[{n - 1 - asym[0]}] = {c[n - 1 - asym[0]]!r}" if asym else "")
        ctx.check(not asym and n % 2 == 1, "R-SYMMETRIC", f"{cons}:symmetry", mod.relpath,
                  f"{n} coefficients, c[i] == c[-1-i] for all i",
                  why + " — an asymmetric stencil has a complex eigenvalue on plane waves, so vacuum propagation by the "
                  "exponential series does not preserve intensity", key_detail="symmetry")
        ctx.check(isinstance(acc, int) and n == acc + 1, "R-SYMMETRIC", f"{cons}:size", mod.relpath,
                  f"accuracy {acc} uses {n} = accuracy + 1 points",
                  f"the table filed under accuracy {acc} has {n} points; a centred second-derivative stencil of that "
                  f"accuracy has {acc + 1} (the table of another accuracy was stored under this key)", key_detail="size")
        # ---- accuracy conditions: informational
        try:
            fr = [Fraction(x).limit_denominator(10 ** 9) for x in c]
            h = n // 2
            ks = list(range(-h, h + 1))
            m0 = sum(fr)
            m2 = sum(f * k ** 2 for f, k in zip(fr, ks))
            hi = [p for p in range(4, acc + 1, 2) if sum(f * k ** p for f, k in zip(fr, ks)) != 0]
            exact = m0 == 0 and m2 == 2 and not hi
            resid = abs(sum(x for x in c)), abs(sum(x * k ** 2 for x, k in zip(c, ks)) - 2)
            ctx.info("R-MOMENTS", f"{cons}", mod.relpath,
                     ("moment conditions hold exactly in rationals (sum c = 0, sum c k^2 = 2, even moments 4.."
                      f"{acc} = 0)") if exact else
                     f"moment conditions not exact after rational reconstruction: sum c = {float(m0):.3g}, "
                     f"sum c k^2 - 2 = {float(m2 - 2):.3g}, failing even moments {hi}; float residuals {resid[0]:.2e}, "
                     f"{resid[1]:.2e} (informational: the property's eigenvalue is defined by the stencil)")
        except Exception as e:  # pragma: no cover - informational only
            ctx.info("R-MOMENTS", cons, mod.relpath, f"moments not computed: {e}")
    # the lookup uses the requested accuracy as the key
    fdc = ctx.repo.function(FD, "finite_difference_coefficients")
    subs = [s for s in walk_no_nested(fdc.node) if isinstance(s, ast.Subscript) and dotted(s.value) == "fd_coefficients"]
    ctx.require(len(subs) >= 1, f"{fdc.qualname}: table lookup not found")
    acc_param = "accuracy"
    ctx.require(acc_param in fdc.params, f"{fdc.qualname}: parameter `accuracy` not found")
    for s in subs:
        ctx.check(dotted(s.slice) == acc_param, "R-SYMMETRIC", f"{fdc.qualname}:lookup", fdc.loc(s),
                  "table is selected by the requested accuracy",
                  f"table lookup `{norm_text(s)}` is not keyed by `{acc_param}`", key_detail="lookup")
    dpar = fdc.positional_params[0]
    tab_guard = any(isinstance(n, ast.Compare) and dpar in {m.id for m in ast.walk(n) if isinstance(m, ast.Name)} and
                    any(isinstance(o, (ast.Eq, ast.NotEq)) for o in n.ops) for n in ast.walk(fdc.node))
    if not tab_guard:
        ctx.info("R-SYMMETRIC", f"{fdc.qualname}:derivative", fdc.where,
                 f"the literal tables are second-derivative stencils but are returned for any `{dpar}` (only "
                 f"{dpar}=2 is requested inside the package)")
    return tabs


# ====================================================================== kernels
class _KernelNorm(Normalizer):
    """Normalises the accumulated expression of a stencil kernel: samples `a[..]` become atoms S<n>, coefficient
    lookups `name[k]` become atoms `name@k`."""

    def __init__(self, arr: str, loopvar: str):
        super().__init__()
        self.arr = arr
        self.loopvar = loopvar
        self.samples: dict[str, list[Poly]] = {}
        self.coefs: set[str] = set()

    def norm(self, n):
        if isinstance(n, ast.Subscript) and isinstance(n.value, ast.Name):
            if n.value.id == self.arr:
                idx = n.slice.elts if isinstance(n.slice, ast.Tuple) else [n.slice]
                polys = [Normalizer().norm(e) for e in idx]
                name = f"S{len(self.samples)}"
                self.samples[name] = polys
                return Poly.atom(name)
            if isinstance(n.slice, ast.Name) and n.slice.id == self.loopvar:
                self.coefs.add(n.value.id)
                return Poly.atom(f"{n.value.id}@{self.loopvar}")
        if isinstance(n, ast.Call) and len(n.args) == 1 and dotted(n.func) in ("dtype", "float", "complex", "np.complex64",
                                                                               "np.complex128"):
            return self.norm(n.args[0])
        return super().norm(n)


def _nested_functions(f: ast.FunctionDef):
    for n in ast.walk(f):
        if isinstance(n, ast.FunctionDef) and n is not f:
            yield n


def _kernel_terms(ctx, outer: FuncInfo, k: ast.FunctionDef):
    """-> {axis_from_end: coefficient Poly}, loop range ok?, loop node  for one stencil kernel, or None."""
    if not k.args.args:
        return None
    arr = k.args.args[0].arg
    best = None
    for loop in ast.walk(k):
        if not (isinstance(loop, ast.For) and isinstance(loop.target, ast.Name) and isinstance(loop.iter, ast.Call)
                and call_name(loop.iter) in ("range", "prange") and len(loop.iter.args) == 2):
            continue
        accs = [st for st in loop.body if isinstance(st, ast.AugAssign) and isinstance(st.op, ast.Add) and
                isinstance(st.target, ast.Name)]
        uses = [s for st in accs for s in ast.walk(st.value) if isinstance(s, ast.Subscript) and
                isinstance(s.value, ast.Name) and s.value.id == arr]
        if accs and uses:
            best = (loop, accs)
    if best is None:
        return None
    loop, accs = best
    kv = loop.target.id
    nz = _KernelNorm(arr, kv)
    total = Poly()
    for st in accs:
        total = total + nz.norm(st.value)
    by_axis: dict[int, Poly] = {}
    for mono, coef in total.terms.items():
        ss = [a for a, e in mono if a in nz.samples]
        if len(ss) != 1 or dict(mono)[ss[0]] != 1:
            raise AnalysisError(f"{outer.qualname}.{k.name}: accumulated term {Poly({mono: coef}).key()} is not "
                                "coefficient x sample")
        idx = nz.samples[ss[0]]
        shifted = []
        for pos, p in enumerate(idx):
            has = [m for m in p.terms if any(a == kv for a, _ in m)]
            if has:
                if p.terms.get(((kv, Fraction(1)),)) != 1 or len(has) != 1 or len(p.terms) != 2:
                    raise AnalysisError(f"{outer.qualname}.{k.name}: sample index {p.key()} is not <pixel> + {kv}")
                shifted.append(pos - len(idx))
        if len(shifted) != 1:
            raise AnalysisError(f"{outer.qualname}.{k.name}: a sample is shifted along {len(shifted)} axes")
        cpoly = Poly({mono: coef}) * Poly.atom(ss[0]).inverse()
        by_axis[shifted[0]] = by_axis.get(shifted[0], Poly()) + cpoly
    lo, hi = (Normalizer().norm(a) for a in loop.iter.args)
    sym = (lo + hi) == Poly.const(1)
    half = _bare((hi - Poly.const(1)).key())
    if not half.isidentifier():
        half = _bare((-lo).key())
    return by_axis, sym, loop, kv, nz.coefs, half


def _stencil(ctx):
    repo = ctx.repo
    f = repo.function(FD, "_laplace_operator_stencil")
    df = DataFlow(f.node)
    kernels = []
    for k in _nested_functions(f.node):
        r = _kernel_terms(ctx, f, k)
        if r is not None:
            kernels.append((k, r))
    ctx.require(len(kernels) >= 1, f"{f.qualname}: no stencil kernel (loop accumulating coefficient x sample) found")
    coef_names: set[str] = set()
    half_names: set[str] = set()
    for k, (by_axis, sym, loop, kv, coefs, half) in kernels:
        cons = f"{f.qualname}.{k.name}"
        axes = sorted(by_axis)
        ctx.check(axes == [-2, -1], "R-SAMEVECTOR", f"{cons}:axes", f.loc(loop),
                  "samples are shifted along array axes -2 and -1",
                  f"the kernel shifts samples along axes {axes}; a 2D Laplacian needs exactly the two grid axes -2 and -1",
                  key_detail="axes")
        if axes == [-2, -1]:
            cx, cy = by_axis[-2], by_axis[-1]
            same_tab = cx == cy or _same_table(f, df, k, cx, cy)
            ctx.check(same_tab, "R-SAMEVECTOR", f"{cons}:coefficients", f.loc(loop),
                      f"axis -2 uses {cx.key()}, axis -1 uses {cy.key()}" + ("" if cx == cy else
                                                                             " (same table, per-axis scale)"),
                      f"the second difference along axis -2 is weighted by {cx.key()} but along axis -1 by {cy.key()}: "
                      "the two directions use different stencils", key_detail="coefficients")
        ctx.check(sym, "R-SAMEVECTOR", f"{cons}:offset-range", f.loc(loop),
                  f"offsets run over range(-{half}, {half} + 1)",
                  f"offset loop `{norm_text(loop.iter)}` is not symmetric about 0: one side of the stencil is dropped",
                  key_detail="range")
        coef_names |= coefs
        half_names.add(half)
    # ---- R-CENTER: the rolled vector has the centre coefficient at index 0 and n = len // 2
    ctx.require(len(half_names) == 1, f"{f.qualname}: kernels use different half-widths {sorted(half_names)}")
    half = next(iter(half_names))
    anchor = None
    for k, _ in kernels:
        anchor = _anchor_of(df, k)
        if anchor is not None:
            break
    ctx.require(anchor is not None, f"{f.qualname}: kernel definition has no CFG node")
    nzh = FlowNormalizer(df, anchor)
    nzh.no_inline.update(coef_names)
    hp = nzh.norm(ast.Name(id=half, ctx=ast.Load())) if half.isidentifier() else None
    ctx.require(hp is not None, f"{f.qualname}: half-width `{half}` is not a plain variable")
    rolls = []
    for cname in sorted(coef_names):
        chain = _def_chain(df, anchor, cname)
        for call, node in chain:
            if last_attr(call) == "roll" and len(call.args) >= 2:
                nzr = FlowNormalizer(df, node)
                nzr.no_inline.update(coef_names)
                rolls.append((cname, call, nzr.norm(call.args[1]), node))
    ctx.require(len(rolls) >= 1, f"{f.qualname}: np.roll of the coefficient vector not found")
    for cname, call, shift, node in rolls:
        hp_c = _rename_len(hp, coef_names)
        sh_c = _rename_len(shift, coef_names)
        good = sh_c == -hp_c or sh_c == hp_c + Poly.const(1)
        ctx.check(good, "R-CENTER", f"{f.qualname}:roll {cname}", f.loc(call),
                  f"vector rolled by {shift.key()} with half-width {hp.key()}: the centre coefficient sits at index 0",
                  f"the coefficient vector is rolled by {shift.key()} while the kernels index it with offsets "
                  f"-{half}..{half}, {half} = {hp.key()}: index 0 is not the centre coefficient, the stencil is shifted",
                  key_detail="roll")
    return f, df, anchor, kernels, coef_names


def _pretty(p: Poly) -> str:
    parts = []
    for mono in sorted(p.terms, key=lambda m: [(a, float(e)) for a, e in m]):
        c = p.terms[mono]
        fs = [(_bare(a) if e == 1 else f"{_bare(a)}^{e}") for a, e in mono]
        if c != 1 or not fs:
            fs.insert(0, str(c))
        parts.append("*".join(fs))
    return " + ".join(parts) if parts else "0"


def _anchor_of(df: DataFlow, k: ast.FunctionDef):
    for n in df.cfg.nodes:
        if n.kind == "stmt" and n.ast is k:
            return n.idx
    return None


def _lookup_name(cp: Poly):
    """`name` when the coefficient polynomial is exactly one lookup name[k]."""
    if len(cp.terms) != 1:
        return None
    (mono, cc), = cp.terms.items()
    if cc != 1 or len(mono) != 1 or "@" not in mono[0][0] or mono[0][1] != 1:
        return None
    return mono[0][0].split("@")[0]


def _split_lookup(cp: Poly):
    """coefficient monomial -> (lookup name, extra scale polynomial): exactly one lookup atom name@k with exponent 1,
    any other factors (numbers, prefactor components applied inside the kernel) form the extra scale."""
    if len(cp.terms) != 1:
        return None
    (mono, cc), = cp.terms.items()
    looks = [(a, e) for a, e in mono if "@" in a]
    if len(looks) != 1 or looks[0][1] != 1:
        return None
    rest = tuple((a, e) for a, e in mono if "@" not in a)
    return looks[0][0].split("@")[0], Poly({rest: cc})


def _vector_of(df: DataFlow, anchor: int, cp: Poly):
    """The coefficient vector (table x scale) an axis is weighted with, in terms of T and prefactor components."""
    sp = _split_lookup(cp)
    if sp is None:
        return None
    name, extra = sp
    nzo = FlowNormalizer(df, anchor, call_hook=_scale_hook)
    return nzo.norm(ast.Name(id=name, ctx=ast.Load())) * extra


def _same_table(f: FuncInfo, df: DataFlow, k: ast.FunctionDef, cx: Poly, cy: Poly) -> bool:
    """Different lookups are acceptable when both vectors are the same table times a per-axis scale (the scale may be
    applied when the vector is built or inside the kernel)."""
    anchor = _anchor_of(df, k)
    if anchor is None:
        return False
    vecs = []
    for cp in (cx, cy):
        v = _vector_of(df, anchor, cp)
        if v is None:
            return False
        vecs.append(v.subst({"1*prefactor[0]": Poly.atom("P"), "1*prefactor[1]": Poly.atom("P"),
                             "prefactor[0]": Poly.atom("P"), "prefactor[1]": Poly.atom("P")}))
    return vecs[0] == vecs[1] and "T" in vecs[0].atoms()


def _rename_len(p: Poly, names: set[str]) -> Poly:
    """len() of any of the (shape-preserving) stages of the coefficient vector is the same number."""
    import re

    out = Poly()
    for mono, c in p.terms.items():
        m2 = []
        for a, e in mono:
            a2 = re.sub(r"len\(1\*(%s)\)" % "|".join(sorted(map(re.escape, names | {"coefficients", "coefs"}))), "len(C)", a)
            m2.append((a2, e))
        out = out + Poly({tuple(sorted(m2)): c})
    return out


def _def_chain(df: DataFlow, at: int, name: str, depth: int = 0):
    """Calls on the right-hand sides of the chain of single definitions of `name` reaching `at`."""
    out = []
    seen = set()
    while depth < 12:
        d = df.single_def(at, name)
        if d is None or d.value is None or d.node in seen:
            break
        seen.add(d.node)
        for c in ast.walk(d.value):
            if isinstance(c, ast.Call):
                out.append((c, d.node))
        srcs = {n.id for n in ast.walk(d.value) if isinstance(n, ast.Name)}
        if name in srcs:
            at = d.node
            depth += 1
            continue
        break
    return out


# ====================================================================== scale
def _scale_hook(nz, call: ast.Call):
    s = last_attr(call)
    if s == "roll" and len(call.args) >= 1:
        return nz.norm(call.args[0])
    if s == "finite_difference_coefficients":
        return Poly.atom("T")
    if s == "prod" and len(call.args) == 1:
        inner = call.args[0]
        while isinstance(inner, ast.Call) and last_attr(inner) in ("array", "asarray") and inner.args:
            inner = inner.args[0]
        if isinstance(inner, (ast.Tuple, ast.List)):
            return None
        k = nz.norm(inner).key()  # same atom spelling as Normalizer's Subscript rule
        return Poly.atom(f"{k}[0]") * Poly.atom(f"{k}[1]")  # a 2D grid: prod(sampling) = sampling[0]*sampling[1]
    if s in ("dtype",) and len(call.args) == 1:
        return nz.norm(call.args[0])
    return None


def _axis_scale(ctx, f: FuncInfo, df: DataFlow, anchor: int, kernels, coef_names) -> None:
    repo = ctx.repo
    gs = repo.method(FD, "LaplaceOperator", "_get_new_stencil")
    dfg = DataFlow(gs.node)
    calls = [c for c in walk_no_nested(gs.node) if isinstance(c, ast.Call) and call_name(c) == f.name]
    ctx.require(len(calls) == 1, f"{gs.qualname}: call of {f.name} not found")
    call = calls[0]
    b = bind_args(call, f)
    ctx.require("prefactor" in b and "prefactor" in f.params, f"{gs.qualname}: prefactor argument not found")
    at = None
    for n in dfg.cfg.nodes:
        if n.kind == "stmt" and n.ast is not None and any(m is call for m in ast.walk(n.ast)):
            at = n.idx
    ctx.require(at is not None, f"{gs.qualname}: call statement has no CFG node")
    # sampling variable: the 2-vector whose components [0] and [1] the (normalised) prefactor is built from — a
    # parameter of _get_new_stencil or an element unpacked from its cache-key parameter; temporaries are inlined
    import re as _re

    parg0 = b["prefactor"]
    if isinstance(parg0, ast.Name):
        d0 = dfg.single_def(at, parg0.id)
        if d0 is not None and d0.value is not None:
            parg0 = d0.value
    nz0 = FlowNormalizer(dfg, at, call_hook=_scale_hook)
    elts0 = parg0.elts if isinstance(parg0, (ast.Tuple, ast.List)) else [parg0]
    comps: dict[str, set] = {}
    for e0 in elts0:
        for a0 in nz0.norm(e0).atoms():
            m0 = _re.fullmatch(r"(?:1\*)?(\w+)\[(?:1\*)?([01])\]", a0)
            if m0:
                comps.setdefault(m0.group(1), set()).add(int(m0.group(2)))
    cands = [n_ for n_, cs in comps.items() if cs == {0, 1}]
    if not cands:  # scalar prefactor built from one name
        cands = sorted({a0 for e0 in elts0 for a0 in nz0.norm(e0).atoms() if _re.fullmatch(r"\w+", a0)})[:1]
    ctx.require(len(cands) == 1, f"{gs.qualname}: cannot identify the sampling vector the prefactor is built from "
                                 f"(`{norm_text(parg0)[:60]}`)")
    samp = cands[0]
    origin_ok = samp in gs.params or any(
        isinstance(st, ast.Assign) and isinstance(st.targets[0], ast.Tuple) and isinstance(st.value, ast.Name)
        and st.value.id in gs.params and any(isinstance(e, ast.Name) and e.id == samp for e in st.targets[0].elts)
        for st in walk_no_nested(gs.node))
    ctx.require(origin_ok, f"{gs.qualname}: `{samp}` is neither a parameter nor unpacked from the key parameter")
    nzg = FlowNormalizer(dfg, at, call_hook=_scale_hook)
    parg = b["prefactor"]
    if isinstance(parg, ast.Name):
        d = dfg.single_def(at, parg.id)
        if d is not None and isinstance(d.value, (ast.Tuple, ast.List)):
            parg = d.value
    if isinstance(parg, (ast.Tuple, ast.List)) and len(parg.elts) == 2:
        pre = [nzg.norm(e) for e in parg.elts]
        vector = True
    else:
        p = nzg.norm(parg)
        pre = [p, p]
        vector = False
    # coefficient vectors per axis inside the stencil builder, in terms of T (the table) and `prefactor`
    k, (by_axis, sym, loop, kv, coefs, half) = kernels[0]
    if not by_axis:
        raise AnalysisError(f"{f.qualname}: the kernel applies no coefficient")
    already = any(i.verdict == "violation" and i.rule == "R-SAMEVECTOR" for i in ctx.instances)
    for ax, axname, comp in ((-2, "x", 0), (-1, "y", 1)):
        cp = by_axis.get(ax)
        if cp is None:  # axis missing (already reported by R-SAMEVECTOR): the scale of the vector is still decidable
            cp = next(iter(by_axis.values()))
        vec = _vector_of(df, anchor, cp)  # numeric multiplicity and in-kernel factors count towards the scale
        if vec is None:
            if already:
                return  # the kernel shape is already reported as a violation; its scale is not meaningful
            raise AnalysisError(f"{f.qualname}: coefficient of axis {ax} is {cp.key()}, not a single lookup")
        scale = vec * Poly.atom("T").inverse()
        sub = {}
        for a in scale.atoms():
            if a == "prefactor":
                if vector:
                    raise AnalysisError(f"{f.qualname}: a per-axis prefactor pair is used as a scalar")
                sub[a] = pre[comp]
            elif a in ("1*prefactor[0]", "1*prefactor[1]", "prefactor[0]", "prefactor[1]"):
                if not vector:
                    raise AnalysisError(f"{f.qualname}: scalar prefactor is indexed per axis")
                sub[a] = pre[int(a[-2])]
            elif "T" == a or "prefactor" in a:
                raise AnalysisError(f"{f.qualname}: scale of axis {ax} is {scale.key()}: not a multiple of the table")
        scale = scale.subst(sub)
        want = Poly.atom(f"1*{samp}[{comp}]").power(Fraction(-2))
        cons = f"{gs.qualname}:axis {axname}"
        if not (scale.atoms() <= {f"1*{samp}[0]", f"1*{samp}[1]"}):
            raise AnalysisError(f"{cons}: scale {scale.key()} is not expressed in the grid sampling")
        ctx.check(scale == want, "R-AXIS-SCALE", cons, gs.loc(call),
                  f"second difference along {axname} scaled by {_pretty(scale)} = 1/{samp}[{comp}]^2",
                  f"the second difference along {axname} (array axis {ax}) is scaled by {_pretty(scale)}; the Laplacian "
                  f"needs {_pretty(want)} — the two agree only when {samp}[0] == {samp}[1], otherwise the {axname} term is "
                  f"off by the factor {_pretty(scale * want.inverse())}", key_detail=f"scale={_pretty(scale)}")


# ====================================================================== slow stencil array
def _slow_array(ctx) -> None:
    repo = ctx.repo
    mod = repo.module(FD)
    if "_laplace_stencil_array" not in mod.functions:
        return
    f = mod.functions["_laplace_stencil_array"]
    stores = []
    for st in walk_no_nested(f.node):
        tgt = None
        if isinstance(st, ast.Assign) and isinstance(st.targets[0], ast.Subscript):
            tgt = st.targets[0]
        elif isinstance(st, ast.AugAssign) and isinstance(st.target, ast.Subscript) and isinstance(st.op, ast.Add):
            tgt = st.target
        if tgt is not None and isinstance(tgt.slice, ast.Tuple) and len(tgt.slice.elts) == 2:
            full = [isinstance(e, ast.Slice) and e.lower is None and e.upper is None for e in tgt.slice.elts]
            if sum(full) == 1:
                stores.append((st, 0 if full[1] else 1, norm_text(tgt.slice.elts[0 if full[1] else 1]), norm_text(st.value)))
    if len(stores) != 2:
        return
    (s1, a1, i1, v1), (s2, a2, i2, v2) = stores
    ctx.check({a1, a2} == {0, 1} and i1 == i2 and v1 == v2, "R-SAMEVECTOR", f"{f.qualname}:row-and-column", f.where,
              f"centre row and centre column ({i1}) both receive {v1}",
              f"row store ({i1}, {v1}) and column store ({i2}, {v2}) of the 2D stencil disagree", key_detail="slow")


# ====================================================================== main
def run(ctx) -> None:
    ctx.rule("R-SYMMETRIC", "every literal table fd_coefficients[a] has a + 1 entries (odd) with c[i] == c[-1-i] and is "
             "selected by the requested accuracy: a symmetric stencil has a real eigenvalue on every discrete plane "
             "wave, necessary for the exponential series to preserve intensity in vacuum")
    ctx.rule("R-CENTER", "the coefficient vector is rolled by -(len//2) (centre coefficient at index 0) and the kernels "
             "index it with offsets -n..n, n = len//2")
    ctx.rule("R-SAMEVECTOR", "each stencil kernel (CPU and GPU) accumulates coefficient x sample with samples shifted "
             "along exactly the array axes -2 and -1, the same coefficient table on both, over a symmetric offset range")
    ctx.rule("R-AXIS-SCALE", "the second difference along grid axis a is scaled by 1/sampling[a]^2 (term normal form of "
             "the prefactor handed to the stencil builder by LaplaceOperator._get_new_stencil)")
    ctx.rule("R-MOMENTS", "informational: accuracy (moment) conditions of each table in exact rationals")
    ctx.assume("2D grids: prod(sampling) = sampling[0]*sampling[1]; len() of the coefficient vector is unchanged by "
               "scaling, casting and rolling")
    ctx.undecided("the eigenvalue identity itself, vacuum intensity under the truncated exponential series, lazy/eager "
                  "equality (single code path), convergence of the series")
    _tables(ctx)
    f, df, anchor, kernels, coef_names = _stencil(ctx)
    _slow_array(ctx)
    _axis_scale(ctx, f, df, anchor, kernels, coef_names)


# ---- added: package rule R-CACHEKEY (sa/rules/memo2.py) for the modules this property is anchored in
_inner_run = run


def run(ctx) -> None:  # noqa: F811
    from ..rules import memo2

    ctx.rule("R-CACHEKEY", memo2.__doc__.split("\n\n", 1)[1])
    memo2.positive_control(ctx)
    n = memo2.check(ctx, modules={"abtem.finite_difference"})
    ctx.ok("R-CACHEKEY", "scan", "abtem/", f"{n} cache stores found in the anchored modules; positive control matched")
    _inner_run(ctx)


# ---- added after the seeded change C37-r3seed0: the periodic halo is valid for any ratio of stencil width and grid
_inner_run_c37b = run


def run(ctx) -> None:  # noqa: F811
    ctx.rule("R-PERIODICHALO", "the boundary wrapper of the Laplace stencil extends the array periodically by the "
             "stencil's half width on the two grid axes before the kernel runs: either through the array module's "
             "pad(..., mode=<the wrapper's mode>) — which wraps as often as needed — or through index arithmetic "
             "with a modulo.  A halo that is filled by copying slices of the padded buffer ([H : H + p] etc.) is the "
             "periodic extension only while p <= H and p <= W; without a guard on that, grids narrower than the "
             "stencil (quasi-1d grids, high accuracy on few points) get zeros or misplaced samples in the halo and a "
             "plane wave is no longer an eigenfunction of the discrete Laplacian")
    repo = ctx.repo
    f = repo.function(FD, "_laplace_operator_stencil")
    wrappers = [n for n in ast.walk(f.node) if isinstance(n, ast.FunctionDef) and n is not f.node and any(
        isinstance(c, ast.Call) and isinstance(c.func, ast.Name) and c.func.id == "func" for c in ast.walk(n))
        and not any(isinstance(m, ast.FunctionDef) and m is not n for m in ast.walk(n))]
    ctx.require(len(wrappers) >= 1, f"{f.qualname}: boundary wrapper (the function that calls `func(...)`) not found")
    for w in wrappers:
        kcalls = [c for c in ast.walk(w) if isinstance(c, ast.Call) and isinstance(c.func, ast.Name) and c.func.id == "func"]
        pads = [c for c in ast.walk(w) if isinstance(c, ast.Call) and last_attr(c) == "pad"]
        stores = [st for st in ast.walk(w) if isinstance(st, ast.Assign) and isinstance(st.targets[0], ast.Subscript)
                  and isinstance(st.value, ast.Subscript) and dotted(st.targets[0].value) == dotted(st.value.value)
                  and dotted(st.value.value) is not None]
        modulo = any(isinstance(b, ast.BinOp) and isinstance(b.op, ast.Mod) for b in ast.walk(w)) or any(
            isinstance(c, ast.Call) and last_attr(c) in ("take", "roll") for c in ast.walk(w))
        guard = any(isinstance(c, ast.Compare) and "padding" in norm_text(c) and "shape" in norm_text(c)
                    for c in ast.walk(w)) or any(
            isinstance(c, ast.Compare) and {x.id for x in ast.walk(c) if isinstance(x, ast.Name)} >= {"p", "H"}
            for c in ast.walk(w))
        cons = f"{f.qualname}.{w.name}:periodic halo"
        if pads:
            fwd = any(any(k.arg == "mode" and isinstance(k.value, ast.Name) for k in c.keywords) for c in pads)
            ctx.check(fwd, "R-PERIODICHALO", cons, f.loc(pads[0]), "halo from pad(..., mode=mode)",
                      f"`{norm_text(pads[0])[:60]}` does not forward the wrapper's boundary mode", key_detail="halo")
        elif stores:
            ctx.check(modulo or guard, "R-PERIODICHALO", cons, f.loc(stores[0]),
                      "manual halo with modulo indexing / guarded against halos wider than the grid",
                      f"the halo is filled by copying slices of the padded buffer (`{norm_text(stores[0])[:60]}` ...) "
                      "without a modulo and without a guard p <= grid size: for a grid narrower than the stencil's "
                      "half width the copied slices are short or still zero, so the extension is not periodic",
                      key_detail="halo")
        else:
            raise AnalysisError(f"{cons}: cannot see how the array is extended before `{norm_text(kcalls[0])[:40]}`")
    _inner_run_c37b(ctx)


# =====================================================================================================================
# ---- added after the mutation sweep: the kernels stay inside the padded array and cover the cropped region
# (R-INTERIOR), every compiled kernel accumulates into a buffer of its own (R-KERNELOUT), the device wrapper launches
# the kernel on (input, returned buffer) with a covering grid (R-LAUNCH), the stencil handed to LaplaceOperator is the
# periodic one (R-WRAPPED), the exponential series is sum_k Op^k/k! (R-EXPSERIES, R-RELATIVE, R-OPERATOR-ROLE)
def _own_nested(f: ast.FunctionDef):
    """nested function definitions at any depth, with the chain of enclosing definitions (outermost first)."""
    out = []

    def rec(node, chain):
        for ch in ast.iter_child_nodes(node):
            if isinstance(ch, ast.FunctionDef):
                out.append((ch, chain))
                rec(ch, chain + [ch])
            elif not isinstance(ch, (ast.ClassDef, ast.Lambda)):
                rec(ch, chain)

    rec(f, [])
    return out


def _sign(p: Poly, positive: set[str]):
    """'nonneg' / 'neg' / None for a polynomial whose atoms in `positive` are integers >= 1."""
    if not p.terms:
        return "nonneg"
    for mono in p.terms:
        for a, e in mono:
            if _bare(a) not in positive and a not in positive:
                return None
    cs = list(p.terms.values())
    if all(c >= 0 for c in cs):
        return "nonneg"
    if all(c <= 0 for c in cs):
        return "neg"
    # mixed signs: decide linear forms c0 + c1*x with x >= 1 when the sum of the coefficients decides it
    if all(len(m) <= 1 and all(e == 1 for _, e in m) for m in p.terms):
        const = p.terms.get((), Fraction(0))
        rest = [c for m, c in p.terms.items() if m != ()]
        if all(c >= 0 for c in rest) and const + sum(rest) >= 0:
            return "nonneg"  # minimum at x = 1
        if all(c <= 0 for c in rest) and const + sum(rest) < 0:
            return "neg"  # maximum at x = 1
    return None


def _range_of(loop: ast.For):
    a = loop.iter.args
    if len(a) == 1:
        return Poly.const(0), Normalizer().norm(a[0])
    if len(a) == 2:
        return Normalizer().norm(a[0]), Normalizer().norm(a[1])
    return None


def _guard_bounds(test: ast.expr, var: str):
    """(lo, hi) polynomials (hi exclusive) the guard imposes on `var`; missing sides are None."""
    lo = hi = None
    parts = test.values if isinstance(test, ast.BoolOp) and isinstance(test.op, ast.And) else [test]
    for c in parts:
        if not isinstance(c, ast.Compare):
            continue
        seq = [c.left] + list(c.comparators)
        for (l, op, r) in zip(seq, c.ops, seq[1:]):
            lv = isinstance(l, ast.Name) and l.id == var
            rv = isinstance(r, ast.Name) and r.id == var
            if lv == rv:
                continue
            other = Normalizer().norm(r if lv else l)
            if isinstance(op, (ast.Lt, ast.LtE)):
                strict = isinstance(op, ast.Lt)
                if lv:  # var < other
                    hi = other if strict else other + Poly.const(1)
                else:  # other < var
                    lo = other + Poly.const(1) if strict else other
            elif isinstance(op, (ast.Gt, ast.GtE)):
                strict = isinstance(op, ast.Gt)
                if lv:  # var > other
                    lo = other + Poly.const(1) if strict else other
                else:  # other > var
                    hi = other if strict else other + Poly.const(1)
    return lo, hi


def _parents(root: ast.AST) -> dict:
    par = {}
    for n in ast.walk(root):
        for ch in ast.iter_child_nodes(n):
            par[ch] = n
    return par


def _in_body(par: dict, node: ast.AST, holder: ast.AST, field: str) -> bool:
    """is `node` inside holder.<field> (a statement list)?"""
    cur = node
    while cur in par and par[cur] is not holder:
        cur = par[cur]
    return cur in par and any(cur is s for s in getattr(holder, field, []))


def _kernel_geometry(outer: FuncInfo, k: ast.FunctionDef, loop: ast.For, kv: str):
    """index ranges of one stencil kernel: per array position the pixel variable, its range [lo, hi), the dimension
    name, and whether the stencil offset is added there."""
    qual = f"{outer.qualname}.{k.name}"
    arr = k.args.args[0].arg
    par = _parents(k)
    dims = None
    for st in ast.walk(k):
        if isinstance(st, ast.Assign) and isinstance(st.targets[0], ast.Tuple) and isinstance(st.value, ast.Attribute) \
                and st.value.attr == "shape" and isinstance(st.value.value, ast.Name) and st.value.value.id == arr \
                and all(isinstance(e, ast.Name) for e in st.targets[0].elts):
            dims = [e.id for e in st.targets[0].elts]
    if dims is None:
        raise AnalysisError(f"{qual}: the dimensions of `{arr}` are not unpacked from its shape")
    klo, khi = _range_of(loop)
    samples = [s for st in loop.body for s in ast.walk(st) if isinstance(s, ast.Subscript) and
               isinstance(s.value, ast.Name) and s.value.id == arr and isinstance(s.ctx, ast.Load)]
    grid_vars: list[str] = []
    for st in ast.walk(k):
        if isinstance(st, ast.Assign) and isinstance(st.targets[0], ast.Tuple) and isinstance(st.value, ast.Call) \
                and last_attr(st.value) == "grid":
            grid_vars = [e.id for e in st.targets[0].elts if isinstance(e, ast.Name)]
    axes: dict[int, dict] = {}
    for s in samples:
        idx = s.slice.elts if isinstance(s.slice, ast.Tuple) else [s.slice]
        if len(idx) != len(dims):
            raise AnalysisError(f"{qual}: sample `{norm_text(s)}` does not index all {len(dims)} dimensions")
        for pos, e in enumerate(idx):
            p = Normalizer().norm(e)
            shifted = any(a == kv for m in p.terms for a, _ in m)
            base = p - Poly.atom(kv) if shifted else p
            if len(base.terms) != 1 or list(base.terms.values()) != [1] or len(next(iter(base.terms))) != 1:
                raise AnalysisError(f"{qual}: sample index `{norm_text(e)}` is not <pixel> (+ {kv})")
            var = next(iter(base.terms))[0][0]
            ent = axes.setdefault(pos, {"var": var, "shifted": False, "dim": dims[pos]})
            if ent["var"] != var:
                raise AnalysisError(f"{qual}: array position {pos} is indexed by both `{ent['var']}` and `{var}`")
            ent["shifted"] = ent["shifted"] or shifted
    if not axes:
        raise AnalysisError(f"{qual}: no samples of `{arr}` inside the offset loop")
    for pos, ent in axes.items():
        var = ent["var"]
        loops = [l for l in ast.walk(k) if isinstance(l, ast.For) and isinstance(l.target, ast.Name) and l.target.id == var
                 and isinstance(l.iter, ast.Call) and call_name(l.iter) in ("range", "prange") and _in_body(par, loop, l, "body")]
        if len(loops) == 1 and _range_of(loops[0]) is not None:
            ent["lo"], ent["hi"] = _range_of(loops[0])
            ent["how"] = norm_text(loops[0].iter)
            continue
        if var in grid_vars:
            lo, hi, how = Poly.const(0), None, []
            for g in ast.walk(k):
                if isinstance(g, ast.If) and _in_body(par, loop, g, "body"):
                    l2, h2 = _guard_bounds(g.test, var)
                    if l2 is not None:
                        lo = l2
                    if h2 is not None:
                        hi = h2
                    how.append(norm_text(g.test))
            if hi is None:
                raise AnalysisError(f"{qual}: no upper bound guards the thread index `{var}`")
            ent["lo"], ent["hi"], ent["how"] = lo, hi, " and ".join(how)
            continue
        raise AnalysisError(f"{qual}: cannot find the range of the pixel index `{var}`")
    return arr, dims, axes, klo, khi, grid_vars


def _seq_elements(df, at: int, e: ast.expr, depth: int = 0):
    """elements of a tuple/list expression built with +, * <int literal> and displays; a repetition whose count is
    not a literal stands for an unknown number of leading elements and is returned as the marker `...`."""
    if depth > 8:
        raise AnalysisError("sequence expression too deep")
    if isinstance(e, ast.Call) and call_name(e) in ("tuple", "list") and len(e.args) == 1:
        return _seq_elements(df, at, e.args[0], depth + 1)
    if isinstance(e, (ast.Tuple, ast.List)):
        if any(isinstance(x, ast.Starred) for x in e.elts):
            raise AnalysisError(f"starred element in `{norm_text(e)[:50]}`")
        return list(e.elts)
    if isinstance(e, ast.BinOp) and isinstance(e.op, ast.Add):
        return _seq_elements(df, at, e.left, depth + 1) + _seq_elements(df, at, e.right, depth + 1)
    if isinstance(e, ast.BinOp) and isinstance(e.op, ast.Mult):
        seq, cnt = (e.left, e.right) if isinstance(e.left, (ast.Tuple, ast.List)) else (e.right, e.left)
        if isinstance(seq, (ast.Tuple, ast.List)):
            if isinstance(cnt, ast.Constant) and isinstance(cnt.value, int):
                return _seq_elements(df, at, seq, depth + 1) * cnt.value
            return [Ellipsis]
    if isinstance(e, ast.Name):
        d = df.single_def(at, e.id)
        if d is not None and d.value is not None and d.kind in ("assign", "walrus"):
            return _seq_elements(df, d.node, d.value, depth + 1)
    raise AnalysisError(f"cannot enumerate the elements of `{norm_text(e)[:60]}`")


def _pair(df, at, e):
    els = _seq_elements(df, at, e)
    if len(els) != 2 or any(x is Ellipsis for x in els):
        raise AnalysisError(f"`{norm_text(e)[:40]}` is not a (before, after) pair")
    return els


def _boundary_wrapper(ctx, f: FuncInfo, df_outer: DataFlow, half: str):
    """The pad/crop wrapper: -> (wrapper def, [(before, after)] x 2 pad widths, [(lower, upper)] x 2 crop bounds) as
    polynomials in the stencil half width, or None when the halo is not built with pad()."""
    nested = _own_nested(f.node)
    cands = [(w, chain) for w, chain in nested if any(isinstance(c, ast.Call) and last_attr(c) == "pad"
                                                      for c in walk_no_nested(w))]
    if not cands:
        return None
    ctx.require(len(cands) == 1, f"{f.qualname}: {len(cands)} functions call pad()")
    w, chain = cands[0]
    dfw = DataFlow(w)
    pad = next(c for c in walk_no_nested(w) if isinstance(c, ast.Call) and last_attr(c) == "pad")
    pst = next(n for n in dfw.cfg.nodes if n.kind == "stmt" and n.ast is not None and any(x is pad for x in ast.walk(n.ast)))
    pw = kw(pad, "pad_width") or (pad.args[1] if len(pad.args) > 1 else None)
    ctx.require(pw is not None, f"{f.qualname}.{w.name}: pad width not found")
    els = _seq_elements(dfw, pst.idx, pw)
    ctx.require(len(els) >= 2 and els[-1] is not Ellipsis and els[-2] is not Ellipsis,
                f"{f.qualname}.{w.name}: the pad widths of the two grid axes are not explicit")
    # free variables of the wrapper: parameters of the enclosing definitions, bound at their call in the builder
    env: dict[str, ast.expr] = {}
    for encl in chain:
        calls = [c for c in walk_no_nested(f.node) if isinstance(c, ast.Call) and isinstance(c.func, ast.Name)
                 and c.func.id == encl.name]
        if len(calls) == 1:
            params = [a.arg for a in encl.args.args]
            for p_, a_ in zip(params, calls[0].args):
                env[p_] = a_
            for k_ in calls[0].keywords:
                if k_.arg:
                    env[k_.arg] = k_.value
            env["@call"] = calls[0]
    at_outer = None
    if "@call" in env:
        for n in df_outer.cfg.nodes:
            if n.kind == "stmt" and n.ast is not None and any(x is env["@call"] for x in ast.walk(n.ast)):
                at_outer = n.idx
    if at_outer is None:
        at_outer = max(n.idx for n in df_outer.cfg.nodes if n.kind == "stmt")

    def outer_poly(e: ast.expr) -> Poly:
        nz = FlowNormalizer(df_outer, at_outer)
        nz.no_inline.add(half)
        return nz.norm(e)

    def wpoly(e: ast.expr, at: int) -> Poly:
        nz = FlowNormalizer(dfw, at)
        p = nz.norm(e)
        sub = {}
        for a in p.atoms():
            b = _bare(a)
            if b in env and b != "@call":
                sub[a] = outer_poly(env[b])
        return p.subst(sub) if sub else p

    pads = []
    for el in els[-2:]:
        b_, a_ = _pair(dfw, pst.idx, el)
        pads.append((wpoly(b_, pst.idx), wpoly(a_, pst.idx)))
    # the crop: the returned value is <result of the kernel>[slicing]
    crops = None
    rets = [r for r in walk_no_nested(w) if isinstance(r, ast.Return) and r.value is not None]
    ctx.require(len(rets) == 1, f"{f.qualname}.{w.name}: expected one return")
    rv = rets[0].value
    rnode = dfw.cfg.node_of(rets[0]).idx
    if isinstance(rv, ast.Name):
        d = dfw.single_def(rnode, rv.id)
        if d is not None and d.value is not None:
            rv, rnode = d.value, d.node
    ctx.require(isinstance(rv, ast.Subscript), f"{f.qualname}.{w.name}: the returned value is not a crop of the kernel result")
    sl = _seq_elements(dfw, rnode, rv.slice if not isinstance(rv.slice, ast.Tuple) else rv.slice)
    ctx.require(len(sl) >= 2 and sl[-1] is not Ellipsis and sl[-2] is not Ellipsis,
                f"{f.qualname}.{w.name}: the crop of the two grid axes is not explicit")
    crops = []
    for el in sl[-2:]:
        if isinstance(el, ast.Call) and call_name(el) == "slice" and len(el.args) == 2:
            lo_, up_ = el.args
        elif isinstance(el, ast.Slice) and el.lower is not None and el.upper is not None and el.step is None:
            lo_, up_ = el.lower, el.upper
        else:
            raise AnalysisError(f"{f.qualname}.{w.name}: crop element `{norm_text(el)[:40]}` is not slice(lower, upper)")
        crops.append((wpoly(lo_, rnode), wpoly(up_, rnode)))
    return w, pads, crops, pad


def _interior(ctx, f: FuncInfo, df: DataFlow, kernels, half: str) -> None:
    bw = _boundary_wrapper(ctx, f, df, half)
    pos_atoms = {half}
    if bw is not None:
        w, pads, crops, padcall = bw
        wq = f"{f.qualname}.{w.name}"
        for ax, (pd, cr) in zip(("x", "y"), zip(pads, crops)):
            ctx.check(cr[0] == pd[0] and cr[1] == -pd[1], "R-INTERIOR", f"{wq}:crop undoes pad {ax}", f.loc(padcall),
                      f"padded by ({pd[0].key()}, {pd[1].key()}), cropped [{cr[0].key()} : {cr[1].key()}]",
                      f"grid axis {ax} is padded by ({pd[0].key()}, {pd[1].key()}) samples but the result is cropped with "
                      f"[{cr[0].key()} : {cr[1].key()}]: the returned array is not the Laplacian on the original grid "
                      "(wrong shape or shifted)", key_detail=f"crop-{ax}")
    for k, (by_axis, sym, loop, kv, coefs, half_k) in kernels:
        qual = f"{f.qualname}.{k.name}"
        arr, dims, axes, klo, khi, grid_vars = _kernel_geometry(f, k, loop, kv)
        positive = pos_atoms | set(dims)
        n_axes = len(dims)
        for pos in sorted(axes):
            ent = axes[pos]
            D = Poly.atom(ent["dim"])
            low = ent["lo"] + (klo if ent["shifted"] else Poly.const(0))
            high = D - ent["hi"] - ((khi - Poly.const(1)) if ent["shifted"] else Poly.const(0))
            s_lo, s_hi = _sign(low, positive), _sign(high, positive)
            if s_lo is None or s_hi is None:
                raise AnalysisError(f"{qual}: cannot decide the sign of {low.key()} / {high.key()} (array position {pos})")
            axn = pos - n_axes
            ctx.check(s_lo == "nonneg" and s_hi == "nonneg", "R-INTERIOR", f"{qual}:reads inside the array axis {axn}",
                      f.loc(loop), f"index range {ent['how']}" + (f" with offsets [{klo.key()}, {khi.key()})" if ent["shifted"] else ""),
                      f"along array axis {axn} the pixel index runs over `{ent['how']}`" +
                      (f" and the offset over [{klo.key()}, {khi.key()})" if ent["shifted"] else "") +
                      f": the smallest index minus 0 is {low.key()}, the size minus 1 minus the largest index is "
                      f"{high.key()} — the kernel reads and writes outside the (padded) array", key_detail=f"bounds{axn}")
            if bw is not None and ent["shifted"]:
                which = 0 if axn == -2 else 1
                pd = pads[which]
                c_lo = pd[0] - ent["lo"]  # first computed pixel is at or before the first kept pixel
                c_hi = ent["hi"] - D + pd[1]  # last computed pixel at or after the last kept pixel
                t_lo, t_hi = _sign(c_lo, positive), _sign(c_hi, positive)
                if t_lo is None or t_hi is None:
                    raise AnalysisError(f"{qual}: cannot decide the sign of {c_lo.key()} / {c_hi.key()} (halo, axis {axn})")
                ctx.check(t_lo == "nonneg" and t_hi == "nonneg", "R-INTERIOR", f"{qual}:computes every kept pixel axis {axn}",
                          f.loc(loop), f"pad ({pd[0].key()}, {pd[1].key()}) >= uncomputed rim ({ent['lo'].key()})",
                          f"the kernel computes pixels `{ent['how']}` of the padded array (a rim of {ent['lo'].key()} is left "
                          f"at zero) but only ({pd[0].key()}, {pd[1].key()}) samples are padded and cropped away along axis "
                          f"{axn}: the outermost pixels of the returned Laplacian are zero", key_detail=f"cover{axn}")


_FRESH_CALLS = {"copy", "zeros_like", "empty_like", "ones_like", "full_like", "zeros", "empty", "ones", "full"}
_ALIAS_CALLS = {"asarray", "ascontiguousarray", "asanyarray", "view", "reshape", "ravel"}


def _buffer_class(e: ast.expr, inputs: set[str]):
    """'fresh' / 'alias' / None for the expression a buffer is created from."""
    if isinstance(e, ast.Name):
        return "alias" if e.id in inputs else None
    if isinstance(e, ast.Call):
        s = last_attr(e)
        if s in _FRESH_CALLS:
            return "fresh"
        if s == "array":
            c = kw(e, "copy")
            if c is None or (isinstance(c, ast.Constant) and c.value is True):
                return "fresh"
        if s in _ALIAS_CALLS:
            src = e.args[0] if (isinstance(e.func, ast.Attribute) and isinstance(e.func.value, ast.Name) and
                                e.func.value.id not in inputs and e.args) else (
                e.func.value if isinstance(e.func, ast.Attribute) else None)
            if src is not None:
                return _buffer_class(src, inputs) if not isinstance(src, ast.Name) else (
                    "alias" if src.id in inputs else None)
    return None


def _is_jitted(k: ast.FunctionDef) -> bool:
    for d in k.decorator_list:
        t = dotted(d.func if isinstance(d, ast.Call) else d) or ""
        if t.split(".")[-1] in ("jit", "njit", "vectorize", "guvectorize", "stencil"):
            return True
    return False


def _stored_arrays(k: ast.FunctionDef) -> dict[str, list]:
    out: dict[str, list] = {}
    for st in ast.walk(k):
        if isinstance(st, ast.Assign) and isinstance(st.targets[0], ast.Subscript) and isinstance(st.targets[0].value, ast.Name):
            out.setdefault(st.targets[0].value.id, []).append(st)
    return out


def _kernel_out(ctx, f: FuncInfo, kernels) -> dict:
    """R-KERNELOUT.  -> {kernel name: (input parameter, output parameter or None)}"""
    roles = {}
    known = {k.name for k, _ in kernels}
    for k, _chain in _own_nested(f.node):
        if not _is_jitted(k) or not k.args.args:
            continue
        stores = _stored_arrays(k)
        if not stores:
            continue
        qual = f"{f.qualname}.{k.name}"
        ctx.check(k.name in known, "R-KERNELOUT", f"{qual}:accumulates the stencil", f.loc(k),
                  "the compiled kernel accumulates coefficient x sample over the stencil offsets",
                  "the compiled kernel stores into its output but no loop accumulates coefficient x shifted sample of "
                  "its input: the Laplacian it returns does not depend on the neighbouring samples (it is zero / the "
                  "initial value everywhere)", key_detail="accumulates")
    for k, (by_axis, sym, loop, kv, coefs, half) in kernels:
        qual = f"{f.qualname}.{k.name}"
        arr = k.args.args[0].arg
        params = [a.arg for a in k.args.args]
        par = _parents(k)
        accs = {st.target.id for st in loop.body if isinstance(st, ast.AugAssign) and isinstance(st.target, ast.Name)}
        pix = [st for name, sts in _stored_arrays(k).items() for st in sts
               if isinstance(st.value, ast.Name) and st.value.id in accs]
        if len(pix) != 1:
            raise AnalysisError(f"{qual}: expected exactly one store of the accumulated value, found {len(pix)}")
        st = pix[0]
        out = st.targets[0].value.id
        # the stored pixel is the pixel the offsets are centred on
        geo_arr, dims, axes, klo, khi, gv = _kernel_geometry(f, k, loop, kv)
        idx = st.targets[0].slice.elts if isinstance(st.targets[0].slice, ast.Tuple) else [st.targets[0].slice]
        same = len(idx) == len(dims) and all(isinstance(e, ast.Name) and e.id == axes[p]["var"] for p, e in enumerate(idx)
                                             if p in axes)
        ctx.check(same, "R-KERNELOUT", f"{qual}:stores at the centre pixel", f.loc(st),
                  f"the sum over offsets around pixel ({', '.join(axes[p]['var'] for p in sorted(axes))}) is stored at that pixel",
                  f"the accumulated sum is stored at `{norm_text(st.targets[0])}` although the offsets are centred on "
                  f"({', '.join(axes[p]['var'] for p in sorted(axes))})", key_detail="centre")
        inside = _in_body(par, st, loop, "body")
        if inside:
            raise AnalysisError(f"{qual}: the store is inside the offset loop")
        if out in params:
            roles[k.name] = (arr, out)
            continue
        roles[k.name] = (arr, None)
        defs = [s for s in ast.walk(k) if isinstance(s, ast.Assign) and isinstance(s.targets[0], ast.Name)
                and s.targets[0].id == out]
        if len(defs) != 1:
            raise AnalysisError(f"{qual}: output buffer has {len(defs)} definitions")
        cls_ = _buffer_class(defs[0].value, {arr})
        if cls_ is None:
            raise AnalysisError(f"{qual}: cannot classify the output buffer `{norm_text(defs[0].value)[:40]}`")
        ctx.check(cls_ == "fresh", "R-KERNELOUT", f"{qual}:output buffer is not the input", f.loc(defs[0]),
                  f"output = `{norm_text(defs[0].value)}` is a buffer of its own",
                  f"the output buffer is `{norm_text(defs[0].value)}`, the input array itself: clearing and filling it "
                  "overwrites the samples the stencil still has to read (and the caller's wave)", key_detail="alias")
    return roles


def _fold(e: ast.expr, env: dict):
    from ..model import fold_constant

    return fold_constant(e, env)


def _ceil_div(e: ast.expr):
    """(numerator, denominator) of ceil(a / b), (a + b - 1) // b or -(-a // b)."""
    if isinstance(e, ast.Call) and last_attr(e) == "ceil" and len(e.args) == 1 and isinstance(e.args[0], ast.BinOp) \
            and isinstance(e.args[0].op, ast.Div):
        return e.args[0].left, e.args[0].right
    if isinstance(e, ast.Call) and call_name(e) == "int" and len(e.args) == 1:
        return _ceil_div(e.args[0])
    if isinstance(e, ast.UnaryOp) and isinstance(e.op, ast.USub) and isinstance(e.operand, ast.BinOp) and \
            isinstance(e.operand.op, ast.FloorDiv) and isinstance(e.operand.left, ast.UnaryOp) and \
            isinstance(e.operand.left.op, ast.USub):
        return e.operand.left.operand, e.operand.right
    return None


def _launch(ctx, f: FuncInfo, kernels, roles) -> None:
    """R-LAUNCH for every kernel that writes into a buffer passed by its caller."""
    nested = _own_nested(f.node)
    for k, (by_axis, sym, loop, kv, coefs, half) in kernels:
        if roles.get(k.name, (None, None))[1] is None:
            continue
        kin, kout = roles[k.name]
        kparams = [a.arg for a in k.args.args]
        qual = f"{f.qualname}.{k.name}"
        # the wrapper: a nested function that mentions the kernel
        users = [w for w, _ in nested if w is not k and any(isinstance(n, ast.Name) and n.id == k.name for n in ast.walk(w))]
        ctx.require(len(users) <= 1, f"{qual}: used by {len(users)} functions")
        # functions that return a buffer nobody writes: the device branch hands back zeros
        for w, _ in nested:
            if w is k or _is_jitted(w):
                continue
            dfw = DataFlow(w)
            for r in walk_no_nested(w):
                if not (isinstance(r, ast.Return) and isinstance(r.value, ast.Name)):
                    continue
                d = dfw.single_def(dfw.cfg.node_of(r).idx, r.value.id)
                if d is None or not isinstance(d.value, ast.Call) or last_attr(d.value) not in (
                        "zeros_like", "empty_like", "zeros", "empty"):
                    continue
                name = r.value.id
                written = any(
                    (isinstance(n, ast.Call) and any(isinstance(a, ast.Name) and a.id == name for a in
                                                     list(n.args) + [x.value for x in n.keywords])) or
                    (isinstance(n, (ast.Assign, ast.AugAssign)) and any(
                        isinstance(t, ast.Subscript) and isinstance(t.value, ast.Name) and t.value.id == name
                        for t in (n.targets if isinstance(n, ast.Assign) else [n.target]))) or
                    (isinstance(n, ast.AugAssign) and isinstance(n.target, ast.Name) and n.target.id == name)
                    for n in walk_no_nested(w) if n is not d.value)
                ctx.check(written, "R-LAUNCH", f"{f.qualname}.{w.name}:returned buffer is written", f.loc(r),
                          f"`{norm_text(d.value)}` is handed to a kernel / written before it is returned",
                          f"the function returns the buffer `{norm_text(d.value)}` that nothing has written: the Laplacian "
                          "on this device is identically zero (uninitialised)", key_detail="unwritten")
        if not users:
            continue
        w = users[0]
        wq = f"{f.qualname}.{w.name}"
        dfw = DataFlow(w)
        launches = [c for c in walk_no_nested(w) if isinstance(c, ast.Call) and isinstance(c.func, ast.Subscript)
                    and isinstance(c.func.value, ast.Name) and c.func.value.id == k.name]
        ctx.require(len(launches) == 1, f"{wq}: expected one launch of {k.name}, found {len(launches)}")
        lc = launches[0]
        lnode = next(n.idx for n in dfw.cfg.nodes if n.kind == "stmt" and n.ast is not None and
                     any(x is lc for x in ast.walk(n.ast)))
        ctx.require(len(lc.args) == len(kparams) and not lc.keywords, f"{wq}: launch arguments do not match the kernel")
        bound = dict(zip(kparams, lc.args))
        win = w.args.args[0].arg if w.args.args else None
        rets = [r for r in walk_no_nested(w) if isinstance(r, ast.Return) and r.value is not None]
        ctx.require(len(rets) == 1 and isinstance(rets[0].value, ast.Name), f"{wq}: expected `return <buffer>`")
        rname = rets[0].value.id
        a_in, a_out = bound[kin], bound[kout]

        def is_input(e):
            if isinstance(e, ast.Name) and e.id == win:
                return True
            if isinstance(e, ast.Name):
                d = dfw.single_def(lnode, e.id)
                return d is not None and d.value is not None and _buffer_class(d.value, {win}) == "alias"
            return False

        okb = is_input(a_in) and isinstance(a_out, ast.Name) and a_out.id == rname and not is_input(a_out)
        ctx.check(okb, "R-LAUNCH", f"{wq}:launch reads the input and writes the returned buffer", f.loc(lc),
                  f"kernel({kin}={norm_text(a_in)}, {kout}={norm_text(a_out)}), returns {rname}",
                  f"the kernel reads its parameter `{kin}` and writes `{kout}`, but it is launched with {kin}="
                  f"`{norm_text(a_in)}` and {kout}=`{norm_text(a_out)}` while the wrapper's input is `{win}` and it returns "
                  f"`{rname}`: the stencil is applied to the empty buffer and the input is overwritten", key_detail="binding")
        # grid: blocks x threads covers the array along every thread axis
        geo_arr, dims, axes, klo, khi, grid_vars = _kernel_geometry(f, k, loop, kv)
        sl = lc.func.slice
        ctx.require(isinstance(sl, ast.Tuple) and len(sl.elts) >= 2, f"{wq}: launch configuration not found")
        try:
            G = _seq_elements(dfw, lnode, sl.elts[0])
            B = _seq_elements(dfw, lnode, sl.elts[1])
        except AnalysisError as e:
            raise AnalysisError(f"{wq}: {e}")
        ctx.require(len(G) == len(B) == len(grid_vars) and Ellipsis not in G and Ellipsis not in B,
                    f"{wq}: launch configuration is not {len(grid_vars)}-dimensional")
        bname = sl.elts[1].id if isinstance(sl.elts[1], ast.Name) else None
        nzw = FlowNormalizer(dfw, lnode)

        def block_poly(e):
            # threadsperblock[d] -> the d-th element of the block tuple
            if isinstance(e, ast.Subscript) and isinstance(e.value, ast.Name) and e.value.id == bname and \
                    isinstance(e.slice, ast.Constant) and isinstance(e.slice.value, int) and e.slice.value < len(B):
                return nzw.norm(B[e.slice.value])
            return nzw.norm(e)

        cenv: dict = {}
        for st_ in w.body:  # literal locals of the wrapper, folded in order
            if isinstance(st_, ast.Assign) and len(st_.targets) == 1 and isinstance(st_.targets[0], ast.Name):
                try:
                    cenv[st_.targets[0].id] = _fold(st_.value, cenv)
                except Exception:
                    cenv.pop(st_.targets[0].id, None)

        def block_const(e):
            try:
                v = _fold(e, cenv)
            except Exception:
                return None
            return v if isinstance(v, (int, float)) and not isinstance(v, bool) else None

        def shape_axis(e):
            # a.shape[d] or a name unpacked from a.shape -> d
            if isinstance(e, ast.Subscript) and isinstance(e.value, ast.Attribute) and e.value.attr == "shape" and \
                    is_input(e.value.value) and isinstance(e.slice, ast.Constant) and isinstance(e.slice.value, int):
                return e.slice.value % len(dims)
            if isinstance(e, ast.Name):
                d = dfw.single_def(lnode, e.id)
                if d is not None:
                    stn = dfw.cfg.nodes[d.node].ast
                    if isinstance(stn, ast.Assign) and isinstance(stn.targets[0], ast.Tuple) and isinstance(
                            stn.value, ast.Attribute) and stn.value.attr == "shape" and is_input(stn.value.value):
                        names = [x.id if isinstance(x, ast.Name) else None for x in stn.targets[0].elts]
                        if e.id in names and len(names) == len(dims):
                            return names.index(e.id)
                    if d.value is not None and d.kind == "assign" and isinstance(stn, ast.Assign) and \
                            isinstance(stn.targets[0], ast.Name):
                        return shape_axis(d.value)
            return None

        for t, gv in enumerate(grid_vars):
            pos = [p for p, ent in axes.items() if ent["var"] == gv]
            if len(pos) != 1:
                raise AnalysisError(f"{qual}: thread index `{gv}` does not index exactly one array axis")
            g = G[t]
            if isinstance(g, ast.Name):
                dg = dfw.single_def(lnode, g.id)
                if dg is not None and dg.value is not None:
                    g = dg.value
            cd = _ceil_div(g)
            if cd is None:
                raise AnalysisError(f"{wq}: blocks along thread axis {t} `{norm_text(g)[:50]}` is not ceil(size / threads)")
            sx = shape_axis(cd[0])
            if sx is None:
                raise AnalysisError(f"{wq}: `{norm_text(cd[0])}` is not a dimension of the input array")
            tb, want = block_poly(cd[1]), nzw.norm(B[t])
            enough = tb == want
            if not enough:
                c1, c2 = block_const(cd[1]), block_const(B[t])
                if c1 is None or c2 is None:
                    raise AnalysisError(f"{wq}: cannot compare the block sizes {tb.key()} and {want.key()}")
                enough = c1 <= c2
            ctx.check(sx == pos[0] and enough, "R-LAUNCH", f"{wq}:grid covers thread axis {t}", f.loc(lc),
                      f"ceil(shape[{sx}] / {tb.key()}) blocks of {want.key()} threads cover array axis {pos[0]}",
                      f"thread axis {t} indexes array axis {pos[0]} with {want.key()} threads per block, but the number of "
                      f"blocks is ceil(shape[{sx}] / {tb.key()}): blocks x threads does not cover the axis for every array "
                      "shape, the uncovered pixels keep the zero of the output buffer", key_detail=f"grid{t}")


def _wrapped(ctx, f: FuncInfo, df: DataFlow) -> None:
    """R-WRAPPED: with the boundary mode LaplaceOperator asks for, the builder returns the boundary-wrapped stencil."""
    from ..model import NotConstant, fold_constant

    repo = ctx.repo
    gs = repo.method(FD, "LaplaceOperator", "_get_new_stencil")
    calls = [c for c in walk_no_nested(gs.node) if isinstance(c, ast.Call) and call_name(c) == f.name]
    ctx.require(len(calls) == 1, f"{gs.qualname}: call of {f.name} not found")
    b = bind_args(calls[0], f)
    env = {}
    for p_, d_ in f.defaults().items():
        try:
            env[p_] = fold_constant(d_)
        except Exception:
            pass
    for p_, a_ in b.items():
        try:
            env[p_] = fold_constant(a_)
        except Exception:
            env.pop(p_, None)
    # the boundary wrapper: a nested function that calls a callable received as a parameter of an enclosing definition
    bw = [(w, chain) for w, chain in _own_nested(f.node) if any(
        isinstance(c, ast.Call) and isinstance(c.func, ast.Name) and
        c.func.id in {a.arg for e_ in chain for a in e_.args.args} for c in walk_no_nested(w))]
    ctx.require(len(bw) >= 1, f"{f.qualname}: boundary wrapper not found")
    wrap_names = {w.name for w, _ in bw} | {c.name for _, chain in bw for c in chain}

    def taken(body):
        """the return statement reached in a statement list under env (None: falls through)."""
        for st in body:
            if isinstance(st, ast.Return):
                return st
            if isinstance(st, ast.If):
                try:
                    v = fold_constant(st.test, env)
                except NotConstant:
                    if any(isinstance(x, ast.Return) for x in ast.walk(st)):
                        raise AnalysisError(f"{f.qualname}: cannot evaluate `{norm_text(st.test)}` for the arguments of "
                                            f"{gs.qualname}")
                    continue
                r = taken(st.body if v else st.orelse)
                if r is not None:
                    return r
        return None

    r = taken(f.body)
    ctx.require(r is not None and r.value is not None, f"{f.qualname}: no return reached")
    used = {n.id for n in ast.walk(r.value) if isinstance(n, ast.Name)}
    rn = df.cfg.node_of(r).idx
    for _ in range(4):  # temporaries of the returned expression
        for nm in sorted(used):
            d = df.single_def(rn, nm)
            if d is not None and d.value is not None and d.kind in ("assign", "walrus"):
                used |= {n.id for n in ast.walk(d.value) if isinstance(n, ast.Name)}
    mode_txt = ", ".join(f"{k_}={env[k_]!r}" for k_ in sorted(env) if isinstance(env[k_], str))
    ctx.check(bool(used & wrap_names), "R-WRAPPED", f"{f.qualname}:periodic stencil for the operator", f.loc(r),
              f"for {mode_txt} the builder returns `{norm_text(r.value)[:70]}` (through the boundary wrapper)",
              f"for the arguments LaplaceOperator passes ({mode_txt}) the builder returns `{norm_text(r.value)[:70]}`, the "
              "bare kernel without the periodic halo: the rim of every wave is left at zero, a periodic plane wave is not "
              "an eigenfunction", key_detail="wrapped")


# ---------------------------------------------------------------------------------------------- exponential series
_SERIES_FUNCS = ("_multislice_exponential_series", "conventional_operator", "propagator_taylor_series", "full_series",
                 "multislice_step")


def _adds_to(st: ast.stmt, acc: str):
    """name of the variable the statement adds to `acc` (acc += t, acc = acc + t, acc = t + acc)."""
    if isinstance(st, ast.AugAssign) and isinstance(st.op, ast.Add) and isinstance(st.target, ast.Name) and \
            st.target.id == acc and isinstance(st.value, ast.Name):
        return st.value.id
    if isinstance(st, ast.Assign) and len(st.targets) == 1 and isinstance(st.targets[0], ast.Name) and \
            st.targets[0].id == acc and isinstance(st.value, ast.BinOp) and isinstance(st.value.op, ast.Add):
        l, r = st.value.left, st.value.right
        if isinstance(l, ast.Name) and isinstance(r, ast.Name) and acc in (l.id, r.id) and l.id != r.id:
            return r.id if l.id == acc else l.id
    return None


def _defines(st: ast.stmt, name: str) -> bool:
    return any(isinstance(s, ast.Assign) and any(isinstance(t, ast.Name) and t.id == name for t in s.targets)
               for s in ast.walk(st))


def _while_counter(f: FuncInfo, df: DataFlow, L: ast.While, term: str):
    """(counter, start) of a `while` series loop: the one variable that is incremented by exactly 1 once per iteration,
    as a direct statement of the loop body after the last computation of the term, has no other definition inside the
    loop, starts from an integer literal, and is read by the computation of the term."""
    if any(isinstance(n, ast.Continue) for st in L.body for n in ast.walk(st)):
        raise AnalysisError(f"{f.qualname}: `continue` inside the series loop (the counter step may be skipped)")
    h = df.cfg.node_of(L).idx
    body = df.cfg.loop_body_nodes(h)
    last_term = max(j for j, st in enumerate(L.body) if _defines(st, term))
    read = {n.id for st in L.body if _defines(st, term) for n in ast.walk(st) if isinstance(n, ast.Name)}
    cands = []
    for j, st in enumerate(L.body):
        v = None
        if isinstance(st, ast.AugAssign) and isinstance(st.op, ast.Add) and isinstance(st.target, ast.Name) and \
                isinstance(st.value, ast.Constant) and st.value.value == 1 and not isinstance(st.value.value, bool):
            v = st.target.id
        elif isinstance(st, ast.Assign) and len(st.targets) == 1 and isinstance(st.targets[0], ast.Name) and \
                Normalizer().norm(st.value) == Poly.atom(st.targets[0].id) + Poly.const(1):
            v = st.targets[0].id
        if v is None or v not in read:
            continue
        inside = [d for d in df.defs if d.var == v and d.node in body]
        outside = [d for d in df.reaching(h, v) if d.node not in body]
        if len(inside) != 1 or j <= last_term:
            raise AnalysisError(f"{f.qualname}: the counter `{v}` of the series loop is not stepped exactly once after "
                                "the term is computed")
        if len(outside) != 1 or not (isinstance(outside[0].value, ast.Constant) and isinstance(outside[0].value.value, int)
                                     and not isinstance(outside[0].value.value, bool) and outside[0].kind == "assign"):
            raise AnalysisError(f"{f.qualname}: the counter `{v}` of the series loop does not start from an integer literal")
        cands.append((v, Poly.const(outside[0].value.value)))
    if len(cands) != 1:
        raise AnalysisError(f"{f.qualname}: the series loop is a `while` loop without a recognisable counter")
    return cands[0]


def _expseries(ctx) -> None:
    repo = ctx.repo
    f = repo.function(FD, "_multislice_exponential_series")
    df = DataFlow(f.node)
    rets = [r for r in walk_no_nested(f.node) if isinstance(r, ast.Return) and r.value is not None]
    ctx.require(rets and all(isinstance(r.value, ast.Name) for r in rets) and len({r.value.id for r in rets}) == 1,
                f"{f.qualname}: the result is not one accumulated variable")
    acc = rets[0].value.id
    ctx.require(acc in f.params, f"{f.qualname}: the accumulated result `{acc}` is not the incoming wave parameter")
    adds = [(st, _adds_to(st, acc)) for st in walk_no_nested(f.node) if isinstance(st, ast.stmt) and _adds_to(st, acc)]
    ctx.require(len(adds) >= 1 and len({t for _, t in adds}) == 1, f"{f.qualname}: cannot identify the series term added to `{acc}`")
    term = adds[0][1]
    other_writes = [st for st in walk_no_nested(f.node) if isinstance(st, (ast.Assign, ast.AugAssign)) and
                    not _adds_to(st, acc) and any(isinstance(t, ast.Name) and t.id == acc for t in
                                                  (st.targets if isinstance(st, ast.Assign) else [st.target]))]
    ctx.require(not other_writes, f"{f.qualname}: `{acc}` is also written by `{norm_text(other_writes[0])[:50]}`" if other_writes else "")
    loops = [l for l in walk_no_nested(f.node) if isinstance(l, ast.For) and isinstance(l.target, ast.Name) and
             isinstance(l.iter, ast.Call) and call_name(l.iter) == "range" and any(_defines(s, term) for s in l.body)]
    wloops = [l for l in walk_no_nested(f.node) if isinstance(l, ast.While) and any(_defines(s, term) for s in l.body)]
    if not loops and len(wloops) == 1 and any(l is wloops[0] for l in f.body):
        # the same loop written with an explicit counter: k = lo; while ...: <term uses k>; k += 1
        L = wloops[0]
        iv, lo_poly = _while_counter(f, df, L, term)
        rng = (lo_poly, None)
    else:
        ctx.require(len(loops) == 1 and any(l is loops[0] for l in f.body), f"{f.qualname}: the series loop was not found")
        L = loops[0]
        iv = L.target.id
        rng = _range_of(L)
    ctx.require(rng is not None, f"{f.qualname}: series loop is not range(lo, hi)")
    callees = {n: repo.function(FD, n) for n in _SERIES_FUNCS if n in repo.module(FD).functions}

    def analyse(value: ast.expr):
        calls = []

        def hook(nz, c):
            if call_name(c) in callees:
                calls.append(c)
                return Poly.atom("OP")
            return None
        return Normalizer(call_hook=hook).norm(value), calls

    def groups(block):
        return [(j, st) for j, st in enumerate(block) if not isinstance(st, ast.For) and _defines(st, term)]

    pre_calls, loop_calls = [], []
    n_pre = 0
    for where, block in (("first term", f.body[: next(j for j, s in enumerate(f.body) if s is L)]), ("loop", L.body)):
        gs = groups(block)
        ctx.require(len(gs) >= 1, f"{f.qualname}: no definition of the series term in the {where} part")
        for gi, (j, st) in enumerate(gs):
            end = gs[gi + 1][0] if gi + 1 < len(gs) else len(block)
            added = any(_adds_to(s, acc) == term for later in block[j + 1:end] for s in ast.walk(later)
                        if isinstance(s, ast.stmt))
            ctx.check(added, "R-EXPSERIES", f"{f.qualname}:{where} is added to the result", f.loc(st),
                      f"`{acc} += {term}` follows the computation of the term",
                      f"the series term computed in the {where} part is never added to `{acc}` before it is overwritten or "
                      "the function returns: the result is not sum_k Op^k/k! applied to the wave, so vacuum propagation is "
                      "not unitary", key_detail=f"added-{where.split()[0]}")
            if where == "first term":
                n_pre += 1
            for s in ast.walk(st):
                if not (isinstance(s, ast.Assign) and any(isinstance(t, ast.Name) and t.id == term for t in s.targets)):
                    continue
                p, calls = analyse(s.value)
                ctx.require(len(calls) == 1, f"{f.qualname}: `{norm_text(s.value)[:50]}` does not apply one operator")
                (pre_calls if where == "first term" else loop_calls).append(calls[0])
                if where == "first term":
                    want, wtxt = Poly.atom("OP"), "Op(wave)"
                else:
                    want, wtxt = Poly.atom("OP") * Poly.atom(iv).inverse(), "Op(previous term) / k"
                ctx.check(p == want, "R-EXPSERIES", f"{f.qualname}:{where} {call_name(calls[0])}:factorial", f.loc(s),
                          f"term = {wtxt}",
                          f"the {where} term is `{p.key().replace('OP', call_name(calls[0]) + '(..)')}` instead of {wtxt} "
                          f"(k = `{iv}`): the sum is not the exponential series, it does not converge to a unitary "
                          "propagator", key_detail=f"factorial-{where.split()[0]}")
    lo = rng[0].const_value()
    ctx.require(lo is not None, f"{f.qualname}: series loop start `{rng[0].key()}` is not a literal")
    ctx.check(lo == 2, "R-EXPSERIES", f"{f.qualname}:loop starts at k = 2", f.loc(L),
              "one term before the loop, the loop index starts at 2",
              f"one term (k = 1) is computed before the loop but the loop index used as the divisor starts at {lo}: the "
              "terms are not Op^k/k!", key_detail="start")
    # the operator is applied to the wave (first term) and to the previous term (loop), all other arguments agree
    for pc in pre_calls:
        cf = callees[call_name(pc)]
        b0 = bind_args(pc, cf)
        wave_params = [p_ for p_, a_ in b0.items() if isinstance(a_, ast.Name) and a_.id == acc]
        sib = [c for c in loop_calls if call_name(c) == call_name(pc)]
        ctx.require(len(sib) == 1, f"{f.qualname}: {call_name(pc)} is applied {len(sib)} times in the loop")
        b1 = bind_args(sib[0], cf)
        recur = len(wave_params) == 1 and isinstance(b1.get(wave_params[0]), ast.Name) and b1[wave_params[0]].id == term
        rest_same = set(b0) == set(b1) and all(norm_text(b0[p_]) == norm_text(b1[p_]) for p_ in b0 if p_ not in wave_params)
        ctx.check(recur and rest_same, "R-EXPSERIES", f"{f.qualname}:{cf.name} applied to the previous term", f.loc(sib[0]),
                  f"first term {cf.name}({wave_params[0] if wave_params else '?'}={acc}, ...), loop "
                  f"{cf.name}({wave_params[0] if wave_params else '?'}={term}, ...), other arguments identical",
                  f"before the loop `{norm_text(pc)[:70]}`, inside `{norm_text(sib[0])[:70]}`: the loop does not apply the same "
                  f"operator to the previous term `{term}` (the parameter that receives `{acc}` before the loop must receive "
                  f"`{term}` inside, every other argument must be the same)", key_detail=f"recur-{cf.name}")
    # ---- R-RELATIVE: convergence / divergence tests are invariant under scaling of the wave
    def amp_src(e):
        # abs(X).sum(), xp.sum(xp.abs(X)) -> X
        if isinstance(e, ast.Call) and last_attr(e) == "sum":
            inner = e.func.value if isinstance(e.func, ast.Attribute) and not (
                isinstance(e.func.value, ast.Name) and e.args) else (e.args[0] if e.args else None)
            if isinstance(inner, ast.Call) and last_attr(inner) in ("abs", "absolute") and len(inner.args) == 1 and \
                    isinstance(inner.args[0], ast.Name):
                return inner.args[0].id
        return None

    def amp_hook(nz, c):
        s = amp_src(c)
        if s in (acc, term):
            return Poly.atom("AMP:" + s)
        return None

    n_tests = 0
    for st in walk_no_nested(f.node):
        if not isinstance(st, ast.If):
            continue
        at = df.cfg.node_of(st).idx
        for c in ast.walk(st.test):
            if not (isinstance(c, ast.Compare) and len(c.ops) == 1):
                continue
            sides = [FlowNormalizer(df, at, call_hook=amp_hook).norm(x) for x in (c.left, c.comparators[0])]
            degs = set()
            for p in sides:
                for mono in p.terms:
                    degs.add(sum((e for a, e in mono if a.startswith("AMP:")), Fraction(0)))
            if not any(a.startswith("AMP:") for p in sides for a in p.atoms()):
                continue
            n_tests += 1
            ctx.check(len(degs) == 1, "R-RELATIVE", f"{f.qualname}:test {n_tests} is scale invariant", f.loc(st),
                      f"`{norm_text(c)}` compares quantities of the same degree in the wave amplitude",
                      f"`{norm_text(c)}` mixes degrees {sorted(str(d) for d in degs)} in the wave amplitude: whether the series "
                      "stops depends on the normalisation of the wave, so for some amplitudes it stops before the "
                      "terms are negligible (intensity not preserved) or never", key_detail=f"relative{n_tests}")
    ctx.require(n_tests >= 1, f"{f.qualname}: no convergence test on the term amplitude found")
    # ---- the step propagates the wave it was given
    ms = repo.function(FD, "multislice_step")
    for st in walk_no_nested(ms.node):
        if isinstance(st, ast.Assign) and isinstance(st.value, ast.Call) and call_name(st.value) == f.name:
            b = bind_args(st.value, f)
            tgt, arg = dotted(st.targets[0]), dotted(b.get(acc)) if b.get(acc) is not None else None
            if tgt is None or arg is None:
                raise AnalysisError(f"{ms.qualname}: cannot compare `{norm_text(st.targets[0])}` with the propagated argument")
            ctx.check(tgt == arg, "R-EXPSERIES", f"{ms.qualname}:series applied to the wave it replaces", ms.loc(st),
                      f"{tgt} = series({acc}={arg}, ...)",
                      f"`{tgt}` is replaced by the series applied to `{arg}`: the propagated array is not the wave's own "
                      "array", key_detail="propagated")


def _operator_roles(ctx) -> None:
    repo = ctx.repo
    mod = repo.module(FD)
    funcs = {n: mod.functions[n] for n in _SERIES_FUNCS if n in mod.functions}
    roles: dict[tuple[str, str], str] = {}
    for n, fi in funcs.items():
        for p_ in fi.params:
            called = any(isinstance(c, ast.Call) and isinstance(c.func, ast.Name) and c.func.id == p_
                         for c in walk_no_nested(fi.node))
            arith = any(isinstance(b, ast.BinOp) and any(isinstance(o, ast.Name) and o.id == p_ for o in (b.left, b.right))
                        and isinstance(b.op, (ast.Mult, ast.Add, ast.Sub)) for b in walk_no_nested(fi.node)) or any(
                isinstance(a, ast.AugAssign) and isinstance(a.target, ast.Name) and a.target.id == p_
                for a in walk_no_nested(fi.node))
            if called and not arith:
                roles[(n, p_)] = "operator"
            elif arith and not called and (fi.node.args.defaults is not None):
                ann = next((a.annotation for a in fi.node.args.args if a.arg == p_), None)
                if ann is not None and "ndarray" in norm_text(ann):
                    roles[(n, p_)] = "array"
    changed = True
    while changed:
        changed = False
        for n, fi in funcs.items():
            for c in walk_no_nested(fi.node):
                if isinstance(c, ast.Call) and call_name(c) in funcs:
                    for p_, a_ in bind_args(c, funcs[call_name(c)]).items():
                        r = roles.get((call_name(c), p_))
                        if r and isinstance(a_, ast.Name) and a_.id in fi.params and (n, a_.id) not in roles:
                            roles[(n, a_.id)] = r
                            changed = True
    n_calls = 0
    for n, fi in funcs.items():
        dfn = DataFlow(fi.node)
        for st in walk_no_nested(fi.node):
            if not isinstance(st, ast.stmt) or isinstance(st, (ast.If, ast.For, ast.While, ast.With, ast.Try)):
                continue
            for c in ast.walk(st):
                if not (isinstance(c, ast.Call) and call_name(c) in funcs):
                    continue
                cf = funcs[call_name(c)]
                try:
                    at = dfn.cfg.node_of(st).idx
                except Exception:
                    continue
                n_calls += 1
                bad = []
                for p_, a_ in bind_args(c, cf).items():
                    want = roles.get((cf.name, p_))
                    if want is None:
                        continue
                    have = None
                    if isinstance(a_, ast.Name) and (n, a_.id) in roles:
                        have = roles[(n, a_.id)]
                    elif isinstance(a_, ast.Name):
                        d = dfn.single_def(at, a_.id)
                        if d is not None and isinstance(d.value, ast.Call) and last_attr(d.value) == "get_stencil":
                            have = "operator"
                        elif d is not None and isinstance(d.value, ast.BinOp):
                            have = "array"
                    elif isinstance(a_, ast.Attribute) and a_.attr in ("_array", "array"):
                        have = "array"
                    if have is not None and have != want:
                        bad.append((p_, norm_text(a_), have, want))
                ctx.check(not bad, "R-OPERATOR-ROLE", f"{fi.qualname}:call of {cf.name}", fi.loc(c),
                          "the Laplace operator argument is a callable stencil, the wave and transmission arguments are arrays",
                          "; ".join(f"parameter `{p_}` of {cf.name} is used as {'a callable operator' if w == 'operator' else 'an array'} "
                                    f"but receives `{t}`, {'a callable operator' if h == 'operator' else 'an array'}"
                                    for p_, t, h, w in bad) + ": the Laplacian is never applied to the wave",
                          key_detail="+".join(p_ for p_, *_ in bad))
    ctx.require(n_calls >= 4, f"{FD}: only {n_calls} calls between the series functions found")


def _forwarding(ctx) -> None:
    """R-SYMMETRIC (fall-back): beyond the literal tables the coefficients are computed; the computing function must
    receive the requested accuracy as its accuracy and the derivative order as its derivative."""
    repo = ctx.repo
    fdc = repo.function(FD, "finite_difference_coefficients")
    mod = repo.module(FD)
    for c in walk_no_nested(fdc.node):
        if not (isinstance(c, ast.Call) and isinstance(c.func, ast.Name) and c.func.id in mod.functions):
            continue
        cf = mod.functions[c.func.id]
        shared = [p_ for p_ in fdc.params if p_ in cf.params]
        if len(shared) < 2:
            continue
        b = bind_args(c, cf)
        crossed = [(p_, b[p_].id) for p_ in shared if isinstance(b.get(p_), ast.Name) and b[p_].id in shared
                   and b[p_].id != p_]
        ctx.check(not crossed, "R-SYMMETRIC", f"{fdc.qualname}:computed fall-back {cf.name}", fdc.loc(c),
                  f"{cf.name}({', '.join(f'{p_}={norm_text(b[p_])}' for p_ in shared if p_ in b)})",
                  f"`{norm_text(c)}` passes " + ", ".join(f"`{a_}` as `{p_}`" for p_, a_ in crossed) +
                  f" of {cf.name}: beyond the literal tables a stencil of another derivative order and accuracy is "
                  "returned, its plane-wave eigenvalue is not that of the requested Laplacian", key_detail="fallback")


_inner_run_c37c = run


def run(ctx) -> None:  # noqa: F811
    ctx.rule("R-INTERIOR", "with the pad widths (b, a) of the boundary wrapper, the pixel ranges [lo, hi) and the offset "
             "range [-n, n] of every stencil kernel as polynomials in the half width n and the array dimensions: "
             "lo - n >= 0 and hi + n <= size (every sample read and every pixel written lies inside the padded array), "
             "b >= lo and a >= size - hi (every pixel that survives the crop was computed), and the crop is "
             "[b : -a] (the result is the Laplacian on the original grid).  Otherwise the rim of the result is zero or "
             "memory outside the array is touched, and a periodic plane wave is not an eigenfunction")
    ctx.rule("R-KERNELOUT", "every compiled kernel that stores into an output accumulates coefficient x shifted sample, "
             "stores the sum at the pixel the offsets are centred on, and writes a buffer that is not its input")
    ctx.rule("R-LAUNCH", "the device wrapper launches the kernel with (kernel's read parameter = wrapper input, kernel's "
             "written parameter = the buffer the wrapper returns), blocks x threads covers the array along every "
             "thread axis (blocks[d] = ceil(shape[axis(d)] / threads[d])), and no function returns a zero-initialised "
             "buffer nothing has written")
    ctx.rule("R-WRAPPED", "for the arguments LaplaceOperator._get_new_stencil passes (folded constants), the builder "
             "returns the stencil through the periodic boundary wrapper, not the bare kernel")
    ctx.rule("R-EXPSERIES", "_multislice_exponential_series computes wave + sum_k T_k with T_1 = Op(wave), "
             "T_k = Op(T_{k-1}) / k for k = 2.. : every computed term is added to the result, the divisor is the loop "
             "index starting at 2, the operator call inside the loop equals the one before it except that the previous "
             "term replaces the wave; multislice_step replaces the wave's array by the series of that same array.  "
             "Necessary for exp(i dz H) with Hermitian H, i.e. for intensity preservation in vacuum")
    ctx.rule("R-RELATIVE", "every test of the term amplitude is homogeneous in the wave amplitude (|term|/|wave| vs "
             "tolerance, |term| vs |wave|): convergence must not depend on the normalisation of the wave")
    ctx.rule("R-OPERATOR-ROLE", "across the calls between the series functions the parameter that is called as the "
             "Laplace stencil receives a callable and the wave / transmission parameters receive arrays")
    pending = None
    try:
        repo = ctx.repo
        f = repo.function(FD, "_laplace_operator_stencil")
        df = DataFlow(f.node)
        kernels = []
        for k in _nested_functions(f.node):
            try:
                r = _kernel_terms(ctx, f, k)
            except AnalysisError:
                r = None
            if r is not None:
                kernels.append((k, r))
        roles = _kernel_out(ctx, f, kernels)
        if kernels:
            halves = {r[5] for _, r in kernels}
            if len(halves) == 1:
                _interior(ctx, f, df, kernels, next(iter(halves)))
            _launch(ctx, f, kernels, roles)
        _wrapped(ctx, f, df)
    except AnalysisError as e:
        pending = e
    for part in (_expseries, _operator_roles, _forwarding):
        try:
            part(ctx)
        except AnalysisError as e:
            pending = pending or e
    _inner_run_c37c(ctx)
    if pending is not None:
        raise pending


# ---- added after the seeded change C37-r4seed1: the stencil is the one of the REQUESTED accuracy
_inner_run_c37d = run


def _requested(ctx) -> int:
    from ..rules import asgiven

    repo = ctx.repo
    mod = repo.module(FD)
    fdc = repo.function(FD, "finite_difference_coefficients")
    cls = repo.cls(FD, "LaplaceOperator")
    funcs = list(mod.functions.values()) + [m for defs in cls.methods.values() for m in defs]
    dfs = {id(f): DataFlow(f.node) for f in funcs}

    def at_of(f, node):
        df = dfs[id(f)]
        for st in ast.walk(f.node):
            if isinstance(st, ast.stmt) and not isinstance(st, (ast.FunctionDef, ast.If, ast.For, ast.While, ast.With, ast.Try)):
                if any(n is node for n in walk_no_nested(st)):
                    return df.cfg.node_of(st).idx
        raise AnalysisError(f"{f.qualname}: statement of `{norm_text(node)[:40]}` not found")

    # base role: the parameter that selects the literal table
    roles: dict[str, set] = {}
    for s in walk_no_nested(fdc.node):
        if isinstance(s, ast.Subscript) and dotted(s.value) == "fd_coefficients":
            o = asgiven.origins(fdc, dfs[id(fdc)], s.slice, at_of(fdc, s))
            if len(o) == 1 and next(iter(o))[0] == "param":
                roles.setdefault(fdc.name, set()).add(next(iter(o))[1])
    ctx.require(bool(roles), f"{fdc.qualname}: the parameter that selects the coefficient table was not identified")
    sites = []
    changed = True
    while changed:
        changed = False
        sites = []
        for f in funcs:
            for c in walk_no_nested(f.node):
                if not (isinstance(c, ast.Call) and isinstance(c.func, ast.Name) and c.func.id in roles
                        and c.func.id in mod.functions):
                    continue
                g = mod.functions[c.func.id]
                b = bind_args(c, g)
                for r in sorted(roles[g.name]):
                    arg = b.get(r)
                    if arg is None:
                        sites.append((f, c, g, r, None))
                        continue
                    o = asgiven.origins(f, dfs[id(f)], arg, at_of(f, c))
                    sites.append((f, c, g, r, o))
                    if len(o) == 1 and next(iter(o))[0] == "param" and f.cls is None:
                        p_ = next(iter(o))[1]
                        if p_ not in roles.setdefault(f.name, set()):
                            roles[f.name].add(p_)
                            changed = True
    n = 0
    attrs = set()
    for f, c, g, r, o in sites:
        n += 1
        if o is None:
            ctx.violation("R-REQUESTED", f"{f.qualname}:{g.name}:{r}", f.loc(c),
                          f"`{norm_text(c)[:70]}` does not pass `{r}`: the callee's default order is used whatever was "
                          "requested", key_detail="forward")
            continue
        bad = sorted(asgiven.describe(x) for x in o if x[0] in ("computed", "const"))
        attrs |= {x[1] for x in o if x[0] == "attr"}
        ctx.check(not bad, "R-REQUESTED", f"{f.qualname}:{g.name}:{r}", f.loc(c),
                  f"`{r}` of {g.name} <- " + ", ".join(sorted(asgiven.describe(x) for x in o)),
                  f"`{r}` of {g.name} can be " + ", ".join(bad) + ": the stencil applied is not the one of the requested "
                  "accuracy (e.g. silently lowered on small grids), so a plane wave is multiplied by the eigenvalue of a "
                  "different stencil", key_detail="forward")
    # the attribute the methods read is the constructor argument, stored as given
    for a in sorted(attrs):
        if not a.startswith("self."):
            continue
        stores = []
        for defs in cls.methods.values():
            for m in defs:
                for st in ast.walk(m.node):
                    if isinstance(st, ast.Assign) and any(dotted(t) == a for t in st.targets):
                        stores.append((m, st))
        ctx.require(bool(stores), f"LaplaceOperator: `{a}` is never assigned")
        for m, st in stores:
            o = asgiven.origins(m, dfs[id(m)], st.value, dfs[id(m)].cfg.node_of(st).idx)
            bad = sorted(asgiven.describe(x) for x in o if x[0] != "param")
            n += 1
            ctx.check(not bad, "R-REQUESTED", f"{m.qualname}:{a}", m.loc(st),
                      f"{a} <- " + ", ".join(sorted(asgiven.describe(x) for x in o)),
                      f"`{a}` is set from " + ", ".join(bad) + ", not from the constructor argument as given",
                      key_detail="stored")
    # every construction of the operator passes an order taken as it is from the caller's configuration
    init = cls.methods.get("__init__", [None])[0]
    ctx.require(init is not None, "LaplaceOperator.__init__ not found")
    for modname in ("abtem.multislice", FD):
        m2 = repo.module(modname)
        fl = list(m2.functions.values()) + [m for c_ in m2.classes.values() for defs in c_.methods.values() for m in defs]
        for f in fl:
            for c in walk_no_nested(f.node):
                if isinstance(c, ast.Call) and (dotted(c.func) or "").split(".")[-1] == "LaplaceOperator":
                    df = DataFlow(f.node)
                    arg = c.args[0] if c.args else kw(c, init.positional_params[1])
                    ctx.require(arg is not None, f"{f.qualname}: LaplaceOperator(...) without an accuracy")
                    at = None
                    for st in ast.walk(f.node):
                        if isinstance(st, ast.stmt) and not isinstance(st, (ast.FunctionDef, ast.If, ast.For, ast.While, ast.With, ast.Try)) \
                                and any(x is c for x in walk_no_nested(st)):
                            at = df.cfg.node_of(st).idx
                    ctx.require(at is not None, f"{f.qualname}: statement of LaplaceOperator(...) not found")
                    o = asgiven.origins(f, df, arg, at)
                    bad = sorted(asgiven.describe(x) for x in o if x[0] in ("computed", "const"))
                    n += 1
                    ctx.check(not bad, "R-REQUESTED", f"{f.qualname}:LaplaceOperator", f.loc(c),
                              "accuracy <- " + ", ".join(sorted(asgiven.describe(x) for x in o)),
                              "the operator is built with " + ", ".join(bad) + " instead of the configured derivative "
                              "accuracy", key_detail="construct")
    return n


def run(ctx) -> None:  # noqa: F811
    ctx.rule("R-REQUESTED", "the accuracy order reaches the coefficient table exactly as requested: starting from the "
             "parameter that selects the literal table in finite_difference_coefficients, every call that feeds it (through "
             "any chain of module functions, found by fixpoint) passes a parameter or the operator's stored attribute "
             "unchanged — reaching definitions admit plain assignments and int()/float() only, no arithmetic, min/max or "
             "constant; the attribute is the constructor argument stored as given, and every LaplaceOperator(...) in the "
             "package is built from the configured derivative accuracy.  The property is stated for the stencil of ANY "
             "accuracy: a periodic stencil wider than the grid is well defined, and replacing it by another order "
             "changes the eigenvalue")
    pending = None
    try:
        n = _requested(ctx)
        ctx.require(n >= 6, f"R-REQUESTED examined only {n} instances")
    except AnalysisError as e:
        pending = e
    _inner_run_c37d(ctx)
    if pending is not None:
        raise pending


# ---- added after the seeded change C37-r6seed1: the series is returned only after its convergence test held
_inner_run_c37e = run


def _amp_source(e):
    """abs(X).sum(), xp.sum(xp.abs(X)) -> X"""
    if isinstance(e, ast.Call) and last_attr(e) == "sum":
        inner = e.func.value if isinstance(e.func, ast.Attribute) and not (
            isinstance(e.func.value, ast.Name) and e.args) else (e.args[0] if e.args else None)
        if isinstance(inner, ast.Call) and last_attr(inner) in ("abs", "absolute") and len(inner.args) == 1 and \
                isinstance(inner.args[0], ast.Name):
            return inner.args[0].id
    return None


class _AmpNorm(FlowNormalizer):
    """amplitudes of the result / of the series term become atoms AMP:<role>; a name counts as an amplitude when every
    definition that reaches the test computes the amplitude of the same array."""

    def __init__(self, df, at, roles: dict):
        super().__init__(df, at, call_hook=self._hook)
        self.roles = roles

    def _hook(self, nz, c):
        s = _amp_source(c)
        return Poly.atom("AMP:" + self.roles[s]) if s in self.roles else None

    def _name(self, name):
        rd = self.df.reaching(self._at[-1], name)
        srcs = {_amp_source(d.value) if (d.strong and d.kind == "assign" and isinstance(d.value, ast.expr)) else None
                for d in rd}
        if len(rd) >= 1 and len(srcs) == 1 and next(iter(srcs)) in self.roles:
            return Poly.atom("AMP:" + self.roles[next(iter(srcs))])
        return super()._name(name)


def _conv_polarity(df, at: int, l: ast.expr, op: ast.cmpop, r: ast.expr, roles: dict):
    """+1: the comparison being true bounds the amplitude of the series term from above by a tolerance (a symbolic
    quantity, or a literal fraction < 1 of the wave amplitude); -1: its being false does; None: neither."""
    if not isinstance(op, (ast.Lt, ast.LtE, ast.Gt, ast.GtE)):
        return None
    nz = _AmpNorm(df, at, roles)
    d = nz.norm(l) - nz.norm(r)
    if isinstance(op, (ast.Gt, ast.GtE)):
        d = -d
    T = "AMP:term"
    tm = {m: c for m, c in d.terms.items() if any(a == T for a, _ in m)}
    if not tm:
        return None
    signs = {(1 if c > 0 else -1) * (1 if dict(m)[T] > 0 else -1) for m, c in tm.items()}
    if len(signs) != 1:
        return None
    up = signs == {1}  # d grows with the term amplitude: d <= 0 is an upper bound on it
    symbolic = any(not a.startswith("AMP:") for m in d.terms for a, _ in m)
    if not symbolic:
        rest = {m: c for m, c in d.terms.items() if m not in tm}
        if len(tm) != 1 or len(rest) != 1:
            return None
        (m1, c1), = tm.items()
        (m2, c2), = rest.items()
        ratio = Poly({m1: c1}) * Poly({m2: c2}).inverse()  # c * AMP:term / AMP:wave
        want = Poly.atom(T) * Poly.atom("AMP:wave").inverse()
        k = (ratio * want.inverse()).const_value()
        if k is None or k == 0:
            return None
        bound = -1 / k  # term / wave  <(=)  bound   (or >(=) for a lower bound)
        if not (0 < bound < 1):
            return None
    return 1 if up else -1


def _converged(ctx) -> None:
    from ..rules.exitpaths import Explorer, split_compare

    repo = ctx.repo
    f = repo.function(FD, "_multislice_exponential_series")
    df = DataFlow(f.node)
    cfg = df.cfg
    rets = [r for r in walk_no_nested(f.node) if isinstance(r, ast.Return) and r.value is not None]
    ctx.require(rets and all(isinstance(r.value, ast.Name) for r in rets) and len({r.value.id for r in rets}) == 1,
                f"{f.qualname}: the result is not one accumulated variable")
    acc = rets[0].value.id
    adds = {_adds_to(st, acc) for st in walk_no_nested(f.node) if isinstance(st, ast.stmt) and _adds_to(st, acc)}
    ctx.require(len(adds) == 1, f"{f.qualname}: cannot identify the series term added to `{acc}`")
    term = next(iter(adds))
    loops = [l for l in walk_no_nested(f.node) if isinstance(l, (ast.For, ast.While)) and
             any(_defines(s, term) for s in l.body) and
             any(_adds_to(s, acc) for st in l.body for s in ast.walk(st) if isinstance(s, ast.stmt))]
    ctx.require(len(loops) == 1, f"{f.qualname}: the series loop was not found")
    L = loops[0]
    hL = cfg.node_of(L).idx
    roles = {acc: "wave", term: "term"}
    cache: dict = {}

    def polarity(at, l, op, r):
        k = (at, ast.dump(l), type(op).__name__, ast.dump(r))
        if k not in cache:
            cache[k] = _conv_polarity(df, at, l, op, r, roles)
        return cache[k]

    conv_tests: dict[str, None] = {}

    def on_edge(node, label, atoms, marks):
        m = set(marks)
        if node.idx == hL:
            m.add("passed")
            if label == "T":
                m.discard("conv")
                m.discard("exhausted")
            else:
                m.add("exhausted")
        for a, t in atoms:
            if not isinstance(a, ast.Compare):
                continue
            for l, op, r in split_compare(a):
                pol = polarity(node.idx, l, op, r)
                if pol is not None:
                    conv_tests.setdefault(norm_text(a), None)
                if (pol == 1 and t) or (pol == -1 and not t):
                    m.add("conv")
        return m

    ex = Explorer(f.node, df, on_edge=on_edge).run()
    # an unreadable loop header: nothing is known about the loop variable after the loop — do not guess
    if isinstance(L, ast.For) and ex._range(L) is None:
        tnames = {n.id for n in ast.walk(L.target) if isinstance(n, ast.Name)}
        body = cfg.loop_body_nodes(hL)
        for n in cfg.nodes:
            if n.kind == "test" and n.idx not in body and tnames & {x.id for x in ast.walk(n.ast.test) if isinstance(x, ast.Name)}:
                raise AnalysisError(f"{f.qualname}: a test after the series loop reads its loop variable, but the loop is "
                                    f"not over range(lo, hi): `{norm_text(L.iter)[:50]}`")
    ctx.require(bool(conv_tests), f"{f.qualname}: no test that bounds the amplitude of the series term by a tolerance")
    through = [(idx, st) for idx, st in ex.outcomes if "passed" in st.marks]
    good = [(idx, st) for idx, st in through if "conv" in st.marks]
    bad = [(idx, st) for idx, st in through if "conv" not in st.marks]
    ctx.require(bool(good) or bool(bad), f"{f.qualname}: no normal exit behind the series loop")
    cons = f"{f.qualname}:returns only a converged series"
    can_exhaust = any(cfg.elabel.get((hL, s_)) == "F" for s_ in cfg.nodes[hL].succ)
    tests = " / ".join(f"`{t}`" for t in conv_tests)
    loop_txt = norm_text(L.iter) if isinstance(L, ast.For) else norm_text(L.test)
    if not bad:
        ctx.ok("R-CONVERGED", cons, f.loc(L),
               f"{len(good)} path state(s) reach a normal exit behind the series loop, each through the edge of {tests} "
               f"on which the term is below the tolerance; " + (
                   f"the path on which `{loop_txt}` is used up ends in a raise" if can_exhaust else
                   "the loop has no exhaustion edge, it is left by break / return / raise only")
               + (f" ({len(ex.pruned)} infeasible edge(s) pruned)" if ex.pruned else ""))
        return
    seen = set()
    for idx, st in bad:
        kind = "exhausted" if "exhausted" in st.marks else "left-untested"
        if kind in seen:
            continue
        seen.add(kind)
        node = cfg.nodes[idx]
        exit_txt = f"`{norm_text(node.ast)[:40]}`" if isinstance(node.ast, ast.Return) else "the end of the function"
        dead = []
        for pidx, lab, txt in ex.pruned:
            if pidx not in cfg.loop_body_nodes(hL) and pidx != hL:
                eq = ", ".join(f"{n} == {_pretty(p)}" for n, p in sorted(st.eqs, key=lambda x: x[0]))
                dead.append(f"`{txt}` is never {'true' if lab == 'T' else 'false'} there" + (f" ({eq})" if eq else ""))
        if kind == "exhausted":
            why = (f"when `{loop_txt}` is used up without the convergence test {tests} ever holding, control still reaches "
                   f"{exit_txt}" + ("; " + "; ".join(dead) if dead else "") + ": a truncated, non-converged Taylor series "
                   "is returned as if it were exp(i dz H) applied to the wave — it is not unitary, so vacuum propagation "
                   "does not preserve the intensity of a band-limited wave; this path has to end in a raise")
        else:
            why = (f"the series loop can be left towards {exit_txt} in an iteration in which the convergence test {tests} "
                   "did not hold: a truncated, non-converged Taylor series is returned, which is not unitary")
        ctx.violation("R-CONVERGED", cons, f.loc(node.ast) if node.ast is not None else f.loc(L), why, key_detail=kind)


def run(ctx) -> None:  # noqa: F811
    from ..rules import deferred

    ctx.rule("R-CONVERGED", "_multislice_exponential_series leaves normally only on paths on which, in the last iteration "
             "of the series loop, a test held that bounds the amplitude of the series term by the tolerance (an upper "
             "bound on |term| relative to |wave| by a symbolic quantity or a literal fraction < 1; the divergence test "
             "|term| <= |wave| is not one).  Decided path-sensitively on the CFG with truth values of flags and linear "
             "facts about counters: after `for k in range(a, b)` is used up, k == b - 1 (or the loop ran zero times: "
             "b <= a and k is unbound / unchanged); after `while T` is left through its condition, not T; edges whose "
             "test these facts refute are pruned, every remaining path from the exhaustion edge must reach a raise "
             "before a normal exit.  Necessary for intensity preservation: the truncated Taylor polynomial of "
             "exp(i dz H) is not unitary, only the converged series is (to the tolerance)")
    deferred.run(ctx, lambda: _converged(ctx), _inner_run_c37e)
