"""C05 — built probes and plane waves are normalized (abtem/waves.py).

R-TERM        PlaneWave._calculate_array fill values (term normal form 1/N and 1)
R-PRESERVE    what happens to the plane wave after the fill keeps every value (modulus domain)
R-ORDER-NORM  Probe._calculate_array: normalize() is on every path to the return and nothing after it changes
              the reciprocal-space intensity
R-CNORM       _WavesNormalization divides by sqrt(sum |array|^2) over the two grid axes (complex-safe norm)
R-NORMSPACE   ... computed while the array is in reciprocal space, and the array is handed back in the space it came in
"""
from __future__ import annotations

import ast
from fractions import Fraction

from ..cfg import CFG, DataFlow, forward_states
from ..model import AnalysisError, ClassInfo, FuncInfo, call_name, dotted, kw, last_attr, norm_text, walk_no_nested
from ..rules import modulus as M
from ..terms import FlowNormalizer, Poly

W = "abtem.waves"
PRESERVING_WAVES_METHODS = {"ensure_real_space", "ensure_reciprocal_space", "copy", "compute", "to_cpu", "to_gpu",
                            "copy_to_device", "ensure_lazy", "rechunk"}
REAL_ATTRS = {"gpts", "sampling", "energy", "extent", "wavelength", "_valid_gpts", "_valid_sampling", "_valid_energy"}
OPAQUE_ATTRS = {"device", "ensemble_shape", "shape", "metadata", "ensemble_axes_metadata", "is_lazy"}


# ====================================================================== helpers
def _annotation_names(ann: ast.expr | None) -> list[str]:
    if ann is None:
        return []
    if isinstance(ann, ast.Constant) and isinstance(ann.value, str):
        try:
            return _annotation_names(ast.parse(ann.value, mode="eval").body)
        except SyntaxError:
            return []
    if isinstance(ann, ast.BinOp) and isinstance(ann.op, ast.BitOr):
        return _annotation_names(ann.left) + _annotation_names(ann.right)
    if isinstance(ann, ast.Subscript):
        base = dotted(ann.value) or ""
        if base.split(".")[-1] in ("Optional", "Union"):
            sl = ann.slice
            return sum((_annotation_names(e) for e in (sl.elts if isinstance(sl, ast.Tuple) else [sl])), [])
        return _annotation_names(ann.value)
    d = dotted(ann)
    return [d] if d and d != "None" else []


def property_classes(repo, cls: ClassInfo, prop: str) -> list[ClassInfo]:
    """Classes an attribute `obj.<prop>` of an instance of `cls` may hold: the getter's return annotation,
    else the annotation of whatever the class stores into the attribute the getter returns."""
    getter = cls.find_method(prop, "getter")
    if getter is None or not getter.is_property:
        return []
    names = _annotation_names(getter.node.returns)
    mod = getter.module
    if not names:
        backing = None
        for r in walk_no_nested(getter.node):
            if isinstance(r, ast.Return) and r.value is not None and (dotted(r.value) or "").startswith("self."):
                backing = dotted(r.value)
        if backing is None:
            return []
        for k in cls.mro():
            for defs in k.methods.values():
                for f in defs:
                    for st in walk_no_nested(f.node):
                        if isinstance(st, ast.Assign) and any(dotted(t) == backing for t in st.targets) and \
                                isinstance(st.value, ast.Call):
                            t = repo.resolve_name(f.module, call_name(st.value) or "")
                            if isinstance(t, FuncInfo):
                                names += _annotation_names(t.node.returns)
                                mod = t.module
                            elif isinstance(t, ClassInfo):
                                names.append(t.name)
                                mod = t.module
    out = []
    for nm in names:
        t = repo.resolve_name(mod, nm)
        if t is None:
            try:
                t = repo.find_class(nm.split(".")[-1])
            except AnalysisError:
                t = None
        if isinstance(t, ClassInfo) and t not in out:
            out.append(t)
    return out


def _interp(repo) -> M.Interp:
    def call_oracle(ip, call, ftext, args, kwargs):
        if ftext.split(".")[-1] in ("_unpack_distributions",):
            return M.TupV((M.SeqV(M.real()), M.real()))  # (parameter values, ensemble weights): real numbers
        return None

    def attr_oracle(base, attr, text):
        if attr == "[]":
            return M.real()  # entries of parameter dictionaries (aberration coefficients) are real numbers
        if attr in REAL_ATTRS:
            return M.real()
        if attr in OPAQUE_ATTRS:
            return M.Opaque("object", text)
        return None

    return M.Interp(repo, attr_oracle=attr_oracle, call_oracle=call_oracle)


def transform_effect(repo, ip: M.Interp, classes: list[ClassInfo]):
    """Effect on the reciprocal-space intensity of `X.apply(waves)` for X in `classes`.

    -> ('preserve', text) when, for every class (and its subclasses), the new array is provably the old one
       times a factor of modulus 1 (ReciprocalSpaceMultiplication kernels) or a value-preserving copy;
       ('change', text) when some class is provably not; ('unknown', text) otherwise."""
    if not classes:
        return "unknown", "class of the transform not resolved"
    todo: list[ClassInfo] = []
    for c in classes:
        for k in [c] + repo.subclasses(c):
            if k not in todo:
                todo.append(k)
    verdict, notes = "preserve", []
    n_done = 0
    for c in todo:
        cna = c.find_method("_calculate_new_array")
        if cna is None or cna.is_abstract:
            continue
        rsm = any(k.name == "ReciprocalSpaceMultiplication" for k in c.mro()) and cna.cls is not None and \
            cna.cls.name == "ReciprocalSpaceMultiplication"
        if rsm:
            kern = c.find_method("_evaluate_from_angular_grid") or c.find_method("_evaluate_kernel")
            if kern is None or kern.is_abstract:
                continue
            params = kern.positional_params[1:]
            s = ip.run(kern, {p: M.real() for p in params}, self_val=M.Opaque("object", "self", c))
            a = M.as_av(s.value)
            n_done += 1
            if a.eq1():
                notes.append(f"{c.name}: kernel modulus = 1")
            elif [n for n in a.notes if n.startswith("unknown:")]:
                verdict = "unknown" if verdict != "change" else verdict
                notes.append(f"{c.name}: kernel not bounded ({a.describe()[:120]})")
            else:
                verdict = "change"
                notes.append(f"{c.name}: kernel {a.describe()[:80]}")
        else:
            marker = M.real(0.25, 0.25)
            wp = cna.positional_params[1]
            s = ip.run(cna, {wp: M.ObjV("Waves", marker)}, self_val=M.Opaque("object", "self", c))
            a = M.as_av(s.value)
            n_done += 1
            if a == marker:
                notes.append(f"{c.name}: value-preserving copy")
            elif [n for n in a.notes if n.startswith("unknown:")]:
                verdict = "unknown" if verdict != "change" else verdict
                notes.append(f"{c.name}: new array not bounded ({a.describe()[:120]})")
            else:
                verdict = "change"
                notes.append(f"{c.name}: new array {a.describe()[:80]}")
    if n_done == 0:
        return "unknown", "no concrete _calculate_new_array found"
    return verdict, "; ".join(notes)


# ====================================================================== term hooks
def _alloc_hook(nz, call: ast.Call):
    s = last_attr(call)
    if s == "full" and len(call.args) >= 2:
        return nz.norm(call.args[1])
    if s == "full" and kw(call, "fill_value") is not None:
        return nz.norm(kw(call, "fill_value"))
    if s == "ones":
        return Poly.const(1)
    if s == "zeros":
        return Poly.const(0)
    if s == "prod" and len(call.args) == 1 and not isinstance(call.args[0], (ast.Tuple, ast.List)):
        return Poly.atom(f"N[{_bare(nz.norm(call.args[0]).key())}]")
    return None


def _bare(k: str) -> str:
    return k[2:] if k.startswith("1*") else k


class _ArmNorm(FlowNormalizer):
    """Resolves `a if <builder>.normalize else b` under an assumed value of the flag."""

    def __init__(self, df, idx, choose: bool, flag_test, **kw_):
        super().__init__(df, idx, **kw_)
        self.choose = choose
        self.flag_test = flag_test

    def norm(self, n):
        if isinstance(n, ast.IfExp):
            pol = self.flag_test(n.test)
            if pol != 0:
                return self.norm(n.body if (pol == 1) == self.choose else n.orelse)
        return super().norm(n)


def _norm_hook(nz, call: ast.Call):
    """abs2(X) -> |X|^2 ; abs(X) -> |X| ; X.sum(axes, keepdims) / xp.sum(X, axis=..) -> Σ[axes](..)."""
    s = last_attr(call)
    if s == "abs2" and len(call.args) == 1:
        return Poly.atom(f"|{_bare(nz.norm(call.args[0]).key())}|").power(Fraction(2))
    if s in ("abs", "absolute") and len(call.args) == 1:
        return Poly.atom(f"|{_bare(nz.norm(call.args[0]).key())}|")
    if s in ("conj", "conjugate"):
        tgt = call.args[0] if call.args else (call.func.value if isinstance(call.func, ast.Attribute) else None)
        if tgt is not None:
            return Poly.atom(f"conj({_bare(nz.norm(tgt).key())})")
    if s == "sum" and isinstance(call.func, ast.Attribute):
        recv_is_module = dotted(call.func.value) in ("np", "xp", "cp", "numpy")
        inner = call.args[0] if recv_is_module and call.args else call.func.value
        rest = call.args[1:] if recv_is_module else call.args
        ax = kw(call, "axis") or (rest[0] if rest else None)
        keep = kw(call, "keepdims")
        axes = _axes_text(ax)
        keep_t = "keep" if isinstance(keep, ast.Constant) and keep.value is True else "drop"
        p = _fold_conj(nz.norm(inner))
        return Poly.atom(f"Σ[{axes};{keep_t}]({p.key()})")
    return None


def _fold_conj(p: Poly) -> Poly:
    """X * conj(X) -> |X|^2 inside a monomial."""
    out = Poly()
    for mono, c in p.terms.items():
        d = dict(mono)
        for a in list(d):
            ca = f"conj({a})"
            if ca in d and d.get(a) == 1 and d[ca] == 1:
                del d[a], d[ca]
                d[f"|{a}|"] = d.get(f"|{a}|", Fraction(0)) + 2
        out = out + Poly({tuple(sorted(d.items())): c})
    return out


def _axes_text(ax) -> str:
    if ax is None:
        return "all"
    try:
        v = ast.literal_eval(ax)
    except Exception:
        return norm_text(ax)
    if isinstance(v, int):
        v = (v,)
    return ",".join(str(i) for i in sorted(v))


# ====================================================================== main
def run(ctx) -> None:
    repo = ctx.repo
    ctx.rule("R-TERM", "PlaneWave._calculate_array: under normalize the array is filled with 1/N, N = number of grid "
             "points of the allocated array (then sum |FFT c|^2 = (cN)^2 = 1 iff c = 1/N); otherwise with 1")
    ctx.rule("R-PRESERVE", "every operation between that fill and the returned array keeps each value (the tilt "
             "transform only tiles the array: modulus-domain interpretation of its _calculate_new_array)")
    ctx.rule("R-ORDER-NORM", "Probe._calculate_array: a normalize() call (reciprocal space) lies on every path to the "
             "return and no transform reachable after it changes the reciprocal-space intensity (only unit-modulus "
             "reciprocal-space kernels, value-preserving copies and changes of representation)")
    ctx.rule("R-CNORM", "_WavesNormalization divides the array, on both the in-place and the copying arm, by "
             "sqrt(sum over the two grid axes of |array|^2) with keepdims — a complex-safe norm taken per ensemble member")
    ctx.rule("R-NORMSPACE", "the norm is computed while the array is in reciprocal space (fft2 applied first when the "
             "waves are in real space) and the array is returned in the representation it came in")
    ctx.assume("fft2/ifft2 are mutually inverse; multiplying a reciprocal-space array by a unit-modulus kernel keeps "
               "sum |array|^2")
    ctx.undecided("numerical unit norm (floating point); zero-intensity waves (division by zero)")
    ctx.undecided("lazy (dask) construction of the same arrays (C01)")

    ip = _interp(repo)
    _plane_wave(ctx, ip)
    _probe(ctx, ip)
    _normalization(ctx)


# ====================================================================== PlaneWave
def _flag_test_factory(attr: str):
    def flag_test(t: ast.expr) -> int:
        if isinstance(t, ast.UnaryOp) and isinstance(t.op, ast.Not):
            return -flag_test(t.operand)
        if isinstance(t, ast.Attribute) and t.attr in (attr, "_" + attr):
            return 1
        if isinstance(t, ast.Compare) and len(t.ops) == 1 and isinstance(t.comparators[0], ast.Constant) and \
                isinstance(t.comparators[0].value, bool) and isinstance(t.ops[0], (ast.Is, ast.Eq)):
            return flag_test(t.left) * (1 if t.comparators[0].value else -1)
        return 0

    return flag_test


def _arm_of(f: FuncInfo, stmt: ast.stmt, flag_test) -> int:
    """+1 / -1 when `stmt` sits in an arm that executes only when the flag is true / false, 0 otherwise."""

    def search(body, pol: int):
        for st in body:
            if st is stmt:
                return pol
            if isinstance(st, ast.If):
                p = flag_test(st.test)
                for arm, sign in ((st.body, 1), (st.orelse, -1)):
                    if any(m is stmt for b in arm for m in ast.walk(b)):
                        return search(arm, p * sign if p != 0 else pol)
            else:
                for fld in ("body", "orelse", "finalbody"):
                    sub = getattr(st, fld, None)
                    if isinstance(sub, list) and any(m is stmt for b in sub for m in ast.walk(b)):
                        return search(sub, pol)
        return None

    r = search(f.node.body, 0)
    if r is None:
        raise AnalysisError(f"{f.qualname}: statement at line {stmt.lineno} not found in the body")
    return r


def _plane_wave(ctx, ip: M.Interp) -> None:
    repo = ctx.repo
    pw = repo.method(W, "PlaneWave", "_calculate_array")
    pwc = repo.cls(W, "PlaneWave")
    ctx.require(pwc.find_method("normalize") is not None, "PlaneWave.normalize property not found")
    df = DataFlow(pw.node)
    flag_test = _flag_test_factory("normalize")
    wcalls = [c for c in walk_no_nested(pw.node) if isinstance(c, ast.Call) and
              getattr(repo.resolve_name(pw.module, call_name(c) or ""), "name", None) == "Waves"]
    ctx.require(len(wcalls) == 1, f"{pw.qualname}: expected one Waves(...) construction, found {len(wcalls)}")
    wc = wcalls[0]
    arr = wc.args[0] if wc.args else kw(wc, "array")
    ctx.require(isinstance(arr, ast.Name), f"{pw.qualname}: Waves(...) is not given a named array")
    wnode = None
    for n in df.cfg.nodes:
        if n.kind == "stmt" and n.ast is not None and any(m is wc for m in ast.walk(n.ast)):
            wnode = n.idx
    ctx.require(wnode is not None, f"{pw.qualname}: Waves(...) statement has no CFG node")
    defs = df.reaching(wnode, arr.id)
    ctx.require(all(d.kind == "assign" and d.strong for d in defs) and defs,
                f"{pw.qualname}: `{arr.id}` is not defined by plain assignments")
    for choose, label in ((True, "normalize"), (False, "values")):
        feas = []
        for d in defs:
            pol = _arm_of(pw, df.cfg.nodes[d.node].ast, flag_test)
            if pol == 0 or (pol == 1) == choose:
                feas.append(d)
        ctx.require(len(feas) == 1, f"{pw.qualname}: {len(feas)} definitions of `{arr.id}` are feasible when normalize is "
                                    f"{choose}; expected exactly one")
        d = feas[0]
        st = df.cfg.nodes[d.node].ast
        nz = _ArmNorm(df, d.node, choose, flag_test, call_hook=_alloc_hook)
        p = nz.norm(d.value)
        allocs = [c for c in ast.walk(d.value) if isinstance(c, ast.Call) and last_attr(c) in ("full", "ones", "zeros",
                                                                                               "empty")]
        ctx.require(len(allocs) == 1, f"{pw.qualname}: allocation call not found in `{norm_text(d.value)[:60]}`")
        shape = allocs[0].args[0] if allocs[0].args else kw(allocs[0], "shape")
        ctx.require(shape is not None, f"{pw.qualname}: allocation without a shape")
        sk = _bare(FlowNormalizer(df, d.node).norm(shape).key())
        if choose:
            nz0 = FlowNormalizer(df, d.node)
            comps = [nz0.norm(ast.Subscript(value=shape, slice=ast.Constant(value=i), ctx=ast.Load())) for i in (0, 1)]
            want = [Poly.atom(f"N[{sk}]").inverse(), (comps[0] * comps[1]).inverse()]
            ctx.check(p in want, "R-TERM", f"{pw.qualname}:fill[normalize]", pw.loc(st),
                      f"fill value {p.key()} = 1/N with N the number of points of the allocated shape {sk}",
                      f"under normalize the array of shape {sk} is filled with {p.key()}, not with 1/prod({sk}): "
                      "the reciprocal-space intensity of the built wave is not 1", key_detail="normalize")
        else:
            ctx.check(p == Poly.const(1), "R-TERM", f"{pw.qualname}:fill[values]", pw.loc(st),
                      "fill value 1 (unit modulus at every pixel)",
                      f"without normalize the array is filled with {p.key()}, not 1", key_detail="values")
    # metadata flag agrees with the arm
    # ---- R-PRESERVE: what happens between Waves(array) and the return
    rets = [r for r in walk_no_nested(pw.node) if isinstance(r, ast.Return) and r.value is not None]
    ctx.require(len(rets) == 1 and isinstance(rets[0].value, ast.Attribute) and rets[0].value.attr in M.ARRAY_ATTRS
                and isinstance(rets[0].value.value, ast.Name), f"{pw.qualname}: return is not `<waves>.<array>`")
    var = _wave_chain(pw, rets[0].value.value.id)
    n_tr = 0
    for st in walk_no_nested(pw.node):
        if not (isinstance(st, ast.Assign) and any(isinstance(t, ast.Name) and t.id in var for t in st.targets)):
            continue
        v = st.value
        if isinstance(v, ast.Call) and v is wc:
            continue
        n_tr += 1
        kind, text = _classify_transform(repo, ip, pw, pwc, v, var)
        cons = f"{pw.qualname}:after-fill `{norm_text(v)[:50]}`"
        if kind == "preserve":
            ctx.ok("R-PRESERVE", cons, pw.loc(st), text)
        elif kind == "unknown":
            raise AnalysisError(f"{cons}: cannot decide whether the operation keeps the values ({text})")
        else:
            ctx.violation("R-PRESERVE", cons, pw.loc(st),
                          f"the filled plane wave is modified before it is returned ({text}): neither the unit "
                          "intensity nor the unit modulus survives", key_detail="changed")
    ctx.require(n_tr >= 1, f"{pw.qualname}: the tilt transform between fill and return was not found")


def _wave_chain(f: FuncInfo, var: str) -> set[str]:
    """Names through which the wave object flows into `var`: X = T.apply(Y) / X = Y.method() / X = Y."""
    chain = {var}
    changed = True
    while changed:
        changed = False
        for st in walk_no_nested(f.node):
            if isinstance(st, ast.Assign) and any(isinstance(t, ast.Name) and t.id in chain for t in st.targets):
                v = st.value
                src = None
                if isinstance(v, ast.Name):
                    src = v.id
                elif isinstance(v, ast.Call) and isinstance(v.func, ast.Attribute):
                    if isinstance(v.func.value, ast.Name) and v.func.attr != "apply":
                        src = v.func.value.id
                    elif v.func.attr == "apply" and v.args and isinstance(v.args[0], ast.Name):
                        src = v.args[0].id
                if src is not None and src not in chain:
                    chain.add(src)
                    changed = True
    return chain


def _classify_transform(repo, ip, f: FuncInfo, owner: ClassInfo, v: ast.expr, var):
    """Classify `v` (the new value of a wave variable; `var` = name or set of names of the wave chain)."""
    names = {var} if isinstance(var, str) else set(var)
    if isinstance(v, ast.Name) and v.id in names:
        return "preserve", "alias"
    if isinstance(v, ast.Call) and isinstance(v.func, ast.Attribute):
        recv, m = v.func.value, v.func.attr
        if isinstance(recv, ast.Name) and recv.id in names:
            if m == "normalize":
                sp = kw(v, "space") or (v.args[0] if v.args else None)
                if sp is None:
                    wn = repo.method(W, "Waves", "normalize")
                    sp = wn.defaults().get("space")
                if isinstance(sp, ast.Constant) and sp.value == "reciprocal":
                    return "normalize", "normalize(space='reciprocal')"
                return "change", f"normalize in space {norm_text(sp) if sp is not None else '?'}"
            if m in PRESERVING_WAVES_METHODS:
                return "preserve", f"Waves.{m} changes representation only"
            return "unknown", f"Waves.{m} not modelled"
        if m == "apply" and v.args and isinstance(v.args[0], ast.Name) and v.args[0].id in names and \
                isinstance(recv, ast.Attribute):
            classes = property_classes(repo, owner, recv.attr)
            kind, text = transform_effect(repo, ip, classes)
            return kind, f"{recv.attr}.apply: {text}"
    return "unknown", f"`{norm_text(v)[:60]}` not modelled"


# ====================================================================== Probe
def _probe(ctx, ip: M.Interp) -> None:
    repo = ctx.repo
    pr = repo.method(W, "Probe", "_calculate_array")
    prc = repo.cls(W, "Probe")
    cfg = CFG(pr.node)
    rets = [r for r in walk_no_nested(pr.node) if isinstance(r, ast.Return) and r.value is not None]
    ctx.require(len(rets) >= 1 and all(isinstance(r.value, ast.Attribute) and r.value.attr in M.ARRAY_ATTRS and
                                       isinstance(r.value.value, ast.Name) for r in rets),
                f"{pr.qualname}: return is not `<waves>.<array>`")
    var = set()
    for r in rets:
        var |= _wave_chain(pr, r.value.value.id)
    steps = []  # (node idx, stmt, kind, text)
    for n in cfg.nodes:
        st = n.ast
        if n.kind != "stmt" or not isinstance(st, ast.Assign):
            continue
        if not any(isinstance(t, ast.Name) and t.id in var for t in st.targets):
            continue
        v = st.value
        if isinstance(v, ast.Call) and getattr(repo.resolve_name(pr.module, call_name(v) or ""), "name", None) == "Waves":
            steps.append((n.idx, st, "construct", "Waves(...) from the position kernel"))
            continue
        kind, text = _classify_transform(repo, ip, pr, prc, v, var)
        steps.append((n.idx, st, kind, text))
    ctx.require(any(k == "construct" for _, _, k, _ in steps), f"{pr.qualname}: Waves(...) construction not found")
    norms = {i for i, _, k, _ in steps if k == "normalize"}
    for r in rets:
        rn = cfg.node_of(r).idx
        covered = bool(norms) and not cfg.paths_avoiding(cfg.entry, rn, norms)
        ctx.check(covered, "R-ORDER-NORM", f"{pr.qualname}:normalize-on-every-path", pr.loc(r),
                  "every path to the return passes waves.normalize() in reciprocal space",
                  "a path reaches the return without normalising the probe in reciprocal space" if norms else
                  "the probe is never normalised (no waves.normalize() with space='reciprocal')", key_detail="missing")
    for i, st, kind, text in steps:
        if kind == "normalize":
            ctx.ok("R-ORDER-NORM", f"{pr.qualname}:step `{norm_text(st.value)[:50]}`", pr.loc(st), text)
            continue
        after = any(cfg.paths_avoiding(n, i, set()) for n in norms)
        cons = f"{pr.qualname}:step `{norm_text(st.value)[:50]}`"
        if not after:
            ctx.ok("R-ORDER-NORM", cons, pr.loc(st), f"before normalize ({kind}: {text[:100]})")
        elif kind == "preserve":
            ctx.ok("R-ORDER-NORM", cons, pr.loc(st), f"after normalize, intensity-preserving: {text[:160]}")
        elif kind == "unknown":
            raise AnalysisError(f"{cons}: runs after normalize and its effect on the intensity is not decided ({text})")
        else:
            ctx.violation("R-ORDER-NORM", cons, pr.loc(st),
                          f"this step runs after normalize() and changes the reciprocal-space intensity ({text[:200]}): "
                          "the built probe no longer has unit intensity", key_detail="after-normalize")


# ====================================================================== _WavesNormalization
def _normalization(ctx) -> None:
    repo = ctx.repo
    f = repo.method(W, "_WavesNormalization", "_calculate_new_array")
    df = DataFlow(f.node)
    cfg = df.cfg
    rets = [r for r in walk_no_nested(f.node) if isinstance(r, ast.Return) and r.value is not None]
    ctx.require(len(rets) >= 1 and all(isinstance(r.value, ast.Name) for r in rets),
                f"{f.qualname}: return is not a plain array variable")
    var = rets[0].value.id
    wparam = f.positional_params[1]
    # ---- divisions of the array variable
    divs = []  # (node idx, stmt, divisor expr)
    for n in cfg.nodes:
        st = n.ast
        if n.kind != "stmt":
            continue
        if isinstance(st, ast.AugAssign) and isinstance(st.target, ast.Name) and st.target.id == var and \
                isinstance(st.op, ast.Div):
            divs.append((n.idx, st, st.value))
        elif isinstance(st, ast.Assign) and any(isinstance(t, ast.Name) and t.id == var for t in st.targets) and \
                isinstance(st.value, ast.BinOp) and isinstance(st.value.op, ast.Div) and \
                isinstance(st.value.left, ast.Name) and st.value.left.id == var:
            divs.append((n.idx, st, st.value.right))
    ctx.require(len(divs) >= 1, f"{f.qualname}: no division of `{var}` by a norm found")
    want = Poly.atom(f"Σ[-2,-1;keep](1*|{var}|^2)").power(Fraction(1, 2))
    norm_nodes = set()
    for idx, st, dv in divs:
        nz = FlowNormalizer(df, idx, call_hook=_norm_hook)
        nz.no_inline.add(var)
        p = nz.norm(dv)
        ctx.check(p == want, "R-CNORM", f"{f.qualname}:divide `{norm_text(st)[:40]}`", f.loc(st),
                  f"divisor {p.key()} is the L2 norm over the grid axes of |{var}|",
                  f"`{norm_text(st)}` divides by {p.key()}, not by sqrt(sum_(-2,-1) |{var}|^2) kept per ensemble member: "
                  "for a complex array (aberrations, tilt, positions) the result does not have unit intensity",
                  key_detail="divisor")
        if isinstance(dv, ast.Name):
            d = df.single_def(idx, dv.id)
            if d is not None:
                norm_nodes.add(d.node)
        else:
            norm_nodes.add(idx)
    # every return is preceded by a division on every path through the 'reciprocal' arm:
    dnodes = {i for i, _, _ in divs}
    for r in rets:
        rn = cfg.node_of(r).idx
        ok = not cfg.paths_avoiding(cfg.entry, rn, dnodes)
        ctx.check(ok, "R-CNORM", f"{f.qualname}:division-on-every-path", f.loc(r),
                  "every path to the return divides by the norm (in-place and copying arm)",
                  "a path returns the array without dividing it by its norm", key_detail="path")

    # ---- R-NORMSPACE typestate: (flag, nfft) ; flag = value of waves._reciprocal_space: None/True/False
    def flag_pol(t: ast.expr) -> int:
        if isinstance(t, ast.UnaryOp) and isinstance(t.op, ast.Not):
            return -flag_pol(t.operand)
        if isinstance(t, ast.Attribute) and t.attr in ("_reciprocal_space", "reciprocal_space") and \
                dotted(t.value) == wparam:
            return 1
        return 0

    def transfer(node, state, label, succ):
        flag, n = state
        st = node.ast
        if node.kind == "test" and isinstance(st, ast.If):
            pol = flag_pol(st.test)
            if pol != 0 and label in ("T", "F"):
                val = (label == "T") == (pol == 1)
                if flag is not None and flag != val:
                    return None
                return (val, n)
            return state
        if node.kind == "stmt" and isinstance(st, (ast.Assign, ast.AugAssign)):
            tgt = st.targets[0] if isinstance(st, ast.Assign) else st.target
            if isinstance(tgt, ast.Name) and tgt.id == var and isinstance(st.value, ast.Call):
                s = last_attr(st.value)
                src = st.value.args[0] if st.value.args else None
                if s in ("fft2", "ifft2") and not (isinstance(src, ast.Name) and src.id == var):
                    raise AnalysisError(f"{f.qualname}: {s} applied to something other than `{var}`")
                if s == "fft2":
                    return (flag, n + 1)
                if s == "ifft2":
                    return (flag, n - 1)
        return state

    at = forward_states(cfg, (None, 0), transfer)

    def recip(state) -> bool:
        flag, n = state
        return (flag is True and n == 0) or (flag is False and n == 1)

    ctx.require(norm_nodes, f"{f.qualname}: norm computation not located")
    for nn in sorted(norm_nodes):
        states = at[nn]
        ctx.require(states, f"{f.qualname}: norm computation unreachable")
        bad = [s for s in states if not recip(s)]
        ctx.check(not bad, "R-NORMSPACE", f"{f.qualname}:norm-in-reciprocal-space", f.loc(cfg.nodes[nn].ast),
                  f"states at the norm {sorted(map(str, states))}: array is in reciprocal space",
                  f"the norm is taken while the array may be in real space (states (waves in reciprocal space?, "
                  f"#fft2 applied) = {sorted(map(str, bad))}): the reciprocal-space intensity then differs from 1 "
                  "by the FFT scale", key_detail="space")
    for r in rets:
        rn = cfg.node_of(r).idx
        bad = [s for s in at[rn] if s[1] != 0]
        ctx.check(not bad, "R-NORMSPACE", f"{f.qualname}:returned-in-original-space", f.loc(r),
                  "every fft2 is undone by an ifft2 before the return",
                  f"the array is returned in the other representation than it came in (states {sorted(map(str, bad))}) "
                  "although the Waves object keeps its reciprocal_space flag", key_detail="roundtrip")
    # ---- Waves.normalize wires the transform
    wn = repo.method(W, "Waves", "normalize")
    ctor = [c for c in walk_no_nested(wn.node) if isinstance(c, ast.Call) and call_name(c) == "_WavesNormalization"]
    ctx.require(len(ctor) == 1, "Waves.normalize no longer builds a _WavesNormalization")
    sp = kw(ctor[0], "space") or (ctor[0].args[0] if ctor[0].args else None)
    d = wn.defaults().get("space")
    good = isinstance(sp, ast.Name) and sp.id == "space" and isinstance(d, ast.Constant) and d.value == "reciprocal"
    ctx.check(good, "R-CNORM", f"{wn.qualname}:space-default", wn.where,
              "normalize() defaults to reciprocal space and forwards `space` to the transform",
              "Waves.normalize no longer defaults to / forwards space='reciprocal'", key_detail="default")
    applied = [c for c in walk_no_nested(wn.node) if isinstance(c, ast.Call) and last_attr(c) == "apply" and c.args
               and dotted(c.args[0]) == "self"]
    ctx.check(bool(applied), "R-CNORM", f"{wn.qualname}:applies-to-self", wn.where,
              "the transform is applied to the receiver", "Waves.normalize does not apply the transform to self",
              key_detail="apply")
