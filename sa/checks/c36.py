"""C36 — distributions have the values and weights they advertise (abtem/distributions.py).

Structure clauses: what `__neg__`, `divide`, `uniform`, `gaussian` hand to the constructor of
`DistributionFromValues`, as terms over the function's parameters / the receiver's fields.
"""
from __future__ import annotations

import ast
from fractions import Fraction
from typing import Optional

from ..cfg import DataFlow
from ..model import AnalysisError, ClassInfo, FuncInfo, bind_args, dotted, last_attr, norm_text, walk_no_nested
from ..terms import FlowNormalizer, Normalizer, Poly

MOD = "abtem.distributions"
DFV = "DistributionFromValues"
MULTI = "MultidimensionalDistribution"
ARRAY_IDENTITY = {"np.array", "np.asarray", "numpy.array", "numpy.asarray", "xp.asarray", "xp.array",
                  "np.ascontiguousarray", "copy", "copy.copy", "copy.deepcopy", "deepcopy"}
LINSPACE_PARAMS = ["start", "stop", "num", "endpoint", "retstep", "dtype", "axis"]


# ---------------------------------------------------------------------- small helpers
def _strip(e: Optional[ast.AST]) -> Optional[ast.AST]:
    """Remove value-preserving wrappers: np.array(x), np.asarray(x), x.copy(), copy(x)."""
    while isinstance(e, ast.Call):
        if isinstance(e.func, ast.Attribute) and e.func.attr == "copy" and not e.args and not e.keywords:
            e = e.func.value
        elif dotted(e.func) in ARRAY_IDENTITY and len(e.args) == 1 and not e.keywords:
            e = e.args[0]
        else:
            break
    return e


def _hook(nz, call: ast.Call):
    f = call.func
    if isinstance(f, ast.Attribute) and f.attr == "copy" and not call.args and not call.keywords:
        return nz.norm(f.value)
    fn = dotted(f)
    short = last_attr(call)
    if fn in ARRAY_IDENTITY and len(call.args) == 1 and not call.keywords:
        return nz.norm(call.args[0])
    if short == "negative" and len(call.args) == 1 and not call.keywords:
        return -nz.norm(call.args[0])
    if short == "sum" and not call.keywords:
        if isinstance(f, ast.Attribute) and not call.args and dotted(f.value) not in ("np", "xp", "numpy"):
            return Poly.atom(f"Σ({nz.norm(f.value).key()})")
        if fn in ("np.sum", "xp.sum", "numpy.sum", "sum") and len(call.args) == 1:
            return Poly.atom(f"Σ({nz.norm(call.args[0]).key()})")
    if fn in ("np.linalg.norm", "xp.linalg.norm", "numpy.linalg.norm") and len(call.args) == 1 and not call.keywords:
        a = nz.norm(call.args[0])
        return Poly.atom(f"Σ({(a * a).key()})").power(Fraction(1, 2))
    if short == "exp" and len(call.args) == 1 and not call.keywords:
        return Poly.atom(f"exp({nz.norm(call.args[0]).key()})")
    return None


class _N(FlowNormalizer):
    def __init__(self, df, node_idx, alias=None):
        super().__init__(df, node_idx, atom_alias=alias or {}, call_hook=_hook)


def _backing(cls: ClassInfo, attr: str) -> str:
    """`self.<attr>` -> the attribute a trivial property getter returns (`self._attr`), else itself."""
    g = cls.find_method(attr, "getter")
    if g is not None and g.is_property:
        rets = [n for n in walk_no_nested(g.node) if isinstance(n, ast.Return) and n.value is not None]
        if len(rets) == 1:
            d = dotted(rets[0].value)
            if d and d.startswith("self.") and d.count(".") == 1:
                return d
    return f"self.{attr}"


def _single_return(f: FuncInfo) -> ast.Return:
    rets = [n for n in walk_no_nested(f.node) if isinstance(n, ast.Return) and n.value is not None]
    if len(rets) != 1:
        raise AnalysisError(f"{f.qualname}: expected one `return <value>`, found {len(rets)}")
    return rets[0]


def _is_self_ctor(call: ast.Call, cls_name: str) -> bool:
    f = call.func
    if dotted(f) in ("self.__class__", cls_name):
        return True
    return isinstance(f, ast.Call) and dotted(f.func) == "type" and len(f.args) == 1 and dotted(f.args[0]) == "self"


def _follow(df: DataFlow, at: int, e: ast.AST, depth: int = 0):
    """Follow single reaching definitions of plain names through value-preserving wrappers."""
    e = _strip(e)
    while isinstance(e, ast.Name) and depth < 10:
        d = df.single_def(at, e.id)
        if d is None or d.kind != "assign" or d.value is None:
            break
        st = df.cfg.nodes[d.node].ast
        if not (isinstance(st, (ast.Assign, ast.AnnAssign))):
            break
        if isinstance(st, ast.Assign) and not any(isinstance(t, ast.Name) and t.id == e.id for t in st.targets):
            break
        e, at = _strip(d.value), d.node
        depth += 1
    return e, at


def _stmt_of(root: ast.AST, node: ast.AST) -> ast.stmt:
    """Innermost simple statement under `root` that contains `node`."""
    compound = (ast.FunctionDef, ast.AsyncFunctionDef, ast.ClassDef, ast.If, ast.For, ast.While, ast.With, ast.Try)
    for st in walk_no_nested(root):
        if isinstance(st, ast.stmt) and not isinstance(st, compound) and any(x is node for x in ast.walk(st)):
            return st
    raise AnalysisError("expression is not part of a simple statement")


def _enclosing_ifs(func: ast.FunctionDef) -> dict[int, list[tuple[ast.If, str]]]:
    out: dict[int, list[tuple[ast.If, str]]] = {}

    def visit(body, stack):
        for st in body:
            out[id(st)] = list(stack)
            if isinstance(st, ast.If):
                visit(st.body, stack + [(st, "T")])
                visit(st.orelse, stack + [(st, "F")])
            elif isinstance(st, (ast.For, ast.While, ast.With, ast.Try)):
                for fld in ("body", "orelse", "finalbody"):
                    visit(getattr(st, fld, []), stack)
                for h in getattr(st, "handlers", []):
                    visit(h.body, stack)

    visit(func.body, [])
    return out


def _is_none_test(test: ast.expr, name: str) -> Optional[str]:
    """`name is None` -> 'T', `name is not None` -> 'F' (arm in which name is None)."""
    if isinstance(test, ast.Compare) and len(test.ops) == 1 and isinstance(test.left, ast.Name) and \
            test.left.id == name and isinstance(test.comparators[0], ast.Constant) and \
            test.comparators[0].value is None:
        if isinstance(test.ops[0], ast.Is):
            return "T"
        if isinstance(test.ops[0], ast.IsNot):
            return "F"
    return None


def _ones_length(e: ast.AST) -> Optional[ast.AST]:
    """np.ones(n) / np.ones((n,)) / np.full(n, 1.0) / np.ones_like(x) -> the length expression n (or len(x))."""
    e = _strip(e)
    if not isinstance(e, ast.Call):
        return None
    short = last_attr(e)
    if short == "ones" and e.args:
        n = e.args[0]
        if isinstance(n, ast.Tuple) and len(n.elts) == 1:
            n = n.elts[0]
        return n
    if short == "full" and len(e.args) >= 2 and isinstance(e.args[1], ast.Constant) and e.args[1].value == 1:
        n = e.args[0]
        if isinstance(n, ast.Tuple) and len(n.elts) == 1:
            n = n.elts[0]
        return n
    if short == "ones_like" and e.args:
        return ast.Call(func=ast.Name(id="len", ctx=ast.Load()), args=[e.args[0]], keywords=[])
    return None


def _length_key(nz: _N, n: ast.AST) -> str:
    """Canonical key of a length expression: len(x) / x.shape[0] / x.size -> 'len(<x>)'."""
    if isinstance(n, ast.Call) and dotted(n.func) == "len" and len(n.args) == 1:
        return f"len({nz.norm(n.args[0]).key()})"
    if isinstance(n, ast.Subscript) and isinstance(n.value, ast.Attribute) and n.value.attr == "shape" and \
            isinstance(n.slice, ast.Constant) and n.slice.value == 0:
        return f"len({nz.norm(n.value.value).key()})"
    if isinstance(n, ast.Attribute) and n.attr == "size":
        return f"len({nz.norm(n.value).key()})"
    return nz.norm(n).key()


def _bind_linspace(call: ast.Call) -> dict[str, ast.expr]:
    out: dict[str, ast.expr] = {}
    for p, a in zip(LINSPACE_PARAMS, call.args):
        out[p] = a
    for k in call.keywords:
        if k.arg is None:
            raise AnalysisError("linspace called with **kwargs")
        out[k.arg] = k.value
    return out


def _sub(name: str, idx: str) -> ast.Subscript:
    n = ast.Subscript(value=ast.Name(id=name, ctx=ast.Load()), slice=ast.Name(id=idx, ctx=ast.Load()), ctx=ast.Load())
    return ast.fix_missing_locations(n)


# ---------------------------------------------------------------------- what an operator method builds
UNARY_VALUES = {"__neg__": lambda v: -v, "__pos__": lambda v: v}
BINARY_VALUES = {"__mul__": lambda v, o: v * o, "__rmul__": lambda v, o: o * v,
                 "__truediv__": lambda v, o: v * o.inverse(), "__rtruediv__": lambda v, o: o * v.inverse(),
                 "__add__": lambda v, o: v + o, "__radd__": lambda v, o: o + v,
                 "__sub__": lambda v, o: v - o, "__rsub__": lambda v, o: o - v}


BINARY_STEM = {ast.Mult: "mul", ast.Div: "truediv", ast.Add: "add", ast.Sub: "sub"}


def operator_values(dunder: str, v: Poly, o: Poly) -> Optional[Poly]:
    """The values an operator method must produce from the receiver's values v (and the other operand o)."""
    if dunder in UNARY_VALUES:
        return UNARY_VALUES[dunder](v)
    if dunder in BINARY_VALUES:
        return BINARY_VALUES[dunder](v, o)
    return None


class Built:
    """What a method of a values/weights distribution class hands to the class constructor, field by field, as terms
    over the receiver's stored attributes (and the method's other parameters)."""

    def __init__(self, owner: FuncInfo, call: ast.Call, via: Optional[FuncInfo]):
        self.owner, self.call, self.via = owner, call, via
        self.fields: dict[str, Poly] = {}
        self.text: dict[str, str] = {}
        self.missing: dict[str, str] = {}  # field -> why the method does not decide it (what the result gets instead)


def ctor_fields(cls: ClassInfo) -> tuple[FuncInfo, list[str], dict[str, str]]:
    init = cls.find_method("__init__")
    if init is None or not init.positional_params:
        raise AnalysisError(f"{cls.qualname}: constructor not found")
    if init.has_vararg or init.has_varkw:
        raise AnalysisError(f"{init.qualname}: constructor takes *args / **kwargs")
    names = [p for p in init.params if p != init.positional_params[0]]
    return init, names, {f"self.{a}": _backing(cls, a) for a in names}


def _plain_call(call: ast.Call, where: str) -> None:
    if any(isinstance(a, ast.Starred) for a in call.args) or any(k.arg is None for k in call.keywords):
        raise AnalysisError(f"{where}: `{norm_text(call)[:60]}` passes *args / **kwargs")


def _factory_value(factory: FuncInfo, fdf: DataFlow, ifs, at: int, e: ast.AST, given: dict[str, Poly]):
    """Value of the expression `e` (read at CFG node `at` of the factory function) as a term over the CALLER's atoms:
    (Poly, None), or (None, text) when the caller leaves the deciding parameter to the factory's default.  A parameter
    that the factory rebinds under `p is None` (the default idiom) is the caller's argument when one is passed — the
    receiver's stored fields are never None (R-STORE) — and the default otherwise."""
    e, eat = _follow(fdf, at, e)
    params = set(factory.params)
    defaults = factory.defaults()

    def rebinds(p: str, node: int):
        defs = fdf.reaching(node, p)
        if not any(d.kind == "param" for d in defs):
            raise AnalysisError(f"{factory.qualname}: `{p}` is overwritten before it is handed on")
        out = [d for d in defs if d.kind != "param"]
        for d in out:
            st = fdf.cfg.nodes[d.node].ast
            if d.kind != "assign" or d.value is None or not any(_is_none_test(i.test, p) == arm
                                                                 for i, arm in ifs.get(id(st), [])):
                raise AnalysisError(f"{factory.qualname}: `{p}` is rebound outside a `{p} is None` default "
                                    f"(`{norm_text(st)[:60]}`)")
        return out

    if isinstance(e, ast.Name) and e.id in params:
        p = e.id
        rb = rebinds(p, eat)
        if p in given:
            return given[p], None
        if p not in defaults:
            raise AnalysisError(f"{factory.qualname}: required parameter `{p}` is not passed")
        dflt = defaults[p]
        if isinstance(dflt, ast.Constant) and dflt.value is None:
            if len(rb) == 1:
                return None, f"the factory's default `{norm_text(fdf.cfg.nodes[rb[0].node].ast)}` applies"
            if not rb:
                return None, f"the factory hands its default `{p}=None` on"
            raise AnalysisError(f"{factory.qualname}: several defaults for `{p}`")
        if rb:
            raise AnalysisError(f"{factory.qualname}: `{p}` has an `is None` default but is not None by default")
        return None, f"the factory's default `{p}={norm_text(dflt)}` applies"
    for n in ast.walk(e):
        if isinstance(n, ast.Name) and n.id in params and rebinds(n.id, eat):
            raise AnalysisError(f"{factory.qualname}: `{n.id}` (defaulted under `is None`) is used inside "
                                f"`{norm_text(e)[:60]}`")
    poly = _N(fdf, eat).norm(e)
    mapping: dict[str, Poly] = {}
    for a in poly.atoms():
        if a in params:
            if a in given:
                mapping[a] = given[a]
            elif a in defaults and isinstance(defaults[a], ast.Constant) and defaults[a].value is not None:
                mapping[a] = Normalizer().norm(defaults[a])
            else:
                raise AnalysisError(f"{factory.qualname}: `{norm_text(e)[:60]}` depends on `{a}`, which the caller "
                                    "does not pass")
    return poly.subst(mapping), None


def built_fields(repo, cls: ClassInfo, meth: FuncInfo) -> Built:
    """Read the single result of `meth` (a method of `cls`): either a call of the class constructor
    (`self.__class__(...)`, `type(self)(...)`, the class by name) or a call of a module-level factory helper whose own
    single result is a call of that constructor; in the second case the helper's parameters are bound to the call's
    arguments and its `p is None` defaults are applied."""
    init, names, alias = ctor_fields(cls)
    df = DataFlow(meth.node)
    ret = _single_return(meth)
    at = df.cfg.node_of(ret).idx
    call, cat = _follow(df, at, ret.value)
    if not isinstance(call, ast.Call):
        raise AnalysisError(f"{meth.qualname}: the result is not built by the class constructor")
    _plain_call(call, meth.qualname)
    nz = _N(df, cat, alias)
    if _is_self_ctor(call, cls.name):
        out = Built(meth, call, None)
        b = bind_args(call, init, skip_self=True)
        stray = sorted(set(b) - set(names))
        if stray:
            raise AnalysisError(f"{meth.qualname}: the constructor has no parameter {stray}")
        for a in names:
            if a in b:
                out.fields[a], out.text[a] = nz.norm(b[a]), norm_text(b[a])
            else:
                out.missing[a] = f"`{a}` is not passed to the constructor"
        return out
    target = repo.resolve_name(meth.module, dotted(call.func) or "")
    if not (isinstance(target, FuncInfo) and target.cls is None):
        raise AnalysisError(f"{meth.qualname}: the result is not built by the class constructor (nor by a factory "
                            f"function of the package): `{norm_text(call)[:60]}`")
    factory = target
    if factory.has_vararg or factory.has_varkw:
        raise AnalysisError(f"{factory.qualname}: factory takes *args / **kwargs")
    out = Built(meth, call, factory)
    fb = bind_args(call, factory)
    stray = sorted(set(fb) - set(factory.params))
    if stray or len(call.args) > len(factory.positional_params):
        raise AnalysisError(f"{meth.qualname}: `{norm_text(call)[:60]}` does not fit the parameters of {factory.qualname}")
    given = {p: nz.norm(e) for p, e in fb.items() if not (isinstance(e, ast.Constant) and e.value is None)}
    fdf = DataFlow(factory.node)
    fret = _single_return(factory)
    inner, iat = _follow(fdf, fdf.cfg.node_of(fret).idx, fret.value)
    if not (isinstance(inner, ast.Call) and repo.resolve_name(factory.module, dotted(inner.func) or "") is cls):
        raise AnalysisError(f"{factory.qualname} (called by {meth.qualname}): the result is not built by the constructor "
                            f"of {cls.name}")
    _plain_call(inner, factory.qualname)
    ib = bind_args(inner, init, skip_self=True)
    ifs = _enclosing_ifs(factory.node)
    for a in names:
        if a not in ib:
            out.missing[a] = f"{factory.short}(...) does not pass `{a}` to the constructor"
            continue
        val, why = _factory_value(factory, fdf, ifs, iat, ib[a], given)
        if val is None:
            out.missing[a] = f"`{norm_text(call)[:70]}` leaves it to {factory.short}: {why}"
        else:
            out.fields[a] = val
            src, _ = _follow(fdf, iat, ib[a])
            out.text[a] = norm_text(fb[src.id]) if isinstance(src, ast.Name) and src.id in fb else \
                f"{norm_text(ib[a])} in {factory.short}"
    return out


def operator_contract(repo, cls: ClassInfo, meth: FuncInfo) -> list[tuple[str, bool, str, str, ast.AST]]:
    """The distribution an operator method (`__neg__`, `__mul__` ...) of a values/weights distribution class returns
    is the receiver with the operator applied to its values only: one (field, ok, ok-text, violation-text, node) per
    constructor field — values = op(receiver's values), every other field (weights, ensemble_mean ...) the
    receiver's own, unchanged."""
    init, names, alias = ctor_fields(cls)
    if "values" not in names:
        raise AnalysisError(f"{init.qualname} has no `values` parameter")
    b = built_fields(repo, cls, meth)
    v = Poly.atom(alias["self.values"])
    others = meth.positional_params[1:]
    if meth.name in UNARY_VALUES and not others:
        want_v = UNARY_VALUES[meth.name](v)
    elif meth.name in BINARY_VALUES and len(others) == 1:
        want_v = BINARY_VALUES[meth.name](v, Poly.atom(others[0]))
    else:
        raise AnalysisError(f"{meth.qualname}: operator not modelled")
    what = {"__neg__": "negated distribution"}.get(meth.name, f"distribution returned by {meth.name}")
    via = f" (through {b.via.short})" if b.via is not None else ""
    out = []
    for a in names:
        want = want_v if a == "values" else Poly.atom(alias[f"self.{a}"])
        if a in b.missing:
            out.append((a, False, "", f"{b.missing[a]}: the {what} gets the default instead of the "
                                      f"receiver's {a}", b.call))
            continue
        got = b.fields[a]
        out.append((a, got == want, f"{a} = {want.key()}{via}",
                    f"{a} is {got.key()} (`{b.text[a]}`){via}, expected {want.key()}", b.call))
    return out


# ---------------------------------------------------------------------- the check
def run(ctx) -> None:
    repo = ctx.repo
    ctx.rule("R-STORE", "DistributionFromValues keeps what it is given: the properties values / weights / "
             "ensemble_mean return the attribute that __init__ stores from the parameter of the same name (through "
             "value-preserving wrappers); the only other source is the all-ones default of len(values) under "
             "`weights is None`")
    ctx.rule("R-NEG", "__neg__ rebuilds the distribution with values = −self.values and with weights, "
             "ensemble_mean and every other constructor field passed through unchanged — negation changes the values "
             "only; the result is read from the class constructor call (self.__class__ / type(self) / the class name, "
             "positional or keyword arguments in any order) or from a call of a factory function of the package whose "
             "single result is that constructor call: the factory's parameters are bound to the call's arguments and a "
             "parameter the call leaves out takes the factory's default (`weights is None` -> all ones), which is not "
             "the receiver's field; the multidimensional __neg__ applies exactly __neg__ to every component "
             "distribution")
    ctx.rule("R-SAMESLICE", "divide builds block i from values[a:b] and weights[a:b] with the same slice of the "
             "receiver's own values and weights, passes ensemble_mean through, takes a from the exclusive and b from "
             "the inclusive prefix sums of the same chunk tuple (consecutive, disjoint, covering), stores block i at "
             "index i, and validates that explicit chunks sum to the length")
    ctx.rule("R-UNIFORM", "uniform returns values = linspace(low, high, num_samples, endpoint) and weights = ones "
             "of the same length, ensemble_mean passed through")
    ctx.rule("R-GAUSS", "gaussian, per dimension i: values = linspace(c_i − σ_i·L_i, c_i + σ_i·L_i, n_i); weights = "
             "exp(−½(values − c_i)²/σ_i²) divided, in the arm selected by the literal, by sqrt(Σ w²) ('intensity') "
             "or Σ w ('amplitude'); the distribution appended for dimension i is built from exactly these values "
             "and weights and ensemble_mean[i]")
    ctx.rule("R-COMPONENT", "MultidimensionalDistribution.values reads only .values of its components and .weights "
             "only .weights; with one component both are that component's property unchanged")
    ctx.undecided("numerical values of linspace/exp (numpy is trusted); that the outer product of ≥2 component "
                  "weights is ordered like the meshgrid of the values")
    ctx.undecided("lazy blocks (da.from_array(blocks, chunks=1)) equal the eager blocks")

    cls = repo.cls(MOD, DFV)
    multi = repo.cls(MOD, MULTI)
    init = repo.method(MOD, DFV, "__init__")
    fields = ("values", "weights", "ensemble_mean")
    for p in fields:
        ctx.require(p in init.params, f"{init.qualname} lost its `{p}` parameter")
    alias = {f"self.{a}": _backing(cls, a) for a in fields}

    # ---------------- R-STORE
    dfi = DataFlow(init.node)
    ifs = _enclosing_ifs(init.node)
    for a in fields:
        back = alias[f"self.{a}"]
        g = cls.own_method(a, "getter")
        ctx.require(g is not None and g.is_property, f"{cls.qualname}.{a} is not a property")
        ctx.require(back != f"self.{a}", f"{cls.qualname}.{a} does not return a stored attribute")
        stores = [st for st in walk_no_nested(init.node) if isinstance(st, ast.Assign)
                  and any(dotted(t) == back for t in st.targets)]
        ctx.require(len(stores) == 1, f"{init.qualname}: expected one store to {back}, found {len(stores)}")
        st = stores[0]
        node = dfi.cfg.node_of(st).idx
        src = _strip(st.value)
        if not isinstance(src, ast.Name):
            ctx.violation("R-STORE", f"{init.qualname}:{back}", init.loc(st),
                          f"{back} is set to `{norm_text(st.value)}`, not to the `{a}` argument", key_detail=a)
            continue
        problems = []
        saw_param = False
        for d in dfi.reaching(node, src.id):
            if d.kind == "param":
                saw_param = saw_param or d.var == a
                if d.var != a:
                    problems.append(f"comes from parameter `{d.var}`")
                continue
            dst = dfi.cfg.nodes[d.node].ast
            guards = ifs.get(id(dst), [])
            arm_ok = any(_is_none_test(i.test, a) == arm for i, arm in guards)
            n = _ones_length(d.value) if d.value is not None else None
            nz = _N(dfi, d.node)
            len_ok = n is not None and _length_key(nz, n) in ("len(1*values)", f"len(1*{alias['self.values']})")
            if d.kind == "assign" and _strip(d.value) is not None and isinstance(_strip(d.value), ast.Name) and \
                    _strip(d.value).id == src.id:
                continue  # x = np.array(x)
            if not (arm_ok and len_ok):
                problems.append(f"`{norm_text(dst)}` replaces the argument"
                                + ("" if arm_ok else f" outside `{a} is None`")
                                + ("" if len_ok else " with something other than ones(len(values))"))
        if not saw_param:
            problems.append(f"the `{a}` argument never reaches {back}")
        ctx.check(not problems, "R-STORE", f"{init.qualname}:{back}", init.loc(st),
                  f"{cls.name}.{a} returns {back} = the `{a}` argument" + (" (ones(len(values)) when None)"
                                                                          if a == "weights" else ""),
                  f"{back}: " + "; ".join(problems), key_detail=a)

    # ---------------- R-NEG
    neg = repo.method(MOD, DFV, "__neg__")
    for detail, ok, good, bad, node in operator_contract(repo, cls, neg):
        ctx.check(ok, "R-NEG", f"{neg.qualname}:{detail}", neg.loc(node), good, bad, key_detail=detail)
    _check_multi_neg(ctx, repo, multi)

    # ---------------- R-SAMESLICE
    _check_divide(ctx, repo, cls, init, alias)

    # ---------------- R-UNIFORM
    _check_uniform(ctx, repo, init)

    # ---------------- R-GAUSS
    _check_gaussian(ctx, repo, init)

    # ---------------- R-COMPONENT
    for a in ("values", "weights"):
        g = multi.own_method(a, "getter")
        ctx.require(g is not None, f"{multi.qualname}.{a} not found")
        other = "weights" if a == "values" else "values"
        reads = [n for n in ast.walk(g.node) if isinstance(n, ast.Attribute) and n.attr in ("values", "weights")
                 and not (isinstance(n.value, ast.Name) and n.value.id == "self")]
        ctx.require(len(reads) >= 2, f"{g.qualname}: component reads not found")
        bad = [n for n in reads if n.attr == other]
        ctx.check(not bad, "R-COMPONENT", f"{g.qualname}:reads", g.where,
                  f"{len(reads)} component reads, all .{a}",
                  f"{multi.name}.{a} reads `.{other}` of a component: " + "; ".join(norm_text(n) for n in bad),
                  key_detail="reads")
        # 1-D arm
        arms = [st for st in g.body if isinstance(st, ast.If) and "dimensions" in ast.unparse(st.test)]
        ctx.require(len(arms) == 1, f"{g.qualname}: one-component arm not found")
        arm = arms[0]
        t = arm.test
        one_true = isinstance(t, ast.Compare) and len(t.ops) == 1 and isinstance(t.comparators[0], ast.Constant) and \
            t.comparators[0].value == 1
        ctx.require(one_true and isinstance(t.ops[0], (ast.Eq, ast.NotEq)), f"{g.qualname}: unrecognised test")
        body = arm.body if isinstance(t.ops[0], ast.Eq) else (arm.orelse or g.body[g.body.index(arm) + 1:])
        rets = [n for st in body for n in ast.walk(st) if isinstance(n, ast.Return)]
        ctx.require(len(rets) == 1, f"{g.qualname}: one-component arm has no single return")
        v = rets[0].value
        good = isinstance(v, ast.Attribute) and v.attr == a and isinstance(v.value, ast.Subscript) and \
            dotted(v.value.value) in ("self._distributions", "self.distributions") and \
            isinstance(v.value.slice, ast.Constant) and v.value.slice.value in (0, -1)
        ctx.check(good, "R-COMPONENT", f"{g.qualname}:one-component", g.loc(rets[0]),
                  f"returns the single component's .{a}",
                  f"with one component {multi.name}.{a} returns `{norm_text(v)}`, not the component's .{a}",
                  key_detail="one")


def multi_component_op(multi: ClassInfo, dunder: str = "__neg__"):
    """What `MultidimensionalDistribution.<dunder>` does to its components: (method, owner of the comprehension, the
    comprehension, True when it runs over all component distributions, name of the method applied to each component,
    the return statement).  AnalysisError when the method is not `constructor([op(d) for d in components])`, directly
    or through a helper method that receives the method name."""

    def req(cond, what):
        if not cond:
            raise AnalysisError(what)

    neg = multi.own_method(dunder)
    req(neg is not None, f"{multi.qualname}.{dunder} not found")
    ret = _single_return(neg)
    v = ret.value
    comp = None
    owner = neg
    if isinstance(v, ast.Call) and isinstance(v.func, ast.Attribute) and dotted(v.func.value) == "self" and \
            not _is_self_ctor(v, MULTI):
        helper = multi.find_method(v.func.attr)
        req(helper is not None, f"{neg.qualname}: helper self.{v.func.attr} not found")
        hb = bind_args(v, helper, skip_self=True)
        hret = _single_return(helper)
        owner = helper
        inner = hret.value
        req(isinstance(inner, ast.Call) and _is_self_ctor(inner, MULTI),
            f"{helper.qualname}: result not built by the class constructor")
        comp = inner.args[0] if inner.args else next((k.value for k in inner.keywords if k.arg == "distributions"), None)
        params = {p: a for p, a in hb.items()}
    else:
        req(isinstance(v, ast.Call) and _is_self_ctor(v, MULTI),
            f"{neg.qualname}: result not built by the class constructor")
        comp = v.args[0] if v.args else next((k.value for k in v.keywords if k.arg == "distributions"), None)
        params = {}
    req(isinstance(comp, (ast.ListComp, ast.GeneratorExp)) and len(comp.generators) == 1
        and isinstance(comp.generators[0].target, ast.Name) and not comp.generators[0].ifs,
        f"{owner.qualname}: components are not rebuilt by a single comprehension")
    gen = comp.generators[0]
    it_ok = dotted(gen.iter) in ("self.distributions", "self._distributions")
    el, x = comp.elt, gen.target.id
    op = None
    if isinstance(el, ast.UnaryOp) and isinstance(el.op, ast.USub) and dotted(el.operand) == x:
        op = "__neg__"
    elif isinstance(el, ast.UnaryOp) and isinstance(el.op, ast.UAdd) and dotted(el.operand) == x:
        op = "__pos__"
    elif isinstance(el, ast.BinOp) and type(el.op) in BINARY_STEM and owner is neg:
        # `d * other` / `other * d` with the method's own second operand
        others = set(neg.positional_params[1:])
        if dotted(el.left) == x and isinstance(el.right, ast.Name) and el.right.id in others:
            op = f"__{BINARY_STEM[type(el.op)]}__"
        elif dotted(el.right) == x and isinstance(el.left, ast.Name) and el.left.id in others:
            op = f"__r{BINARY_STEM[type(el.op)]}__"
    elif isinstance(el, ast.Call) and not el.args and not el.keywords:
        f = el.func
        if isinstance(f, ast.Attribute) and dotted(f.value) == x:
            op = f.attr
        elif isinstance(f, ast.Call) and dotted(f.func) == "getattr" and len(f.args) == 2 and dotted(f.args[0]) == x:
            m = f.args[1]
            if isinstance(m, ast.Name) and m.id in params:
                m = params[m.id]
            if isinstance(m, ast.Constant) and isinstance(m.value, str):
                op = m.value
    req(op is not None, f"{owner.qualname}: cannot tell which operation is applied to each component "
                        f"(`{norm_text(el)}`)")
    return neg, owner, comp, it_ok, op, ret


def _check_multi_neg(ctx, repo, multi: ClassInfo) -> None:
    neg, owner, comp, it_ok, op, ret = multi_component_op(multi, "__neg__")
    ctx.check(it_ok, "R-NEG", f"{owner.qualname}:iterates", owner.loc(comp),
              "maps over all component distributions",
              f"maps over `{norm_text(comp.generators[0].iter)}`, not over the component distributions",
              key_detail="iter")
    ctx.check(op == "__neg__", "R-NEG", f"{neg.qualname}:component-op", neg.loc(ret),
              "each component d is replaced by d.__neg__()",
              f"each component is replaced by d.{op}(), not by its negation", key_detail="op")


def _prefix_kind(nz: _N, e: ast.AST):
    """cumsum((0,) + X) -> ('excl', key X); cumsum(X) -> ('incl', key X)."""
    if not (isinstance(e, ast.Call) and last_attr(e) in ("cumsum", "accumulate") and len(e.args) == 1
            and not e.keywords):
        return None
    x = e.args[0]
    if isinstance(x, ast.BinOp) and isinstance(x.op, ast.Add):
        for zero, rest in ((x.left, x.right),):
            if isinstance(zero, (ast.Tuple, ast.List)) and len(zero.elts) == 1 and \
                    isinstance(zero.elts[0], ast.Constant) and zero.elts[0].value == 0:
                rest = rest.args[0] if isinstance(rest, ast.Call) and dotted(rest.func) in ("tuple", "list") and \
                    len(rest.args) == 1 else rest
                return "excl", nz.norm(rest).key()
        return None
    x = x.args[0] if isinstance(x, ast.Call) and dotted(x.func) in ("tuple", "list") and len(x.args) == 1 else x
    return "incl", nz.norm(x).key()


def _check_divide(ctx, repo, cls: ClassInfo, init: FuncInfo, alias: dict[str, str]) -> None:
    div = repo.method(MOD, DFV, "divide")
    df = DataFlow(div.node)
    loops = [n for n in walk_no_nested(div.node) if isinstance(n, ast.For)
             and any(isinstance(c, ast.Call) and _is_self_ctor(c, DFV) for c in ast.walk(n))]
    ctx.require(len(loops) == 1, f"{div.qualname}: expected one loop that builds the blocks, found {len(loops)}")
    loop = loops[0]
    ctors = [c for c in ast.walk(loop) if isinstance(c, ast.Call) and _is_self_ctor(c, DFV)]
    ctx.require(len(ctors) == 1, f"{div.qualname}: expected one block constructor in the loop")
    call = ctors[0]
    # statement holding the constructor
    holder = _stmt_of(loop, call)
    at = df.cfg.node_of(holder).idx
    nz = _N(df, at, alias)
    b = bind_args(call, init, skip_self=True)
    sl = {}
    for a in ("values", "weights"):
        if a not in b:
            ctx.violation("R-SAMESLICE", f"{div.qualname}:{a}", div.loc(call),
                          f"`{a}` is not passed to the block constructor: the blocks do not carry the receiver's {a}",
                          key_detail=a)
            continue
        e, eat = _follow(df, at, b[a])
        if not (isinstance(e, ast.Subscript) and isinstance(e.slice, ast.Slice)):
            ctx.violation("R-SAMESLICE", f"{div.qualname}:{a}", div.loc(call),
                          f"block {a} `{norm_text(b[a])}` is not a slice of the receiver's {a}", key_detail=a)
            continue
        nz_e = _N(df, eat, alias)
        base = nz_e.norm(e.value)
        ctx.check(base == Poly.atom(alias[f"self.{a}"]), "R-SAMESLICE", f"{div.qualname}:{a}-source", div.loc(call),
                  f"block {a} is a slice of {alias[f'self.{a}']}",
                  f"block {a} is a slice of {base.key()}, not of the receiver's {a}", key_detail=f"{a}-source")
        f = lambda x: nz_e.norm(x).key() if x is not None else ""
        sl[a] = (f(e.slice.lower), f(e.slice.upper), f(e.slice.step), e)
    if len(sl) == 2:
        same = sl["values"][:3] == sl["weights"][:3]
        ctx.check(same, "R-SAMESLICE", f"{div.qualname}:same-slice", div.loc(call),
                  f"values and weights both sliced [{sl['values'][0]}:{sl['values'][1]}]",
                  f"values are sliced `{norm_text(sl['values'][3])}` but weights `{norm_text(sl['weights'][3])}`: "
                  "block weights no longer belong to block values", key_detail="same")
    if "ensemble_mean" in b:
        got = nz.norm(b["ensemble_mean"])
        ctx.check(got == Poly.atom(alias["self.ensemble_mean"]), "R-SAMESLICE", f"{div.qualname}:ensemble_mean",
                  div.loc(call), "ensemble_mean passed through",
                  f"blocks get ensemble_mean = {got.key()}, not the receiver's", key_detail="ensemble_mean")
    else:
        ctx.violation("R-SAMESLICE", f"{div.qualname}:ensemble_mean", div.loc(call),
                      "ensemble_mean is not passed to the blocks (they fall back to the default)", "ensemble_mean")

    # bounds: symbolic position of the block inside the loop (sa/rules/partition.py: Σ members before, n in this one)
    from ..rules.partition import INDEX, PREFIX, SIZE, PartitionEval

    pe = PartitionEval(div, loop, df)
    ctx.require(pe.recognised, f"{div.qualname}: the loop over the chunks is not a recognised partition loop "
                               f"(`for {norm_text(loop.target)} in {norm_text(loop.iter)[:60]}`)")
    counter = next((name for name, v in pe.bind.items() if v == Poly.atom(INDEX)), None)
    if "values" in sl:
        e_ = sl["values"][3]
        ctx.check(not sl["values"][2], "R-SAMESLICE", f"{div.qualname}:contiguous", div.loc(call),
                  "blocks are contiguous slices (no step)",
                  f"blocks are strided slices (step {sl['values'][2]}): consecutive blocks do not cover the values",
                  key_detail="step")
        lo_p = pe.eval(e_.slice.lower, at) if e_.slice.lower is not None else Poly()
        hi_p = pe.eval(e_.slice.upper, at) if e_.slice.upper is not None else None
        S_, N_ = Poly.atom(PREFIX), Poly.atom(SIZE)
        good = lo_p == S_ and hi_p is not None and hi_p == S_ + N_
        show_ = lambda p_: p_.key().replace("1*", "") if p_ is not None else ""
        ctx.check(good, "R-SAMESLICE", f"{div.qualname}:bounds", div.loc(loop),
                  f"block i = [Σ_(j<i) chunks_j : Σ_(j≤i) chunks_j] over {pe.sizes}",
                  f"block i takes [{show_(lo_p)} : {show_(hi_p)}] (Σ = Σ_(j<i) chunks_j, n = chunks_i, k = i) instead of "
                  "[Σ : Σ + n]: the blocks are not consecutive, disjoint and covering", key_detail="bounds")
    # block i stored at index i
    if isinstance(holder, ast.Assign) and isinstance(holder.targets[0], ast.Subscript):
        idx = holder.targets[0].slice
        ctx.check(counter is not None and isinstance(idx, ast.Name) and idx.id == counter, "R-SAMESLICE",
                  f"{div.qualname}:scatter", div.loc(holder), "block i stored at index i",
                  f"block is stored at `{norm_text(holder.targets[0])}`, not at the loop counter", key_detail="scatter")
    elif isinstance(holder, ast.Expr) and isinstance(holder.value, ast.Call) and last_attr(holder.value) == "append":
        ctx.ok("R-SAMESLICE", f"{div.qualname}:scatter", div.loc(holder), "blocks appended in order")
    else:
        raise AnalysisError(f"{div.qualname}: cannot see where a block is stored (`{norm_text(holder)[:60]}`)")
    # chunk validation
    length_keys = {"len(1*self)", f"len(1*{alias['self.values']})", "1*self.shape[1*0]", "1*self.shape[0]"}

    def is_length(e: ast.AST, at_: int) -> bool:
        n_ = _N(df, at_, alias)
        return _length_key(n_, e) in length_keys

    eq_calls = [c for c in walk_no_nested(div.node) if isinstance(c, ast.Call) and last_attr(c) == "equal_sized_chunks"]
    ctx.require(len(eq_calls) >= 1, f"{div.qualname}: integer chunks are not expanded with equal_sized_chunks")
    esc = repo.function("abtem.core.chunks", "equal_sized_chunks")
    for c in eq_calls:
        bb = bind_args(c, esc)
        st = _stmt_of(div.node, c)
        ok = "num_items" in bb and is_length(bb["num_items"], df.cfg.node_of(st).idx)
        ctx.check(ok, "R-SAMESLICE", f"{div.qualname}:int-chunks", div.loc(c),
                  "integer chunks are expanded to a tuple summing to len(self)",
                  f"`{norm_text(c)}` does not split len(self) items", key_detail="intchunks")
    validated = False
    for st in walk_no_nested(div.node):
        test = None
        if isinstance(st, ast.Assert):
            test, want = st.test, ast.Eq
        elif isinstance(st, ast.If) and any(isinstance(s, ast.Raise) for s in st.body):
            test, want = st.test, ast.NotEq
        if isinstance(test, ast.Compare) and len(test.ops) == 1 and isinstance(test.ops[0], want):
            a_, b_ = test.left, test.comparators[0]
            at_ = df.cfg.node_of(st).idx
            for x, y in ((a_, b_), (b_, a_)):
                if isinstance(x, ast.Call) and last_attr(x) == "sum" and len(x.args) == 1 and \
                        dotted(x.args[0]) == "chunks" and is_length(y, at_):
                    validated = True
    ctx.check(validated, "R-SAMESLICE", f"{div.qualname}:explicit-chunks-validated", div.where,
              "explicit chunks must sum to len(self)",
              "explicit chunk tuples are no longer checked against the length: chunks that do not sum to len(self) "
              "silently produce blocks that are not a partition", key_detail="validated")


def _check_uniform(ctx, repo, init: FuncInfo) -> None:
    f = repo.function(MOD, "uniform")
    for p in ("low", "high", "num_samples", "endpoint", "ensemble_mean"):
        ctx.require(p in f.params, f"{f.qualname} lost its `{p}` parameter")
    df = DataFlow(f.node)
    ret = _single_return(f)
    at = df.cfg.node_of(ret).idx
    call, cat = _follow(df, at, ret.value)
    ctx.require(isinstance(call, ast.Call) and dotted(call.func) == DFV, f"{f.qualname}: result is not a {DFV}")
    b = bind_args(call, init, skip_self=True)
    ctx.require("values" in b, f"{f.qualname}: no values passed")
    lin, lat = _follow(df, cat, b["values"])
    ctx.require(isinstance(lin, ast.Call) and last_attr(lin) == "linspace",
                f"{f.qualname}: values are not produced by linspace (`{norm_text(lin)[:60]}`)")
    lb = _bind_linspace(lin)
    nz = _N(df, lat)
    for lp, fp in (("start", "low"), ("stop", "high"), ("num", "num_samples"), ("endpoint", "endpoint")):
        if lp not in lb:
            ctx.violation("R-UNIFORM", f"{f.qualname}:linspace-{lp}", f.loc(lin),
                          f"linspace `{lp}` is not given: `{fp}` has no influence on the values", key_detail=lp)
            continue
        got = nz.norm(lb[lp])
        ctx.check(got == Poly.atom(fp), "R-UNIFORM", f"{f.qualname}:linspace-{lp}", f.loc(lin),
                  f"linspace {lp} = {fp}", f"linspace {lp} is {got.key()} (`{norm_text(lb[lp])}`), expected `{fp}`",
                  key_detail=lp)
    rs = lb.get("retstep")
    ctx.require(rs is None or (isinstance(rs, ast.Constant) and rs.value is False), f"{f.qualname}: retstep used")
    # weights
    if "weights" not in b:
        ctx.ok("R-UNIFORM", f"{f.qualname}:weights", f.loc(call), "weights left to the all-ones default of the class")
    else:
        w, wat = _follow(df, cat, b["weights"])
        n = _ones_length(w)
        nzw = _N(df, wat)
        lin_key = nz.norm(lin).key()
        ok = False
        detail = norm_text(w)[:60]
        if n is not None:
            k = _length_key(nzw, n)
            ok = k in (f"len({lin_key})", "1*num_samples")
            detail = f"ones of length {k}"
        ctx.check(ok, "R-UNIFORM", f"{f.qualname}:weights", f.loc(call), "weights = ones(len(values))",
                  f"weights are {detail}, not ones of the length of the values", key_detail="weights")
    if "ensemble_mean" in b:
        got = _N(df, cat).norm(b["ensemble_mean"])
        ctx.check(got == Poly.atom("ensemble_mean"), "R-UNIFORM", f"{f.qualname}:ensemble_mean", f.loc(call),
                  "ensemble_mean passed through", f"ensemble_mean is {got.key()}", key_detail="ensemble_mean")
    else:
        ctx.violation("R-UNIFORM", f"{f.qualname}:ensemble_mean", f.loc(call),
                      "the ensemble_mean argument is not passed to the distribution", "ensemble_mean")


def _literal_arms(body: list[ast.stmt], var: str):
    """if var == 'lit': ... elif var == 'lit2': ... -> {lit: body}, else-body."""
    for st in body:
        cur = st
        arms: dict[str, list[ast.stmt]] = {}
        orelse = None
        while isinstance(cur, ast.If):
            t = cur.test
            lit = None
            if isinstance(t, ast.Compare) and len(t.ops) == 1 and isinstance(t.ops[0], ast.Eq):
                for x, y in ((t.left, t.comparators[0]), (t.comparators[0], t.left)):
                    if isinstance(x, ast.Name) and x.id == var and isinstance(y, ast.Constant) and \
                            isinstance(y.value, str):
                        lit = y.value
            if lit is None:
                break
            arms[lit] = cur.body
            if len(cur.orelse) == 1 and isinstance(cur.orelse[0], ast.If):
                cur = cur.orelse[0]
            else:
                orelse = cur.orelse
                break
        if arms:
            return st, arms, orelse
    return None, {}, None


def _check_gaussian(ctx, repo, init: FuncInfo) -> None:
    f = repo.function(MOD, "gaussian")
    P = ("standard_deviation", "num_samples", "center", "ensemble_mean", "sampling_limit", "normalize", "dimension")
    for p in P:
        ctx.require(p in f.params, f"{f.qualname} lost its `{p}` parameter")
    df = DataFlow(f.node)
    loops = [n for n in f.body if isinstance(n, ast.For)]
    ctx.require(len(loops) == 1 and isinstance(loops[0].target, ast.Name), f"{f.qualname}: dimension loop not found")
    loop = loops[0]
    i = loop.target.id
    it = loop.iter
    ctx.check(isinstance(it, ast.Call) and dotted(it.func) == "range" and len(it.args) == 1 and
              dotted(it.args[0]) == "dimension", "R-GAUSS", f"{f.qualname}:loop", f.loc(loop),
              "one component per dimension (range(dimension))",
              f"the loop runs over `{norm_text(it)}`, not over range(dimension)", key_detail="loop")
    ctors = [c for c in ast.walk(loop) if isinstance(c, ast.Call) and dotted(c.func) == DFV]
    ctx.require(len(ctors) == 1, f"{f.qualname}: expected one {DFV}(...) in the loop")
    call = ctors[0]
    holder = next(st for st in loop.body if any(c is call for c in ast.walk(st)))
    ctx.require(isinstance(holder, ast.Expr) and isinstance(holder.value, ast.Call)
                and last_attr(holder.value) == "append" and isinstance(holder.value.func, ast.Attribute),
                f"{f.qualname}: the component is not appended unconditionally in the loop body")
    lst = dotted(holder.value.func.value)
    at = df.cfg.node_of(holder).idx
    b = bind_args(call, init, skip_self=True)
    for a in ("values", "weights"):
        ctx.require(a in b and isinstance(b[a], ast.Name), f"{f.qualname}: `{a}` passed to {DFV} is not a local name")
    vname, wname = b["values"].id, b["weights"].id

    # per-dimension parameters are the arguments themselves (through number_to_tuple)
    def elem(p: str, node: int) -> Poly:
        return _N(df, node).norm(_sub(p, i))

    hdr = df.cfg.node_of(loop).idx
    for p in ("standard_deviation", "num_samples", "center", "ensemble_mean", "sampling_limit"):
        rd = df.reaching(hdr, p)
        ok = True
        why = ""
        for d in rd:
            if d.kind == "param":
                continue
            v = d.value
            if isinstance(v, ast.Call) and last_attr(v) == "number_to_tuple" and v.args and \
                    isinstance(v.args[0], ast.Name) and v.args[0].id == p and \
                    all(x.kind == "param" for x in df.reaching(d.node, p)):
                continue
            ok, why = False, norm_text(df.cfg.nodes[d.node].ast)
        ctx.check(ok, "R-GAUSS", f"{f.qualname}:per-dimension {p}", f.where,
                  f"{p}[i] is the caller's {p} for dimension i",
                  f"`{why}`: inside the loop `{p}` is no longer the caller's {p}", key_detail=f"param-{p}")

    # values = linspace(c - σL, c + σL, n)
    vdefs = [d for d in df.reaching(at, vname)]
    ctx.require(len(vdefs) == 1 and vdefs[0].kind == "assign", f"{f.qualname}: `{vname}` has several definitions")
    lin, lat = _follow(df, at, b["values"])
    if isinstance(lin, ast.Call) and last_attr(lin) == "linspace":
        lb = _bind_linspace(lin)
        for k in ("start", "stop", "num"):
            ctx.require(k in lb, f"{f.qualname}: linspace {k} missing")
        ep = lb.get("endpoint")
        ctx.check(ep is None or (isinstance(ep, ast.Constant) and ep.value is True), "R-GAUSS",
                  f"{f.qualname}:linspace-endpoint", f.loc(lin), "both limits are sampled (endpoint=True)",
                  "the upper limit is excluded: the values are not symmetric about the center", key_detail="endpoint")
        nz = _N(df, lat)
        ends = {k: nz.norm(lb[k]) for k in ("start", "stop", "num")}
        how = "linspace"
    else:
        # an equally spaced grid written as A + B * arange(n): first = A, last = A + B (n - 1)
        counts: list = []

        def hook(nz_, call):
            if last_attr(call) == "arange" and len(call.args) == 1:
                counts.append(nz_.norm(call.args[0]))
                return Poly.atom("⟦k⟧")
            return _hook(nz_, call)

        from ..rules.ratfun import Rat, RatFlow

        nzg = RatFlow(df, lat, call_hook=hook, identity_calls={"float"})
        vp = nzg.rat(lin)  # rational function: (n - 1) / 2 * 2 h / (n - 1) cancels
        ctx.require(len({c_.key() for c_ in counts}) == 1 and "⟦k⟧" in vp.atoms(),
                    f"{f.qualname}: values are neither linspace(...) nor A + B*arange(n) (`{norm_text(lin)[:60]}`)")
        A = vp.subst({"⟦k⟧": Poly.const(0)})
        B = vp.subst({"⟦k⟧": Poly.const(1)}) - A
        ctx.require(vp == A + B * Rat(Poly.atom("⟦k⟧")), f"{f.qualname}: values are not affine in arange(n)")
        ends = {"start": A, "stop": A + B * Rat(counts[0] - Poly.const(1)), "num": Rat(counts[0])}
        how = "A + B*arange(n)"
    c, s, L, n = (elem(p, lat) for p in ("center", "standard_deviation", "sampling_limit", "num_samples"))
    for k, want, txt in (("start", c - s * L, "center[i] − σ[i]·limit[i]"), ("stop", c + s * L,
                                                                               "center[i] + σ[i]·limit[i]"),
                         ("num", n, "num_samples[i]")):
        got = ends[k]
        if not isinstance(got, Poly):  # rational-function comparison by cross-multiplication
            from ..rules.ratfun import Rat as _Rat

            same = got == _Rat.of(want)
        else:
            same = got == want
        ctx.check(same, "R-GAUSS", f"{f.qualname}:linspace-{k}", f.loc(lin), f"{how}: {k} = {txt}",
                  f"the {'first' if k == 'start' else 'last' if k == 'stop' else 'number of'} sample value(s) of the "
                  f"grid ({how}) is {got.key()[:120]}, expected {txt} = {want.key()}: the samples are not symmetric "
                  "about the center within the sampling limit", key_detail=k)

    # weights = exp(-1/2 (v-c)^2 / σ^2), then normalised in the literal arm
    body_nodes = df.cfg.loop_body_nodes(hdr)
    wdefs = [d for d in df.defs if d.var == wname and d.node in body_nodes]
    base = [d for d in wdefs if d.kind == "assign" and d.strong and d.value is not None
            and wname not in {n.id for n in ast.walk(d.value) if isinstance(n, ast.Name)}]
    ctx.require(len(base) == 1, f"{f.qualname}: expected one defining assignment of `{wname}`, found {len(base)}")
    wdef = base[0]
    wexpr = _strip(wdef.value)
    ctx.require(isinstance(wexpr, ast.Call) and last_attr(wexpr) == "exp" and len(wexpr.args) == 1,
                f"{f.qualname}: weights are not an exponential (`{norm_text(wexpr)[:60]}`)")
    nzw = _N(df, wdef.node)
    nzw.no_inline.add(vname)
    v = Poly.atom(vname)
    cw, sw = elem("center", wdef.node), elem("standard_deviation", wdef.node)
    want = Poly.const(Fraction(-1, 2)) * (v - cw) * (v - cw) * (sw * sw).inverse()
    got = nzw.norm(wexpr.args[0])
    if got != want:
        # the profile may be written in terms of the offsets from the centre: compare with everything inlined
        nzf = _N(df, wdef.node)
        vfull = nzf.norm(ast.Name(id=vname, ctx=ast.Load()))
        want_full = Poly.const(Fraction(-1, 2)) * (vfull - cw) * (vfull - cw) * (sw * sw).inverse()
        if nzf.norm(wexpr.args[0]) == want_full:
            got = want
    ctx.check(got == want, "R-GAUSS", f"{f.qualname}:profile", f.loc(df.cfg.nodes[wdef.node].ast),
              "weights = exp(−½(values − center[i])²/σ[i]²)",
              f"the exponent is {got.key()}, expected −½(values − center[i])²/σ[i]² = {want.key()}",
              key_detail="profile")
    # `values` read by the profile is the linspace result
    vd = df.reaching(wdef.node, vname)
    ctx.check(len(vd) == 1 and vd[0] is vdefs[0], "R-GAUSS", f"{f.qualname}:profile-argument",
              f.loc(df.cfg.nodes[wdef.node].ast), "the profile is evaluated on the values that are returned",
              "the profile is evaluated on other values than those handed to the distribution", key_detail="profarg")
    # normalisation arms
    sel, arms, orelse = _literal_arms(loop.body, "normalize")
    ctx.require(sel is not None, f"{f.qualname}: dispatch on `normalize` not found")
    produced = set(arms)
    ctx.check({"intensity", "amplitude"} <= produced, "R-GAUSS", f"{f.qualname}:normalize-table", f.loc(sel),
              f"arms for {sorted(produced)}",
              f"normalize literals handled {sorted(produced)} do not include both 'intensity' and 'amplitude'",
              key_detail="table")
    dflt = f.defaults().get("normalize")
    ctx.check(isinstance(dflt, ast.Constant) and dflt.value in produced, "R-GAUSS", f"{f.qualname}:normalize-default",
              f.where, f"default {getattr(dflt, 'value', None)!r} has an arm",
              f"default normalize={getattr(dflt, 'value', None)!r} has no arm", key_detail="default")
    w = Poly.atom(wname)
    spec = {"intensity": (Poly.atom(f"Σ({(w * w).key()})").power(Fraction(1, 2)), "sqrt(Σ w²)"),
            "amplitude": (Poly.atom(f"Σ({w.key()})"), "Σ w")}
    other_updates = [d for d in wdefs if d is not wdef]
    seen_nodes = set()
    for lit in ("intensity", "amplitude"):
        if lit not in arms:
            continue
        ups = []
        for st in arms[lit]:
            for s2 in ast.walk(st):
                if isinstance(s2, ast.AugAssign) and isinstance(s2.target, ast.Name) and s2.target.id == wname:
                    ups.append(s2)
                elif isinstance(s2, ast.Assign) and any(isinstance(t, ast.Name) and t.id == wname for t in s2.targets):
                    ups.append(s2)
        if len(ups) != 1:
            ctx.violation("R-GAUSS", f"{f.qualname}:normalize {lit}", f.loc(arms[lit][0]),
                          f"the '{lit}' arm updates the weights {len(ups)} times (expected exactly one division)",
                          key_detail=f"norm-{lit}")
            continue
        u = ups[0]
        node = df.cfg.node_of(u).idx
        seen_nodes.add(node)
        nzu = _N(df, node)
        nzu.no_inline.add(wname)
        if isinstance(u, ast.AugAssign):
            if isinstance(u.op, ast.Div):
                factor = nzu.norm(u.value).inverse()
            elif isinstance(u.op, ast.Mult):
                factor = nzu.norm(u.value)
            else:
                raise AnalysisError(f"{f.qualname}: unexpected update `{norm_text(u)}`")
        else:
            factor = nzu.norm(u.value) * w.inverse()
        want_f, txt = spec[lit]
        ctx.check(factor == want_f.inverse(), "R-GAUSS", f"{f.qualname}:normalize {lit}", f.loc(u),
                  f"weights divided by {txt}",
                  f"in the '{lit}' arm the weights are scaled by {factor.key()}, expected 1/{txt} = "
                  f"{want_f.inverse().key()}", key_detail=f"norm-{lit}")
        # the weights read by the norm are the unnormalised profile
        rd = df.reaching(node, wname)
        ctx.require(len(rd) == 1 and rd[0] is wdef, f"{f.qualname}: the '{lit}' arm does not start from the profile")
    stray = [d for d in other_updates if d.node not in seen_nodes]
    ctx.check(not stray, "R-GAUSS", f"{f.qualname}:weights-untouched-elsewhere", f.loc(holder),
              "between profile and constructor the weights change only in the normalisation arms",
              "the weights are modified outside the normalisation arms: "
              + "; ".join(norm_text(df.cfg.nodes[d.node].ast)[:50] for d in stray), key_detail="stray")
    # ensemble_mean
    if "ensemble_mean" in b:
        got = _N(df, at).norm(b["ensemble_mean"])
        ctx.check(got == elem("ensemble_mean", at), "R-GAUSS", f"{f.qualname}:ensemble_mean", f.loc(call),
                  "component i gets ensemble_mean[i]", f"component i gets ensemble_mean = {got.key()}",
                  key_detail="ensemble_mean")
    else:
        ctx.violation("R-GAUSS", f"{f.qualname}:ensemble_mean", f.loc(call),
                      "ensemble_mean is not passed to the components", "ensemble_mean")
    # result
    ret = _single_return(f)
    r = ret.value
    arg = None
    if isinstance(r, ast.Call) and dotted(r.func) == MULTI:
        arg = r.args[0] if r.args else next((k.value for k in r.keywords if k.arg == "distributions"), None)
    ctx.check(arg is not None and dotted(arg) == lst, "R-GAUSS", f"{f.qualname}:result", f.loc(ret),
              f"returns {MULTI} of the per-dimension components",
              f"`{norm_text(r)[:70]}` is not the {MULTI} of the components collected in `{lst}`", key_detail="result")


# ---- added after the seeded change C36-seed8: per-axis quantities reused across loop iterations
_inner_run_c36 = run


def run(ctx) -> None:  # noqa: F811
    from ..rules import memo2

    ctx.rule("R-LOOPREUSE", memo2.check_loop_reuse.__doc__)
    n = memo2.check_loop_reuse(ctx, modules={"abtem.distributions"})
    ctx.ok("R-LOOPREUSE", "scan abtem.distributions", "abtem/distributions.py",
           f"{n} loop-carried reuse guards found", nontrivial=False)
    _inner_run_c36(ctx)


# ---- added after the seeded change C19-r3seed4: blocks keep the receiver's ensemble_mean
_inner_run_c36b = run


def run(ctx) -> None:  # noqa: F811
    from ..rules import blockflags

    ctx.rule("R-BLOCKFLAGS", blockflags.__doc__.split("\n\n", 1)[1])
    n = blockflags.check(ctx)
    ctx.require(n >= 1, f"R-BLOCKFLAGS found no sub-distribution constructor in DistributionFromValues")
    _inner_run_c36b(ctx)



# =============================================================================================
# ---- added after the mutation sweep (round 4): axis layout of the multidimensional values / weights and the
# ---- delegation of MultidimensionalDistribution.divide
_inner_run_c36c = run


class _MultiHooks:
    """Leaves of the layout interpretation (sa/rules/axislayout.py) of a k-component MultidimensionalDistribution."""

    def __init__(self, multi: ClassInfo, k: int):
        from ..rules import axislayout as L

        self.L, self.multi, self.k = L, multi, k

    def name(self, ident, interp):
        return None if ident == "cp" else NotImplemented

    def attr(self, base, attr, interp):
        L = self.L
        if isinstance(base, L.Obj) and base.tag == "self":
            if attr in ("_distributions", "distributions"):
                return [L.Obj(("component", i)) for i in range(self.k)]
            g = self.multi.find_method(attr, "getter")
            if g is not None and g.is_property:
                r = interp.run(g.body, {g.positional_params[0]: base})
                if r is not None and r[0] == "return":
                    return r[1]
            return NotImplemented
        if isinstance(base, L.Obj) and isinstance(base.tag, tuple) and base.tag[0] == "component":
            i = base.tag[1]
            if attr == "values":
                return L.LA((f"g{i}",), Poly.atom(f"v{i}"))
            if attr == "weights":
                return L.LA((f"g{i}",), Poly.atom(f"w{i}"))
            if attr == "dimensions":
                return 1
        return NotImplemented

    def call(self, fname, args, kwargs, node, interp):
        L = self.L
        short = fname.split(".")[-1]
        if short == "get_array_module":
            return L.MOD
        if short == "divide" and args and isinstance(args[0], L.Obj) and isinstance(args[0].tag, tuple):
            return ("divided", args[0].tag[1], tuple(args[1:]), tuple(sorted(kwargs.items(), key=lambda kv: kv[0])))
        return NotImplemented


def _multi_layout(ctx, repo, multi: ClassInfo, ks=(1, 2, 3)) -> None:
    from ..rules import axislayout as L
    from ..rules.absint import DomainError

    sizes = {"g0": 3, "g1": 5, "g2": 7}
    A = Poly.atom
    for attr, rule in (("values", "R-VALUELAYOUT"), ("weights", "R-WEIGHTLAYOUT")):
        g = multi.own_method(attr, "getter")
        ctx.require(g is not None and g.is_property, f"{multi.qualname}.{attr} is not a property")
        for k in ks:
            grid = tuple(f"g{i}" for i in range(k))
            if attr == "values":
                want = L.LA(grid, A("v0")) if k == 1 else L.LA(grid + (L.COMP,), tuple(A(f"v{i}") for i in range(k)))
                txt = "the component's values" if k == 1 else \
                    f"values[i0..i{k - 1}] == ({', '.join(f'v{i}[i{i}]' for i in range(k))}): one grid axis per component " \
                    "in component order, the tuple on the last axis"
            else:
                p = Poly.const(1)
                for i in range(k):
                    p = p * A(f"w{i}")
                want = L.LA(grid, p)
                txt = "the component's weights" if k == 1 else \
                    f"weights[i0..i{k - 1}] == {'·'.join(f'w{i}[i{i}]' for i in range(k))}: one axis per component in " \
                    "component order, the shape of values[..., 0]"
            cname = f"{g.qualname}:layout:{k} component{'s' if k > 1 else ''}"
            it = L.LayoutInterp(_MultiHooks(multi, k), sizes)
            try:
                r = it.run(g.body, {g.positional_params[0]: L.Obj("self")})
            except DomainError as e:
                ctx.violation(rule, cname, g.loc(e.node) if e.node is not None else g.where,
                              f"assembling the {attr} of a {k}-component distribution fails: {e}", key_detail=f"k{k}")
                continue
            got = r[1] if r is not None and r[0] == "return" else None
            if not isinstance(got, L.LA):
                raise AnalysisError(f"{g.qualname}: the layout interpreter did not reach an array result for {k} "
                                    "components")
            ctx.check(it.same(got, want), rule, cname, g.where, txt,
                      f"with {k} component{'s' if k > 1 else ''} .{attr} has {L.describe(got)}; expected "
                      f"{L.describe(want)} ({txt}; g_i = axis of component i, C = component axis, flat(...) = axes "
                      "merged into one by a flattening call such as np.outer)", key_detail=f"k{k}")


def _multi_divide(ctx, repo, multi: ClassInfo) -> None:
    from ..rules import axislayout as L
    from ..rules.absint import DomainError

    f = multi.own_method("divide")
    ctx.require(f is not None, f"{multi.qualname}.divide not found")
    target = repo.method(MOD, DFV, "divide")
    params = f.positional_params[1:]
    tparams = target.positional_params[1:]
    ctx.require(params == tparams, f"{f.qualname} and {target.qualname} no longer take the same parameters")
    for k in (1, 2):
        it = L.LayoutInterp(_MultiHooks(multi, k), {"g0": 3, "g1": 5, "g2": 7})
        env = {f.positional_params[0]: L.Obj("self")}
        for p in params:
            env[p] = L.Sc(Poly.atom(f"‹{p}›"))
        cname = f"{f.qualname}:{k} component{'s' if k > 1 else ''}"
        try:
            r = it.run(f.body, env)
            got = r[1] if r is not None and r[0] == "return" else None
        except L.Raises as e:
            got = ("raises", e.name)
        except DomainError as e:
            got = ("fails", str(e))
        if k == 1:
            ok = isinstance(got, tuple) and got and got[0] == "divided"
            if ok:
                _, comp, pos, kws = got
                bound = dict(zip(tparams, pos))
                bound.update(dict(kws))
                wrong = [p for p in tparams if p in bound and bound[p] != env[p]]
                missing = [p for p in tparams if p not in bound]
                ctx.check(not wrong and not missing and comp == 0, "R-DELEGATE", cname, f.where,
                          "a one-component distribution is divided by its component with the caller's chunks and lazy",
                          "the single component's divide() receives "
                          + "; ".join(f"`{p}` = the caller's {L.describe(bound[p])}" for p in wrong)
                          + ("; " if wrong and missing else "") + "; ".join(f"no `{p}` (default used)" for p in missing),
                          key_detail="args")
            else:
                ctx.violation("R-DELEGATE", cname, f.where,
                              f"dividing a one-component distribution does not return its component's blocks ({got})",
                              key_detail="one")
        else:
            bad = isinstance(got, tuple) and got and got[0] == "divided"
            ctx.check(not bad, "R-DELEGATE", cname, f.where,
                      f"a two-component distribution is not divided through a single component ({got})",
                      f"a two-component distribution is divided by dividing component {got[1] if bad else '?'} only: the "
                      "blocks carry one component's values and weights, not the distribution's", key_detail="two")


def run(ctx) -> None:  # noqa: F811
    ctx.rule("R-VALUELAYOUT", "MultidimensionalDistribution.values lays the component values out as "
             "values[i_0, .., i_{k-1}] == (v_0[i_0], .., v_{k-1}[i_{k-1}]): one grid axis per component in component "
             "order and the tuple on the last axis (with one component: that component's values unchanged); decided by "
             "executing the assembly code (meshgrid / stack / transposes, the one-component guard) over labelled axes "
             "(sa/rules/axislayout.py) for 1, 2 and 3 components")
    ctx.rule("R-WEIGHTLAYOUT", "MultidimensionalDistribution.weights is the tensor product of the component weights on "
             "the same grid axes as the values: weights[i_0, .., i_{k-1}] == Π w_j[i_j], axes in component order — "
             "otherwise weight (i, j) does not belong to value (i, j); executed over labelled axes for 1, 2 and 3 "
             "components (np.outer flattens its operands: the merged axis is visible as flat(...))")
    ctx.rule("R-DELEGATE", "MultidimensionalDistribution.divide hands the work to its only component exactly when there "
             "is one, with the caller's chunks and lazy passed to the parameters of the same name; with two components "
             "it does not return the blocks of a single component")
    repo = ctx.repo
    multi = repo.cls(MOD, MULTI)
    pending: list[AnalysisError] = []
    for step in (lambda: _multi_layout(ctx, repo, multi, (1, 2)), lambda: _multi_divide(ctx, repo, multi)):
        try:
            step()
        except AnalysisError as e:
            pending.append(e)
    _inner_run_c36c(ctx)
    if pending:
        raise pending[0]
    # three components last: the weights instance is an open defect of the tree (np.outer flattens the product of the
    # first two components); recorded after the other rules so that it cannot mask an analysis error of theirs
    _multi_layout(ctx, repo, multi, (3,))
