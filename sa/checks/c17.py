"""C17 — simulation grids stay consistent through any history of edits (abtem/core/grid.py).

R-GRIDSTATE is decided by an abstract interpretation of `Grid.__init__` and the three property
setters over a finite configuration space: which of (extent, gpts, sampling) are defined, which
lock flags are set, whether the assigned value is None.  Field values are symbolic terms
    E0 G0 S0 new   adjE(g, s)   adjG(e, s)   adjS(e, g)
where an `adj*` term is produced only by a store whose element-wise right-hand side has been
*verified* (term normal form, both endpoint arms) to be the defining formula of that quantity.
All acyclic paths are enumerated; guards that are lock flags or None-tests are decided by the
configuration, closeness tests (`np.allclose(new, old)`) fork and leave a fact on the true arm.
"""
from __future__ import annotations

import ast
import itertools
from dataclasses import dataclass, field
from typing import Optional

from ..model import AnalysisError, ClassInfo, FuncInfo, dotted, norm_text, strip_docstring
from ..rules.gridterms import (ArmNormalizer, describe_expected, elementwise, expected_grid_term,
                               has_opaque_conditional, local_functions)
from ..terms import Poly

MOD = "abtem.core.grid"
FIELDS = {"_extent": "E", "_gpts": "G", "_sampling": "S"}
LOCKS = {"_lock_extent": "E", "_lock_gpts": "G", "_lock_sampling": "S"}
PROPS = {"extent": "E", "gpts": "G", "sampling": "S"}
ENDPOINT_FIELD = "_endpoint"
KIND_NAME = {"E": "extent", "G": "gpts", "S": "sampling"}
CLOSE_CALLS = {"allclose", "isclose", "array_equal", "array_equiv"}

# Assigning None to a locked, defined extent un-defines it without raising (and a following assignment
# then changes the "locked" value).  Reported as information by default: the property quantifies over
# assignments of values to a fully defined grid.  Set to True to report it as a violation instead.
UNDEFINE_LOCKED_IS_VIOLATION = True

NONE = ("none",)
UNK = ("unk",)


def atom(kind: str, name: str):
    return ("atom", kind, name)


def adj(kind: str, a, b):
    """adjE(g, s) / adjG(e, s) / adjS(e, g) — arguments in the fixed order of the other two kinds."""
    return ("adj", kind, a, b)


def is_sym(v) -> bool:
    return isinstance(v, tuple) and v and v[0] in ("atom", "adj")


def kind_of(v) -> Optional[str]:
    return v[1] if is_sym(v) else None


def show(v) -> str:
    if v == NONE:
        return "None"
    if isinstance(v, tuple) and v and v[0] == "atom":
        return v[2]
    if isinstance(v, tuple) and v and v[0] == "adj":
        return f"adj{v[1]}({show(v[2])},{show(v[3])})"
    if isinstance(v, tuple) and v and v[0] == "other":
        return f"<{v[1][:30]}>"
    return str(v)


def others(kind: str) -> tuple[str, str]:
    return {"E": ("G", "S"), "G": ("E", "S"), "S": ("E", "G")}[kind]


@dataclass
class Path:
    fields: dict
    env: dict
    facts: list = field(default_factory=list)  # (a, b): a is numerically equal to b on this path
    status: str = "run"  # run | ret | raise
    retval: object = None
    trace: list = field(default_factory=list)

    def fork(self) -> "Path":
        return Path(dict(self.fields), dict(self.env), list(self.facts), self.status, self.retval, list(self.trace))


class Interp:
    def __init__(self, ctx, cls: ClassInfo):
        self.ctx = ctx
        self.cls = cls
        self.term_cache: dict = {}
        self.term_instances: dict = {}  # (method qualname, field kind) -> (ok, where, detail)
        self.depth = 0
        self.cur: list[FuncInfo] = []

    # ------------------------------------------------------------------ attribute resolution
    def self_attr(self, attr: str, p: Path, seen=()):
        if attr in FIELDS or attr in LOCKS:
            return p.fields.get(attr, UNK)
        if attr == ENDPOINT_FIELD:
            return ("endpoint",)
        if attr in seen:
            raise AnalysisError(f"Grid.{attr}: cyclic property")
        g = self.cls.find_method(attr, "getter")
        if g is not None and g.is_property:
            body = strip_docstring(g.node.body)
            if len(body) == 1 and isinstance(body[0], ast.Return) and body[0].value is not None:
                d = dotted(body[0].value)
                if d and d.startswith("self.") and d.count(".") == 1:
                    return self.self_attr(d.split(".")[1], p, seen + (attr,))
            if attr in PROPS:
                raise AnalysisError(f"Grid.{attr} getter is no longer a plain read of a backing field")
        if attr in PROPS:
            raise AnalysisError(f"Grid.{attr} getter not found")
        return ("other", f"self.{attr}")

    # ------------------------------------------------------------------ expressions
    def eval(self, e: ast.expr, p: Path):
        """-> NONE | sym | True | False | UNK | ('close', a, b) | ('nclose', a, b) | ('other', text) | ('endpoint',)"""
        if isinstance(e, ast.Constant):
            if e.value is None:
                return NONE
            if isinstance(e.value, bool):
                return e.value
            return ("other", repr(e.value))
        if isinstance(e, ast.Name):
            if e.id in p.env:
                return p.env[e.id]
            return ("other", e.id)
        if isinstance(e, ast.Attribute):
            d = dotted(e)
            if d and d.startswith("self.") and d.count(".") == 1:
                return self.self_attr(e.attr, p)
            return ("other", ast.unparse(e))
        if isinstance(e, ast.UnaryOp) and isinstance(e.op, ast.Not):
            v = self.truth(self.eval(e.operand, p))
            if isinstance(v, bool):
                return not v
            if v[0] == "close":
                return ("nclose",) + v[1:]
            if v[0] == "nclose":
                return ("close",) + v[1:]
            return UNK
        if isinstance(e, ast.BoolOp):
            is_and = isinstance(e.op, ast.And)
            absorbing, neutral = (False, True) if is_and else (True, False)
            pending = []
            for operand in e.values:  # sequential: operands after an absorbing one are never evaluated
                v = self.truth(self.eval(operand, p))
                if v is absorbing:
                    return absorbing
                if v is not neutral:
                    pending.append(v)
            if not pending:
                return neutral
            if len(pending) == 1:
                return pending[0]
            return UNK
        if isinstance(e, ast.Compare) and len(e.ops) == 1:
            a, b = self.eval(e.left, p), self.eval(e.comparators[0], p)
            op = e.ops[0]
            if isinstance(op, (ast.Is, ast.IsNot, ast.Eq, ast.NotEq)) and (a == NONE or b == NONE):
                x = b if a == NONE else a
                if x == NONE:
                    res = True
                elif is_sym(x) or isinstance(x, bool):
                    res = False
                else:
                    return UNK
                return res if isinstance(op, (ast.Is, ast.Eq)) else (not res)
            self._no_state_in_unknown(e, p)
            return UNK
        ew = elementwise(e)
        if ew is not None:
            # evaluated lazily: the formula is verified against the kind of the field it is stored into
            return ("ew", e, tuple((name, self.eval(src, p)) for name, src in ew[1].items()), self.cur[-1])
        if isinstance(e, ast.Call):
            return self.eval_call(e, p)
        if isinstance(e, (ast.BinOp, ast.Tuple, ast.List, ast.Subscript, ast.IfExp, ast.JoinedStr, ast.Dict)):
            return ("other", ast.unparse(e)[:60])
        raise AnalysisError(f"expression form {type(e).__name__} not supported: {ast.unparse(e)[:60]}")

    @staticmethod
    def truth(v):
        """Truth value of an evaluated expression: True / False / close-fact / UNK."""
        if isinstance(v, bool):
            return v
        if v == NONE:
            return False
        if is_sym(v):
            return True  # a validated grid quantity is a non-empty tuple
        if isinstance(v, tuple) and v and v[0] in ("close", "nclose"):
            return v
        return UNK

    def _no_state_in_unknown(self, e: ast.expr, p: Path) -> None:
        """An undecidable test must not read the grid state (else the enumeration would invent paths)."""
        for n in ast.walk(e):
            if isinstance(n, ast.Attribute) and isinstance(n.value, ast.Name) and n.value.id == "self":
                v = self.self_attr(n.attr, p)
                if is_sym(v) or v == NONE or isinstance(v, bool):
                    raise AnalysisError(f"test `{ast.unparse(e)[:70]}` reads grid state in a form the analyser "
                                        "cannot decide")

    def eval_call(self, c: ast.Call, p: Path):
        fn = dotted(c.func)
        short = fn.split(".")[-1] if fn else None
        if fn and fn.startswith("self.") and fn.count(".") == 1:
            m = self.cls.find_method(short, "getter")
            if m is None or m.is_property:
                raise AnalysisError(f"call of unknown method self.{short}")
            # value position: cast-like helpers (no store into self, result depends on the first argument) are the
            # identity on their argument; any other method is interpreted, provided it is a pure query of the
            # state (no field changes, a single non-raising outcome) — e.g. check_is_defined(raise_error=False)
            try:
                cast_model(m)
            except AnalysisError:
                outs = [o for o in self.call_method(m, c, p.fork()) if o.status != "raise"]
                if len(outs) != 1 or outs[0].fields != p.fields:
                    raise AnalysisError(f"self.{short}(...) used as a value is neither cast-like nor a pure query "
                                        "with a single outcome")
                rv = outs[0].retval
                return UNK if rv is None else rv
            if not c.args:
                raise AnalysisError(f"self.{short}() used as a value without a positional argument")
            return self.eval(c.args[0], p)
        if short in CLOSE_CALLS and len(c.args) >= 2:
            a, b = self.eval(c.args[0], p), self.eval(c.args[1], p)
            if is_sym(a) and is_sym(b):
                return ("close", a, b)
            return UNK
        if short in ("array", "asarray", "float") and len(c.args) >= 1:
            return self.eval(c.args[0], p)
        if short in ("all", "any") and len(c.args) == 1:
            v = self.eval(c.args[0], p)
            if short == "all" and isinstance(v, tuple) and v and v[0] in ("close", "nclose"):
                return v
            return UNK
        # any other (non-self) call: no effect on the tracked state, unknown value
        for a in list(c.args) + [k.value for k in c.keywords]:
            for n in ast.walk(a):
                if isinstance(n, ast.Call) and (dotted(n.func) or "").startswith("self."):
                    raise AnalysisError(f"self method call nested in an opaque call: {ast.unparse(c)[:60]}")
        return ("other", ast.unparse(c)[:60])

    # ------------------------------------------------------------------ statements
    def call_method(self, m: FuncInfo, c: ast.Call, p: Path) -> list[Path]:
        if self.depth > 6:
            raise AnalysisError("method call nesting too deep")
        params = m.positional_params[1:]
        env = {}
        defaults = m.defaults()
        if any(isinstance(a, ast.Starred) for a in c.args) or any(k.arg is None for k in c.keywords):
            raise AnalysisError(f"star-arguments in {ast.unparse(c)[:60]}")
        for name, a in zip(params, c.args):
            env[name] = self.eval(a, p)
        for k in c.keywords:
            env[k.arg] = self.eval(k.value, p)
        for name in m.params[1:]:
            if name not in env:
                if name in defaults:
                    env[name] = self.eval(defaults[name], p)
                else:
                    raise AnalysisError(f"{m.short}: parameter {name} not bound at {ast.unparse(c)[:60]}")
        q = p.fork()
        q.env = env
        self.depth += 1
        self.cur.append(m)
        try:
            outs = self.exec_block(m.body, [q])
        finally:
            self.cur.pop()
            self.depth -= 1
        for o in outs:
            o.env = dict(p.env)
            if o.status == "ret":
                o.status = "run"
            elif o.status == "run":
                o.retval = None
        return outs

    def exec_block(self, stmts: list[ast.stmt], paths: list[Path]) -> list[Path]:
        for st in stmts:
            nxt: list[Path] = []
            for p in paths:
                if p.status != "run":
                    nxt.append(p)
                else:
                    nxt.extend(self.exec_stmt(st, p))
            paths = nxt
            if len(paths) > 4096:
                raise AnalysisError("path explosion")
        return paths

    def exec_stmt(self, st: ast.stmt, p: Path) -> list[Path]:
        if isinstance(st, (ast.Pass, ast.Assert, ast.FunctionDef, ast.Import, ast.ImportFrom)):
            return [p]
        if isinstance(st, ast.Expr):
            if isinstance(st.value, ast.Constant):
                return [p]
            if isinstance(st.value, ast.Call):
                c = st.value
                fn = dotted(c.func)
                if fn and fn.startswith("self.") and fn.count(".") == 1:
                    m = self.cls.find_method(fn.split(".")[1], "getter")
                    if m is None or m.is_property:
                        raise AnalysisError(f"call of unknown method {fn}")
                    return self.call_method(m, c, p)
                if fn and fn.startswith("super("):
                    raise AnalysisError("super() call in an analysed Grid method")
                self.eval(c, p)
                return [p]
            raise AnalysisError(f"expression statement not supported: {norm_text(st)[:60]}")
        if isinstance(st, ast.Raise):
            p.status = "raise"
            return [p]
        if isinstance(st, ast.Return):
            p.retval = self.eval(st.value, p) if st.value is not None else NONE
            p.status = "ret"
            return [p]
        if isinstance(st, ast.If):
            t = self.eval(st.test, p)
            if is_sym(t):
                t = True
            if t == NONE:
                t = False
            if t is True:
                return self.exec_block(st.body, [p])
            if t is False:
                return self.exec_block(st.orelse, [p])
            a, b = p, p.fork()
            if isinstance(t, tuple) and t[0] == "close":
                a.facts.append((t[1], t[2]))
            if isinstance(t, tuple) and t[0] == "nclose":
                b.facts.append((t[1], t[2]))
            return self.exec_block(st.body, [a]) + self.exec_block(st.orelse, [b])
        if isinstance(st, (ast.Assign, ast.AnnAssign)):
            targets = st.targets if isinstance(st, ast.Assign) else [st.target]
            if st.value is None:
                return [p]
            if len(targets) != 1:
                raise AnalysisError(f"chained assignment not supported: {norm_text(st)[:60]}")
            t = targets[0]
            d = dotted(t)
            if isinstance(t, ast.Name):
                p.env[t.id] = self.eval(st.value, p)
                return [p]
            if d and d.startswith("self.") and d.count(".") == 1:
                attr = t.attr
                if attr in FIELDS:
                    p.fields[attr] = self.eval_field_value(st, attr, p)
                    p.trace.append(f"{attr}={show(p.fields[attr])}")
                elif attr in LOCKS:
                    v = self.eval(st.value, p)
                    p.fields[attr] = v if isinstance(v, bool) else UNK
                elif attr in PROPS:
                    raise AnalysisError(f"assignment through the property self.{attr} inside Grid is not modelled")
                else:
                    self.eval(st.value, p)
                return [p]
            raise AnalysisError(f"assignment target not supported: {norm_text(st)[:60]}")
        raise AnalysisError(f"statement {type(st).__name__} in {self.cur[-1].short if self.cur else '?'} not supported "
                            "by the grid-state interpreter")

    # ------------------------------------------------------------------ stores into E/G/S
    def eval_field_value(self, st: ast.stmt, attr: str, p: Path):
        kind = FIELDS[attr]
        v = self.eval(st.value, p)
        if not (isinstance(v, tuple) and v and v[0] == "ew"):
            if v == NONE or (is_sym(v) and kind_of(v) == kind):
                return v
            if is_sym(v):
                f = self.cur[-1]
                self.ctx.violation("R-GRIDSTATE", f"{f.qualname}:store {attr}", f.loc(st),
                                   f"`{norm_text(st)[:70]}` stores a {KIND_NAME[kind_of(v)]} value ({show(v)}) into "
                                   f"the {KIND_NAME[kind]} field", key_detail="kind")
                return atom(kind, f"bad({show(v)})")
            raise AnalysisError(f"cannot evaluate the value stored into self.{attr}: {ast.unparse(st.value)[:60]}")
        _, value, vals_t, f = v
        elt = elementwise(value)[0]
        vals = dict(vals_t)
        if any(x == NONE for x in vals.values()):
            raise AnalysisError(f"{f.short}: element-wise store into self.{attr} reachable with a None operand "
                                "(the helper's None guard is gone)")
        ep_names = [n for n, v in vals.items() if v == ("endpoint",)]
        if len(ep_names) != 1:
            raise AnalysisError(f"{f.short}: store into self.{attr} does not iterate the endpoint flags exactly once")
        syms = {n: v for n, v in vals.items() if is_sym(v)}
        if len(syms) != 2:
            raise AnalysisError(f"{f.short}: store into self.{attr} is not a function of exactly two grid quantities")
        kinds = {n: kind_of(v) for n, v in syms.items()}
        ck = (id(value), tuple(sorted(kinds.items())))
        if ck not in self.term_cache:
            lf = local_functions(f.node)
            res = []
            for ep in (False, True):
                nz = ArmNormalizer(truth={ep_names[0]: ep}, local_funcs=lf, atom_alias=dict(kinds))
                res.append(nz.norm(elt))
            self.term_cache[ck] = res
        got_no, got_ep = self.term_cache[ck]
        if has_opaque_conditional(got_no) or has_opaque_conditional(got_ep):
            raise AnalysisError(f"{f.short}: conditional in the {KIND_NAME[kind]} formula is not on the endpoint flag")
        exp_no, exp_ep = expected_grid_term(kind, False), expected_grid_term(kind, True)
        ok = got_no == exp_no and got_ep == exp_ep
        key = (f.qualname, kind)
        detail_ok = f"{KIND_NAME[kind]} := {got_no.key()} | endpoint: {got_ep.key()}"
        detail_bad = (f"`self.{attr}` is computed as {got_no.key()} (endpoint: {got_ep.key()}) in E=extent, G=gpts, "
                      f"S=sampling of the arguments actually passed; the grid identity requires "
                      f"{describe_expected(kind)} = {exp_no.key()} | {exp_ep.key()}")
        prev = self.term_instances.get(key)
        if prev is None or (prev[0] and not ok):
            self.term_instances[key] = (ok, f.loc(value), detail_ok if ok else detail_bad)
        if not ok:
            return atom(kind, f"bad{kind}({','.join(show(v) for v in syms.values())})")
        byk = {kind_of(v): v for v in syms.values()}
        a, b = others(kind)
        if set(byk) != {a, b}:
            raise AnalysisError(f"{f.short}: verified formula but operand kinds {sorted(byk)} are inconsistent")
        return adj(kind, byk[a], byk[b])


# ---------------------------------------------------------------------------------------------
def simplify(v, rules: dict):
    """Rewrite to a normal form: adjS(adjE(g,s),g) -> s ; adjE(g,adjS(e,g)) -> e ; plus path facts."""
    if not is_sym(v):
        return v
    if v in rules:
        return simplify(rules[v], rules)
    if v[0] == "adj":
        a, b = simplify(v[2], rules), simplify(v[3], rules)
        k = v[1]
        if k == "S" and is_sym(a) and a[0] == "adj" and a[1] == "E" and a[2] == b:
            return simplify(a[3], rules)  # (g*s)/g
        if k == "E" and is_sym(b) and b[0] == "adj" and b[1] == "S" and b[3] == a:
            return simplify(b[2], rules)  # g*(e/g)
        w = ("adj", k, a, b)
        if w in rules:
            return simplify(rules[w], rules)
        return w
    return v


def consistent(E, G, S, rules: dict) -> bool:
    if NONE in (E, G, S):
        return True
    return S == simplify(adj("S", E, G), rules) or E == simplify(adj("E", G, S), rules)


_CAST_OK: dict[int, bool] = {}


def cast_model(m: FuncInfo) -> None:
    """A self-method used in value position is modelled as the identity on its first argument; that
    needs: no store into self, and every returned value depends on the first parameter."""
    if id(m.node) in _CAST_OK:
        return
    for n in ast.walk(m.node):
        if isinstance(n, ast.Attribute) and isinstance(n.ctx, ast.Store) and dotted(n.value) == "self":
            raise AnalysisError(f"{m.short} stores into self; the identity model does not apply")
    if len(m.positional_params) < 2:
        raise AnalysisError(f"{m.short} has no value parameter; the identity model does not apply")
    first = m.positional_params[1]
    rets = [n for n in ast.walk(m.node) if isinstance(n, ast.Return) and n.value is not None]
    if not rets:
        raise AnalysisError(f"{m.short} returns nothing; the identity model does not apply")
    for r in rets:
        if first not in {x.id for x in ast.walk(r.value) if isinstance(x, ast.Name)}:
            raise AnalysisError(f"{m.short} returns `{ast.unparse(r.value)[:50]}`, which does not depend on its "
                                "argument; the identity model does not apply")
    _CAST_OK[id(m.node)] = True


def run(ctx) -> None:
    repo = ctx.repo
    ctx.rule("R-GRIDSTATE", "abstract interpretation of Grid.__init__ and the extent/gpts/sampling setters over every "
             "configuration (which fields are defined x lock flags x None assigned) and every acyclic path: a "
             "non-raising path ends in a state where extent == gpts*sampling holds by construction (the last recomputed "
             "field is the verified formula of the two other final fields); the assigned field ends up holding the "
             "assigned value (sampling: possibly re-fitted to the integer gpts computed from it); a raising path leaves "
             "all three fields untouched")
    ctx.rule("R-ADJUST-TERM", "every element-wise store into _extent/_gpts/_sampling normalises, for both values of the "
             "endpoint flag and in terms of the kinds of the operands actually passed, to n*d | (n-1)*d, r/n | r/(n-1), "
             "ceil(r/d) | ceil(r/d)+1")
    ctx.rule("R-LOCK", "on every non-raising path a locked, defined field keeps its value (single-lock configurations); "
             "an assignment to a locked gpts/sampling raises before any store")
    ctx.rule("R-RECIPROCAL", "reciprocal_space_sampling is element-wise 1/(gpts*sampling) of the grid's own gpts and "
             "sampling")
    ctx.rule("R-DELEGATE", "HasGrid2DMixin forwards extent/gpts/sampling reads and writes to the same-named attribute "
             "of self.grid")
    ctx.assume("Grid._validate is an element-wise cast: it maps None to None and a value to the same value")
    ctx.undecided("floating-point rounding in ceil(extent/sampling); Grid.match/check_match/round_to_power (they go "
                  "through the setters decided here); behaviour of assigning None to a locked extent (reported as "
                  "information: un-defining is outside the property's quantifier over assignments of values)")

    cls = repo.cls(MOD, "Grid")
    for f in list(FIELDS) + list(LOCKS):
        ctx.require(any(isinstance(n, ast.Attribute) and n.attr == f and isinstance(n.ctx, ast.Store)
                        for n in ast.walk(cls.node)), f"Grid no longer stores self.{f}")
    it = Interp(ctx, cls)
    v = cls.find_method("_validate", "getter")
    ctx.require(v is not None, "Grid._validate not found")
    cast_model(v)

    problems: dict[tuple, dict] = {}
    stats: dict[str, dict] = {}

    def record(rule, fn: FuncInfo, symptom: str, detail: str, cfg_text: str, severity: str):
        k = (rule, fn.qualname, symptom, severity)
        e = problems.setdefault(k, {"n": 0, "detail": detail, "cfg": cfg_text, "fn": fn})
        e["n"] += 1

    # ---------------------------------------------------------------- setters
    for pname, kind in PROPS.items():
        setter = repo.method(MOD, "Grid", pname, kind="setter")
        vparam = setter.positional_params[1]
        st = stats.setdefault(setter.qualname, {"where": setter.where, "configs": 0, "paths": 0, "raising": 0, "locked_paths": 0})
        for defined in itertools.product((False, True), repeat=3):
            for locks in itertools.product((False, True), repeat=3):
                for v_none in (False, True):
                    init = {}
                    for (fname, k), d in zip(FIELDS.items(), defined):
                        init[fname] = atom(k, k + "0") if d else NONE
                    for (lname, k), l in zip(LOCKS.items(), locks):
                        init[lname] = l
                    new = NONE if v_none else atom(kind, "new")
                    p0 = Path(dict(init), {vparam: new})
                    it.cur = [setter]
                    outs = it.exec_block(setter.body, [p0])
                    st["configs"] += 1
                    cfg_text = _cfg_text(defined, locks, v_none, pname)
                    nlocks = sum(locks)
                    rules0 = {}
                    if all(defined):
                        rules0[adj("E", init["_gpts"], init["_sampling"])] = init["_extent"]
                        rules0[adj("S", init["_extent"], init["_gpts"])] = init["_sampling"]
                    for o in outs:
                        st["paths"] += 1
                        rules = dict(rules0)
                        for a, b in o.facts:
                            # `new` is numerically equal to an old value on this path
                            if a[0] == "atom" and a[2] == "new":
                                rules[a] = b
                            elif b[0] == "atom" and b[2] == "new":
                                rules[b] = a
                        fin = {f: simplify(o.fields[f], rules) for f in FIELDS}
                        E, G, S = fin["_extent"], fin["_gpts"], fin["_sampling"]
                        state_txt = f"(E,G,S)=({show(E)}, {show(G)}, {show(S)})"
                        if o.status == "raise":
                            st["raising"] += 1
                            changed = [f for f in FIELDS if o.fields[f] != init[f]]
                            if changed:
                                record("R-GRIDSTATE", setter, "raise-after-store:" + ",".join(changed),
                                       f"the setter raises after having stored into {changed}: the failed assignment "
                                       f"leaves a modified grid {state_txt}", cfg_text, "violation")
                            continue
                        # --- consistency
                        if not consistent(E, G, S, rules):
                            record("R-GRIDSTATE", setter, f"inconsistent:{show(E)}|{show(G)}|{show(S)}",
                                   f"a non-raising path ends with all three fields defined but none of them is the "
                                   f"grid formula of the two others: {state_txt}; stores on the path: "
                                   f"{'; '.join(o.trace) or 'none'}", cfg_text, "violation")
                        # --- the assignment takes effect
                        if not v_none:
                            got = fin[_field_of(kind)]
                            okv = got == simplify(new, rules)
                            if not okv and kind == "S" and E != NONE:
                                okv = got == adj("S", E, adj("G", E, new))
                            if not okv:
                                record("R-GRIDSTATE", setter, f"no-effect:{show(got)}",
                                       f"after `grid.{pname} = new` the {pname} field holds {show(got)}, not the "
                                       f"assigned value; {state_txt}", cfg_text, "violation")
                        # --- locks
                        for (fname, k), l in zip(FIELDS.items(), locks):
                            if not l or init[fname] == NONE:
                                continue
                            st["locked_paths"] += 1
                            if fin[fname] == init[fname]:
                                continue
                            old = init[fname]
                            refit = k == "S" and E != NONE and fin[fname] == adj("S", E, adj("G", E, old))
                            if v_none and fin[fname] == NONE and k == kind:
                                record("R-LOCK", setter, f"undefine:{k}",
                                       f"assigning None un-defines the locked {KIND_NAME[k]} without raising (a later "
                                       f"assignment can then change the locked value)", cfg_text,
                                       "violation" if UNDEFINE_LOCKED_IS_VIOLATION else "info")
                            elif nlocks >= 2:
                                record("R-LOCK", setter, f"overconstrained:{k}",
                                       f"KNOWN-SEMANTICS two or more locks: locked {KIND_NAME[k]} becomes "
                                       f"{show(fin[fname])} (upstream recomputes instead of raising)", cfg_text, "info")
                            elif refit:
                                record("R-LOCK", setter, f"refit:{k}",
                                       "KNOWN-SEMANTICS locked sampling is re-fitted to the integer gpts computed from "
                                       f"it: {show(fin[fname])}", cfg_text, "info")
                            else:
                                record("R-LOCK", setter, f"changed:{k}:{show(fin[fname])}",
                                       f"locked {KIND_NAME[k]} changes from {show(old)} to {show(fin[fname])} on a "
                                       f"non-raising path of `grid.{pname} = ...`", cfg_text, "violation")

    # ---------------------------------------------------------------- __init__
    init_f = repo.method(MOD, "Grid", "__init__")
    st = stats.setdefault(init_f.qualname, {"where": init_f.where, "configs": 0, "paths": 0, "raising": 0, "locked_paths": 0})
    for p_ in PROPS:
        ctx.require(p_ in init_f.params, f"Grid.__init__ lost its `{p_}` parameter")
    for given in itertools.product((False, True), repeat=3):
        env = {}
        for (pn, k), g in zip(PROPS.items(), given):
            env[pn] = atom(k, k + "in") if g else NONE
        for other in init_f.params[1:]:
            env.setdefault(other, ("other", other))
        p0 = Path({}, env)
        it.cur = [init_f]
        outs = it.exec_block(init_f.body, [p0])
        st["configs"] += 1
        cfg_text = "Grid(" + ", ".join(pn for pn, g in zip(PROPS, given) if g) + ")"
        for o in outs:
            st["paths"] += 1
            if o.status == "raise":
                st["raising"] += 1
                continue
            for f in FIELDS:
                if f not in o.fields:
                    raise AnalysisError(f"Grid.__init__ has a path that never stores self.{f}")
            fin = {f: simplify(o.fields[f], {}) for f in FIELDS}
            E, G, S = fin["_extent"], fin["_gpts"], fin["_sampling"]
            state_txt = f"(E,G,S)=({show(E)}, {show(G)}, {show(S)})"
            if not consistent(E, G, S, {}):
                record("R-GRIDSTATE", init_f, f"inconsistent:{show(E)}|{show(G)}|{show(S)}",
                       f"constructor ends with all fields defined but not bound by the grid formula: {state_txt}",
                       cfg_text, "violation")
            ndef = sum(given)
            if ndef >= 2 and NONE in (E, G, S):
                record("R-GRIDSTATE", init_f, "underdetermined",
                       f"two quantities given but the third is left undefined: {state_txt}", cfg_text, "violation")
            for (pn, k), g in zip(PROPS.items(), given):
                if g and k in ("E", "G") and fin[_field_of(k)] != env[pn]:
                    record("R-GRIDSTATE", init_f, f"no-effect:{k}:{show(fin[_field_of(k)])}",
                           f"the {pn} passed to the constructor is not the {pn} of the grid: {state_txt}", cfg_text,
                           "violation")
            if given == (False, True, True) and S != env["sampling"]:
                record("R-GRIDSTATE", init_f, f"no-effect:S:{show(S)}",
                       f"Grid(gpts, sampling) does not keep the given sampling: {state_txt}", cfg_text, "violation")

    # ---------------------------------------------------------------- report
    for (fq, kind), (ok, where, detail) in sorted(it.term_instances.items()):
        ctx.check(ok, "R-ADJUST-TERM", f"{fq}:{KIND_NAME[kind]}-formula", where, detail, detail, key_detail=kind)
    ctx.require(len(it.term_instances) >= 3, "fewer than three element-wise grid formulas were reached")
    seen_viol: set = set()
    for (rule, fq, symptom, sev), e in sorted(problems.items(), key=lambda kv: kv[0]):
        fn = e["fn"]
        text = f"{e['detail']} [first configuration: {e['cfg']}; {e['n']} path(s)]"
        if sev == "info":
            ctx.info(rule, f"{fq}:{symptom}", fn.where, text)
        else:
            seen_viol.add((rule, fq))
            ctx.violation(rule, f"{fq}:{symptom.split(':')[0]}", fn.where, text, key_detail=symptom)
    for fq, s in stats.items():
        for rule in ("R-GRIDSTATE", "R-LOCK"):
            if rule == "R-LOCK" and fq.endswith("__init__"):
                continue
            if (rule, fq) in seen_viol:
                continue
            what = (f"{s['configs']} configurations, {s['paths']} paths ({s['raising']} raising): every non-raising "
                    "path ends consistent and the assigned value takes effect" if rule == "R-GRIDSTATE" else
                    f"{s['locked_paths']} (path, locked defined field) pairs: value kept, or a triaged upstream "
                    "semantic listed as information")
            ctx.ok(rule, fq, s["where"], what)
    ctx.extra["gridstate_stats"] = stats

    # lock guards: assignment to a locked gpts / sampling raises on every path (any configuration)
    _check_reciprocal(ctx, repo, cls, it)
    _check_delegation(ctx, repo)


def _field_of(kind: str) -> str:
    return {v: k for k, v in FIELDS.items()}[kind]


def _cfg_text(defined, locks, v_none, pname) -> str:
    d = ",".join(n for n, x in zip(("extent", "gpts", "sampling"), defined) if x) or "nothing"
    l = ",".join(n for n, x in zip(("extent", "gpts", "sampling"), locks) if x) or "none"
    return f"defined={{{d}}} locks={{{l}}} grid.{pname} = {'None' if v_none else 'new'}"


def _check_reciprocal(ctx, repo, cls: ClassInfo, it: Interp) -> None:
    f = repo.method(MOD, "Grid", "reciprocal_space_sampling")
    rets = [n for n in ast.walk(f.node) if isinstance(n, ast.Return) and n.value is not None]
    ctx.require(len(rets) == 1, "Grid.reciprocal_space_sampling: expected a single return")
    ew = elementwise(rets[0].value)
    ctx.require(ew is not None, "Grid.reciprocal_space_sampling is not an element-wise expression")
    elt, binding = ew
    p = Path({fn: atom(k, k) for fn, k in FIELDS.items()}, {})
    kinds = {}
    for name, src in binding.items():
        v = it.eval(src, p)
        if not is_sym(v):
            raise AnalysisError(f"reciprocal_space_sampling iterates `{ast.unparse(src)}`, not a grid quantity")
        kinds[name] = kind_of(v)
    got = ArmNormalizer(atom_alias=kinds, local_funcs=local_functions(f.node)).norm(elt)
    exp = (Poly.atom("G") * Poly.atom("S")).inverse()
    ctx.check(got == exp, "R-RECIPROCAL", f"{f.qualname}", f.loc(rets[0]),
              f"element term {got.key()} == 1/(gpts*sampling)",
              f"reciprocal_space_sampling is element-wise {got.key()} (E=extent, G=gpts, S=sampling), expected "
              f"{exp.key()} = 1/(gpts*sampling)", key_detail="term")


def _check_delegation(ctx, repo) -> None:
    mix = repo.cls(MOD, "HasGrid2DMixin")
    for pname in list(PROPS) + ["reciprocal_space_sampling"]:
        g = mix.own_method(pname, "getter")
        ctx.require(g is not None, f"HasGrid2DMixin.{pname} getter not found")
        reads = {dotted(n) for n in ast.walk(g.node) if isinstance(n, ast.Attribute)}
        grid_reads = {r.split(".")[2] for r in reads if r and r.startswith("self.grid.") and r.count(".") == 2}
        ctx.check(grid_reads == {pname}, "R-DELEGATE", f"{g.qualname}:getter", g.where,
                  f"reads self.grid.{pname}",
                  f"the {pname} getter reads {sorted('self.grid.' + r for r in grid_reads) or 'nothing of self.grid'} "
                  f"instead of self.grid.{pname}", key_detail="getter")
        if pname not in PROPS:
            continue
        s = mix.own_method(pname, "setter")
        ctx.require(s is not None, f"HasGrid2DMixin.{pname} setter not found")
        vparam = s.positional_params[1]
        stores = [st for st in ast.walk(s.node) if isinstance(st, ast.Assign) and any(
            (dotted(t) or "").startswith("self.grid.") for t in st.targets)]
        ctx.require(len(stores) >= 1, f"HasGrid2DMixin.{pname} setter no longer stores into self.grid")
        good = all(dotted(t) == f"self.grid.{pname}" for st in stores for t in st.targets) and all(
            isinstance(st.value, ast.Name) and st.value.id == vparam for st in stores)
        ctx.check(good, "R-DELEGATE", f"{s.qualname}:setter", s.where, f"self.grid.{pname} = {vparam}",
                  f"the {pname} setter does `{'; '.join(norm_text(st) for st in stores)}` instead of forwarding its "
                  f"argument to self.grid.{pname}", key_detail="setter")
