"""C17 — simulation grids stay consistent through any history of edits (abtem/core/grid.py).

R-GRIDSTATE is decided by an abstract interpretation of `Grid.__init__` and the three property
setters over a finite configuration space: which of (extent, gpts, sampling) are defined, which
lock flags are set, whether the assigned value is None.  Field values are symbolic terms
    E0 G0 S0 new   adjE(g, s)   adjG(e, s)   adjS(e, g)
where an `adj*` term is produced only by a store whose right-hand side has been *verified* to be
the defining formula of that quantity: the stored value is kept as a lazily evaluated per-axis term
(Interp.verify) and evaluated component by component for every assignment of the per-axis endpoint
flags of a two-axis grid compatible with the flag tests taken on the path.
All acyclic paths are enumerated; guards that are lock flags or None-tests are decided by the
configuration, closeness tests (`np.allclose(new, old)`) fork and leave a fact on the true arm.
"""
from __future__ import annotations

import ast
import itertools
import re
from dataclasses import dataclass, field
from typing import Optional

from ..model import AnalysisError, ClassInfo, FuncInfo, dotted, norm_text, strip_docstring
from ..rules.gridterms import (ArmNormalizer, bind_loop_target, describe_expected, elementwise, expected_grid_term,
                               has_opaque_conditional, local_functions, strip_key)
from ..terms import Poly

MOD = "abtem.core.grid"
FIELDS = {"_extent": "E", "_gpts": "G", "_sampling": "S"}
LOCKS = {"_lock_extent": "E", "_lock_gpts": "G", "_lock_sampling": "S"}
PROPS = {"extent": "E", "gpts": "G", "sampling": "S"}
ENDPOINT_FIELD = "_endpoint"
KIND_NAME = {"E": "extent", "G": "gpts", "S": "sampling"}
CLOSE_CALLS = {"allclose", "isclose", "array_equal", "array_equiv"}

# Assigning None to a locked, defined extent un-defines it without raising (and a following assignment
# then changes the "locked" value).  Reported as information by default: the property quantifies over
# assignments of values to a fully defined grid.  Set to True to report it as a violation instead.
UNDEFINE_LOCKED_IS_VIOLATION = True

NONE = ("none",)
UNK = ("unk",)
# The endpoint flags are ONE FLAG PER AXIS.  Stores into extent/gpts/sampling are evaluated component by component
# for every assignment of the flags of a two-axis grid (the smallest grid on which "the flag of this axis", "the flag
# of the other axis", `any(flags)` and `all(flags)` are four different things).
EP = ("endpoint",)
EP_REV = ("endpoint", "rev")
AXES = (0, 1)
FLAG_ASSIGNMENTS = tuple(itertools.product((False, True), repeat=len(AXES)))


def atom(kind: str, name: str):
    return ("atom", kind, name)


def adj(kind: str, a, b):
    """adjE(g, s) / adjG(e, s) / adjS(e, g) — arguments in the fixed order of the other two kinds."""
    return ("adj", kind, a, b)


def is_sym(v) -> bool:
    return isinstance(v, tuple) and v and v[0] in ("atom", "adj")


def kind_of(v) -> Optional[str]:
    return v[1] if is_sym(v) else None


def _tag(v):
    return v[0] if isinstance(v, tuple) and v else None


def is_fl(v) -> bool:
    """A boolean term over the per-axis endpoint flags: ("fl", "e", axis) | any/all(vector) | not | and | or."""
    return _tag(v) == "fl"


def is_flaglike(v) -> bool:
    return v in (EP, EP_REV) or is_fl(v) or (_tag(v) == "comp" and is_flaglike(v[1]))


def is_vector(v) -> bool:
    """A value with one component per axis: a grid quantity, the flags, a lazily evaluated element-wise term."""
    return is_sym(v) or v in (EP, EP_REV) or _tag(v) in ("ew", "vec", "ite")


def is_scalar(v) -> bool:
    return _tag(v) == "comp" or is_fl(v)


def component(v, k: int):
    if v == EP:
        return ("fl", "e", k)
    if v == EP_REV:
        return ("fl", "e", len(AXES) - 1 - k)
    return ("comp", v, k)


def pending(kind: str, term, f, st):
    """A value stored into a field whose formula is not (yet) the grid formula: it behaves as a quantity of its kind,
    and a later store into the same field may complete it (`g = ceil(r/d)` ... `g = g + endpoint`).  It is decided
    when the method that stored it returns."""
    return ("atom", kind, f"unverified{kind}", _Opaque(term), _Opaque((f, st)))


class _Opaque:
    """Identity-hashed box (terms hold ast nodes and FuncInfo records, which are not hashable by value)."""

    def __init__(self, item):
        self.item = item


def is_pending(v) -> bool:
    return is_sym(v) and v[0] == "atom" and len(v) == 5


def leaf_syms(v, expand: Optional[str] = None, out=None) -> list:
    """The grid quantities a lazily evaluated term is built from (an unverified value of kind `expand` counts as
    the term it was computed with)."""
    out = [] if out is None else out
    if is_pending(v) and kind_of(v) == expand:
        leaf_syms(v[3].item, expand, out)
    elif is_sym(v):
        if v not in out:
            out.append(v)
    elif _tag(v) == "ew":
        for _, x in v[2]:
            leaf_syms(x, expand, out)
    elif _tag(v) == "comp":
        leaf_syms(v[1], expand, out)
    elif _tag(v) == "vec":
        for x in v[1]:
            leaf_syms(x, expand, out)
    elif _tag(v) == "ite":
        leaf_syms(v[2], expand, out)
        leaf_syms(v[3], expand, out)
    return out


def value_key(v, names: dict):
    """Hashable identity of a lazily evaluated term up to the identity of the quantities it reads."""
    if is_sym(v) and v in names:
        return ("sym", names[v])
    if is_pending(v):
        return ("pending", value_key(v[3].item, names))
    if is_sym(v):
        return ("sym", kind_of(v))
    t = _tag(v)
    if t == "ew":
        return ("ew", id(v[1]), tuple((n, value_key(x, names)) for n, x in v[2]), v[3].qualname)
    if t == "comp":
        return ("comp", value_key(v[1], names), v[2])
    if t == "vec":
        return ("vec", tuple(value_key(x, names) for x in v[1]))
    if t == "ite":
        return ("ite", value_key(v[1], names), value_key(v[2], names), value_key(v[3], names))
    if t == "fl":
        if v[1] == "e":
            return v
        if v[1] in ("any", "all", "not"):
            return ("fl", v[1], value_key(v[2], names))
        return ("fl", v[1], tuple(value_key(x, names) for x in v[2]))
    return v


def show(v) -> str:
    if v == NONE:
        return "None"
    if isinstance(v, tuple) and v and v[0] == "atom":
        return v[2]
    if isinstance(v, tuple) and v and v[0] == "adj":
        return f"adj{v[1]}({show(v[2])},{show(v[3])})"
    if isinstance(v, tuple) and v and v[0] == "other":
        return f"<{v[1][:30]}>"
    return str(v)


def others(kind: str) -> tuple[str, str]:
    return {"E": ("G", "S"), "G": ("E", "S"), "S": ("E", "G")}[kind]


@dataclass
class Path:
    fields: dict
    env: dict
    facts: list = field(default_factory=list)  # (a, b): a is numerically equal to b on this path
    status: str = "run"  # run | ret | raise
    retval: object = None
    trace: list = field(default_factory=list)
    epconds: list = field(default_factory=list)  # (flag term, truth): tests on the endpoint flags taken on this path

    def fork(self) -> "Path":
        return Path(dict(self.fields), dict(self.env), list(self.facts), self.status, self.retval, list(self.trace),
                    list(self.epconds))


class Interp:
    def __init__(self, ctx, cls: ClassInfo):
        self.ctx = ctx
        self.cls = cls
        self.term_cache: dict = {}
        self.term_instances: dict = {}  # (method qualname, field kind) -> (ok, where, detail)
        self.depth = 0
        self.cur: list[FuncInfo] = []
        self.nesting = 0
        self.symnames: dict = {}  # atom names of the grid quantities of the formula being verified

    # ------------------------------------------------------------------ attribute resolution
    def self_attr(self, attr: str, p: Path, seen=()):
        if attr in FIELDS or attr in LOCKS:
            return p.fields.get(attr, UNK)
        if attr == ENDPOINT_FIELD:
            return ("endpoint",)
        if attr in seen:
            raise AnalysisError(f"Grid.{attr}: cyclic property")
        g = self.cls.find_method(attr, "getter")
        if g is not None and g.is_property:
            body = strip_docstring(g.node.body)
            if len(body) == 1 and isinstance(body[0], ast.Return) and body[0].value is not None:
                d = dotted(body[0].value)
                if d and d.startswith("self.") and d.count(".") == 1:
                    return self.self_attr(d.split(".")[1], p, seen + (attr,))
            if attr in PROPS:
                raise AnalysisError(f"Grid.{attr} getter is no longer a plain read of a backing field")
        if attr in PROPS:
            raise AnalysisError(f"Grid.{attr} getter not found")
        return ("other", f"self.{attr}")

    # ------------------------------------------------------------------ expressions
    def eval(self, e: ast.expr, p: Path):
        """-> NONE | sym | True | False | UNK | ('close', a, b) | ('nclose', a, b) | ('other', text) | ('endpoint',)"""
        if isinstance(e, ast.Constant):
            if e.value is None:
                return NONE
            if isinstance(e.value, bool):
                return e.value
            if isinstance(e.value, (int, float)):
                return ("num", e.value)
            return ("other", repr(e.value))
        if isinstance(e, ast.Name):
            if e.id in p.env:
                return p.env[e.id]
            return ("other", e.id)
        if isinstance(e, ast.Attribute):
            d = dotted(e)
            if d and d.startswith("self.") and d.count(".") == 1:
                return self.self_attr(e.attr, p)
            return ("other", ast.unparse(e))
        if isinstance(e, ast.UnaryOp) and isinstance(e.op, ast.Not):
            v = self.truth(self.eval(e.operand, p))
            if isinstance(v, bool):
                return not v
            if v[0] == "close":
                return ("nclose",) + v[1:]
            if v[0] == "nclose":
                return ("close",) + v[1:]
            if is_fl(v):
                return v[2] if v[1] == "not" else ("fl", "not", v)
            return UNK
        if isinstance(e, ast.BoolOp):
            is_and = isinstance(e.op, ast.And)
            absorbing, neutral = (False, True) if is_and else (True, False)
            pending = []
            for operand in e.values:  # sequential: operands after an absorbing one are never evaluated
                v = self.truth(self.eval(operand, p))
                if v is absorbing:
                    return absorbing
                if v is not neutral:
                    pending.append(v)
            if not pending:
                return neutral
            if len(pending) == 1:
                return pending[0]
            if all(is_fl(v) for v in pending):
                return ("fl", "and" if is_and else "or", tuple(pending))
            return UNK
        if isinstance(e, ast.Compare) and len(e.ops) == 1:
            a, b = self.eval(e.left, p), self.eval(e.comparators[0], p)
            op = e.ops[0]
            if isinstance(op, (ast.Is, ast.IsNot, ast.Eq, ast.NotEq)) and (a == NONE or b == NONE):
                x = b if a == NONE else a
                if x == NONE:
                    res = True
                elif is_sym(x) or isinstance(x, bool):
                    res = False
                else:
                    return UNK
                return res if isinstance(op, (ast.Is, ast.Eq)) else (not res)
            if isinstance(op, (ast.Eq, ast.NotEq)) and is_sym(a) and is_sym(b) and kind_of(a) == kind_of(b) and \
                    not is_pending(a) and not is_pending(b):
                # two grid quantities of the same kind compared for equality (a field with a snapshot of it taken
                # before an adjuster ran, the new value with the current one): identical terms are equal, otherwise
                # the path forks and the 'equal' arm carries the fact (exact equality implies closeness)
                if a == b:
                    return isinstance(op, ast.Eq)
                return ("close" if isinstance(op, ast.Eq) else "nclose", a, b)
            self._no_state_in_unknown(e, p)
            return UNK
        ew = elementwise(e)
        if ew is not None:
            # evaluated lazily, component by component: the formula is verified against the kind of the field it is
            # stored into (free names of the element expression keep the value they have here)
            elt, binding = ew
            vals = {name: self.eval(src, p) for name, src in binding.items()}
            for name, v in self.free_values(elt, p).items():
                vals.setdefault(name, v)
            return ("ew", elt, tuple(vals.items()), self.cur[-1])
        if isinstance(e, ast.Call):
            return self.eval_call(e, p)
        if isinstance(e, ast.List) and not e.elts:
            return ("vec", ())  # a list to be filled by one append per axis
        if isinstance(e, ast.IfExp):
            t = self.truth(self.eval(e.test, p))
            if isinstance(t, bool):
                return self.eval(e.body if t else e.orelse, p)
            if is_fl(t):
                return ("ite", t, self.eval(e.body, p), self.eval(e.orelse, p))
        if isinstance(e, ast.Subscript):
            base = self.eval(e.value, p)
            if is_vector(base):
                k = self.axis_index(e.slice, p)
                if k is not None:
                    return component(base, k)
                if base in (EP, EP_REV) and isinstance(e.slice, ast.Slice) and e.slice.lower is None and \
                        e.slice.upper is None and isinstance(e.slice.step, ast.UnaryOp) and \
                        ast.unparse(e.slice.step) == "-1":
                    return EP_REV if base == EP else EP
                raise AnalysisError(f"subscript of a grid quantity not supported: {ast.unparse(e)[:60]}")
        if isinstance(e, (ast.BinOp, ast.IfExp, ast.UnaryOp)):
            cl = self.closure(e, p)
            if cl is not None:
                return cl
        if isinstance(e, (ast.BinOp, ast.Tuple, ast.List, ast.Subscript, ast.IfExp, ast.JoinedStr, ast.Dict,
                          ast.UnaryOp)):
            return ("other", ast.unparse(e)[:60])
        raise AnalysisError(f"expression form {type(e).__name__} not supported: {ast.unparse(e)[:60]}")

    @staticmethod
    def truth(v):
        """Truth value of an evaluated expression: True / False / close-fact / UNK."""
        if isinstance(v, bool):
            return v
        if v == NONE:
            return False
        if is_sym(v):
            return True  # a validated grid quantity is a non-empty tuple
        if isinstance(v, tuple) and v and v[0] in ("close", "nclose", "fl"):
            return v
        return UNK

    # ------------------------------------------------------------------ per-axis values
    def free_values(self, e: ast.expr, p: Path) -> dict:
        """Values of the local names and `self.x` reads of an expression (dotted name -> value)."""
        out = {}
        for n in ast.walk(e):
            if isinstance(n, ast.Name) and isinstance(n.ctx, ast.Load) and n.id in p.env:
                out[n.id] = p.env[n.id]
            elif isinstance(n, ast.Attribute) and isinstance(n.value, ast.Name) and n.value.id == "self" and \
                    isinstance(n.ctx, ast.Load):
                out[f"self.{n.attr}"] = self.self_attr(n.attr, p)
        return out

    def closure(self, e: ast.expr, p: Path):
        """Array-style arithmetic on whole grid quantities (`np.array(gpts) * sampling`) or scalar arithmetic on
        components inside an axis loop, as a lazily evaluated term.  None when `e` involves no grid quantity."""
        vals = self.free_values(e, p)
        if not any(is_vector(v) or is_scalar(v) for v in vals.values()):
            return None  # plain numbers / unrelated values: not a grid formula
        if any(isinstance(n, ast.Subscript) for n in ast.walk(e)):
            # `gpts[i]` inside an axis loop / `gpts[0]`: the addressed component becomes an operand of its own
            interp, extra = self, {}

            class _Components(ast.NodeTransformer):
                def visit_Subscript(self, n):
                    base = interp.eval(n.value, p) if dotted(n.value) else None
                    if base is None or not is_vector(base):
                        return self.generic_visit(n)
                    k = interp.axis_index(n.slice, p)
                    if k is None:
                        raise AnalysisError(f"subscript of a grid quantity not supported: {ast.unparse(n)[:60]}")
                    name = f"component_{len(extra)}_of_{ast.unparse(n.value).replace('.', '_')}"
                    extra[name] = component(base, k)
                    return ast.copy_location(ast.Name(id=name, ctx=ast.Load()), n)

            import copy
            e = _Components().visit(copy.deepcopy(e))
            vals = {**self.free_values(e, p), **extra}
        for n in ast.walk(e):
            if isinstance(n, (ast.GeneratorExp, ast.ListComp, ast.SetComp, ast.DictComp, ast.Lambda, ast.NamedExpr,
                              ast.Starred)):
                raise AnalysisError(f"nested comprehension in an expression over grid quantities: "
                                    f"{ast.unparse(e)[:60]}")
            if isinstance(n, ast.Call) and (dotted(n.func) or "").startswith("self."):
                raise AnalysisError(f"self method call nested in an expression over grid quantities: "
                                    f"{ast.unparse(e)[:60]}")
        return ("ew", e, tuple(vals.items()), self.cur[-1])

    def axis_index(self, s: ast.AST, p: Path) -> Optional[int]:
        """Axis addressed by a subscript: a literal index of a two-axis grid or the index of an axis loop."""
        if isinstance(s, ast.UnaryOp) and isinstance(s.op, ast.USub) and isinstance(s.operand, ast.Constant):
            s = ast.Constant(value=-s.operand.value) if isinstance(s.operand.value, int) else s
        if isinstance(s, ast.Constant) and isinstance(s.value, int) and not isinstance(s.value, bool) and \
                -len(AXES) <= s.value < len(AXES):
            return s.value % len(AXES)
        if isinstance(s, ast.Name) and isinstance(p.env.get(s.id), tuple) and p.env[s.id][:1] == ("idx",):
            return p.env[s.id][1]
        return None

    def flag_value(self, t, flags) -> bool:
        """Truth of a flag term under an assignment of the per-axis endpoint flags."""
        op = t[1]
        if op == "e":
            return flags[t[2]]
        if op in ("any", "all"):
            comps = [self.flag_comp(t[2], a, flags) for a in AXES]
            return any(comps) if op == "any" else all(comps)
        if op == "not":
            return not self.flag_value(t[2], flags)
        if op == "and":
            return all(self.flag_value(x, flags) for x in t[2])
        if op == "or":
            return any(self.flag_value(x, flags) for x in t[2])
        raise AnalysisError(f"flag term {t!r} not understood")

    def flag_comp(self, v, a: int, flags) -> bool:
        """Component `a` of a vector of booleans derived from the endpoint flags."""
        if v == EP:
            return flags[a]
        if v == EP_REV:
            return flags[len(AXES) - 1 - a]
        if is_fl(v):
            return self.flag_value(v, flags)
        if isinstance(v, tuple) and v and v[0] == "comp":
            return self.flag_comp(v[1], v[2], flags)
        if isinstance(v, tuple) and v and v[0] == "ew":
            r = self.binder(v, a, flags)._truth(v[1])
            if r is not None:
                return r
        raise AnalysisError("a test on the endpoint flags reads them in a form the analyser cannot decide")

    def binder(self, v, a: int, flags) -> ArmNormalizer:
        """Normalizer of the element expression of the lazy term `v` for axis `a` under the flag assignment."""
        _, elt, vals, f = v
        truth, polys = {}, {}
        for name, val in vals:
            if val == NONE:
                raise AnalysisError(f"{f.short}: element-wise expression reachable with a None operand "
                                    "(the helper's None guard is gone)")
            if is_flaglike(val):
                truth[name] = self.flag_comp(val, a, flags)
            elif isinstance(val, tuple) and val and val[0] == "ew":
                b = self.binder(val, a, flags)._truth(val[1])
                if b is not None:
                    truth[name] = b
                else:
                    polys[name] = self.comp_poly(val, a, flags)
            elif is_vector(val) or is_scalar(val):
                polys[name] = self.comp_poly(val, a, flags)
        return ArmNormalizer(truth=truth, polys=polys, local_funcs=local_functions(f.node))

    def comp_poly(self, v, a: int, flags) -> Poly:
        """Component `a` of a grid-valued term as a polynomial in the per-axis atoms E<a>, G<a>, S<a>."""
        if is_sym(v) and v in self.symnames:
            return Poly.atom(f"{self.symnames[v]}{a}")
        if is_pending(v):
            return self.comp_poly(v[3].item, a, flags)  # the unverified value of the field being completed
        if is_sym(v):
            return Poly.atom(f"{kind_of(v)}{a}")
        if is_flaglike(v):
            return Poly.const(1 if self.flag_comp(v, a, flags) else 0)
        if v == NONE:
            raise AnalysisError("element-wise expression reachable with a None operand")
        tag = v[0] if isinstance(v, tuple) and v else None
        if tag == "num":
            return ArmNormalizer().norm(ast.Constant(value=v[1]))
        if tag == "comp":
            return self.comp_poly(v[1], v[2], flags)
        if tag == "ew":
            nz = self.binder(v, a, flags)
            b = nz._truth(v[1])
            return Poly.const(1 if b else 0) if b is not None else nz.norm(v[1])
        if tag == "vec":
            if len(v[1]) != len(AXES):
                raise AnalysisError("a list of per-axis values is not built by exactly one append per axis")
            return self.comp_poly(v[1][a], a, flags)
        if tag == "ite":
            return self.comp_poly(v[2] if self.flag_value(v[1], flags) else v[3], a, flags)
        raise AnalysisError(f"value {show(v)} inside a grid formula cannot be evaluated per axis")

    def satisfiable(self, conds) -> bool:
        return any(all(self.flag_value(t, fl) == want for t, want in conds) for fl in FLAG_ASSIGNMENTS)

    def _no_state_in_unknown(self, e: ast.expr, p: Path) -> None:
        """An undecidable test must not read the grid state (else the enumeration would invent paths)."""
        for n in ast.walk(e):
            if isinstance(n, ast.Attribute) and isinstance(n.value, ast.Name) and n.value.id == "self":
                v = self.self_attr(n.attr, p)
                if is_sym(v) or v == NONE or isinstance(v, bool):
                    raise AnalysisError(f"test `{ast.unparse(e)[:70]}` reads grid state in a form the analyser "
                                        "cannot decide")

    def eval_call(self, c: ast.Call, p: Path):
        fn = dotted(c.func)
        short = fn.split(".")[-1] if fn else None
        if fn and fn.startswith("self.") and fn.count(".") == 1:
            m = self.cls.find_method(short, "getter")
            if m is None or m.is_property:
                raise AnalysisError(f"call of unknown method self.{short}")
            # value position: cast-like helpers (no store into self, result depends on the first argument) are the
            # identity on their argument; any other method is interpreted, provided it is a pure query of the
            # state (no field changes, a single non-raising outcome) — e.g. check_is_defined(raise_error=False)
            try:
                cast_model(m)
            except AnalysisError:
                outs = [o for o in self.call_method(m, c, p.fork()) if o.status != "raise"]
                if len(outs) != 1 or outs[0].fields != p.fields:
                    raise AnalysisError(f"self.{short}(...) used as a value is neither cast-like nor a pure query "
                                        "with a single outcome")
                rv = outs[0].retval
                return UNK if rv is None else rv
            if not c.args:
                raise AnalysisError(f"self.{short}() used as a value without a positional argument")
            return self.eval(c.args[0], p)
        if short in CLOSE_CALLS and len(c.args) >= 2:
            a, b = self.eval(c.args[0], p), self.eval(c.args[1], p)
            if is_sym(a) and is_sym(b):
                return ("close", a, b)
            return UNK
        if short in ("array", "asarray", "float") and len(c.args) >= 1:
            return self.eval(c.args[0], p)
        if short in ("tuple", "list", "int", "bool", "asanyarray") and len(c.args) == 1 and not c.keywords:
            v = self.eval(c.args[0], p)
            if is_vector(v) or is_scalar(v):
                return v
        if fn == "list" and not c.args and not c.keywords:
            return ("vec", ())
        if short == "reversed" and len(c.args) == 1 and self.eval(c.args[0], p) in (EP, EP_REV):
            return EP_REV if self.eval(c.args[0], p) == EP else EP
        if short in ("all", "any") and len(c.args) == 1:
            v = self.eval(c.args[0], p)
            if short == "all" and isinstance(v, tuple) and v and v[0] in ("close", "nclose"):
                return v
            if v in (EP, EP_REV) or (_tag(v) == "ew" and v[2] and all(
                    is_flaglike(x) or _tag(x) == "num" for _, x in v[2]) and any(is_flaglike(x) for _, x in v[2])):
                return ("fl", short, v)  # decided per assignment of the per-axis flags
            if is_fl(v):
                return v
            return UNK
        # any other (non-self) call: no effect on the tracked state, unknown value
        for a in list(c.args) + [k.value for k in c.keywords]:
            for n in ast.walk(a):
                if isinstance(n, ast.Call) and (dotted(n.func) or "").startswith("self."):
                    raise AnalysisError(f"self method call nested in an opaque call: {ast.unparse(c)[:60]}")
        cl = self.closure(c, p)
        if cl is not None:
            return cl
        return ("other", ast.unparse(c)[:60])

    # ------------------------------------------------------------------ statements
    def call_method(self, m: FuncInfo, c: ast.Call, p: Path) -> list[Path]:
        if self.depth > 6:
            raise AnalysisError("method call nesting too deep")
        params = m.positional_params[1:]
        env = {}
        defaults = m.defaults()
        if any(isinstance(a, ast.Starred) for a in c.args) or any(k.arg is None for k in c.keywords):
            raise AnalysisError(f"star-arguments in {ast.unparse(c)[:60]}")
        for name, a in zip(params, c.args):
            env[name] = self.eval(a, p)
        for k in c.keywords:
            env[k.arg] = self.eval(k.value, p)
        for name in m.params[1:]:
            if name not in env:
                if name in defaults:
                    env[name] = self.eval(defaults[name], p)
                else:
                    raise AnalysisError(f"{m.short}: parameter {name} not bound at {ast.unparse(c)[:60]}")
        q = p.fork()
        q.env = env
        self.depth += 1
        self.cur.append(m)
        try:
            outs = self.exec_block(m.body, [q])
        finally:
            self.cur.pop()
            self.depth -= 1
        for o in outs:
            self.settle(o)
            o.env = dict(p.env)
            if o.status == "ret":
                o.status = "run"
            elif o.status == "run":
                o.retval = None
        return outs

    def exec_block(self, stmts: list[ast.stmt], paths: list[Path]) -> list[Path]:
        self.nesting += 1
        try:
            for st in stmts:
                nxt: list[Path] = []
                for p in paths:
                    if p.status != "run":
                        nxt.append(p)
                    else:
                        nxt.extend(self.exec_stmt(st, p))
                paths = nxt
                if len(paths) > 4096:
                    raise AnalysisError("path explosion")
        finally:
            self.nesting -= 1
        if self.nesting == 0:  # the body of the method the interpretation was started on is complete
            for p in paths:
                self.settle(p)
        return paths

    def exec_stmt(self, st: ast.stmt, p: Path) -> list[Path]:
        if isinstance(st, (ast.Pass, ast.Assert, ast.FunctionDef, ast.Import, ast.ImportFrom)):
            return [p]
        if isinstance(st, ast.Expr):
            if isinstance(st.value, ast.Constant):
                return [p]
            if isinstance(st.value, ast.Call):
                c = st.value
                fn = dotted(c.func)
                if fn and fn.startswith("self.") and fn.count(".") == 1:
                    m = self.cls.find_method(fn.split(".")[1], "getter")
                    if m is None or m.is_property:
                        raise AnalysisError(f"call of unknown method {fn}")
                    return self.call_method(m, c, p)
                if fn and fn.startswith("super("):
                    raise AnalysisError("super() call in an analysed Grid method")
                if isinstance(c.func, ast.Attribute) and isinstance(c.func.value, ast.Name) and \
                        _tag(p.env.get(c.func.value.id)) == "vec":
                    if c.func.attr != "append" or len(c.args) != 1 or c.keywords:
                        raise AnalysisError(f"list of per-axis values changed other than by append: "
                                            f"{ast.unparse(c)[:60]}")
                    x = self.eval(c.args[0], p)
                    if not (is_scalar(x) or _tag(x) in ("ew", "ite", "num")):
                        raise AnalysisError(f"cannot evaluate the appended value {ast.unparse(c.args[0])[:60]}")
                    p.env[c.func.value.id] = ("vec", p.env[c.func.value.id][1] + (x,))
                    return [p]
                self.eval(c, p)
                return [p]
            raise AnalysisError(f"expression statement not supported: {norm_text(st)[:60]}")
        if isinstance(st, ast.Raise):
            p.status = "raise"
            return [p]
        if isinstance(st, ast.Return):
            p.retval = self.eval(st.value, p) if st.value is not None else NONE
            p.status = "ret"
            return [p]
        if isinstance(st, ast.If):
            t = self.eval(st.test, p)
            if is_sym(t):
                t = True
            if t == NONE:
                t = False
            if t is True:
                return self.exec_block(st.body, [p])
            if t is False:
                return self.exec_block(st.orelse, [p])
            if is_flaglike(t) and not is_fl(t):
                raise AnalysisError(f"truth value of the whole endpoint tuple in `{ast.unparse(st.test)[:60]}`")
            a, b = p, p.fork()
            if is_fl(t):
                # a test on the endpoint flags: each arm is followed under the flag assignments that select it
                a.epconds.append((t, True))
                b.epconds.append((t, False))
                outs = []
                if self.satisfiable(a.epconds):
                    outs += self.exec_block(st.body, [a])
                if self.satisfiable(b.epconds):
                    outs += self.exec_block(st.orelse, [b])
                return outs
            if isinstance(t, tuple) and t[0] == "close":
                a.facts.append((t[1], t[2]))
            if isinstance(t, tuple) and t[0] == "nclose":
                b.facts.append((t[1], t[2]))
            return self.exec_block(st.body, [a]) + self.exec_block(st.orelse, [b])
        if isinstance(st, ast.For):
            return self.exec_axis_loop(st, p)
        if isinstance(st, (ast.Assign, ast.AnnAssign)):
            targets = st.targets if isinstance(st, ast.Assign) else [st.target]
            if st.value is None:
                return [p]
            if len(targets) != 1:
                raise AnalysisError(f"chained assignment not supported: {norm_text(st)[:60]}")
            t = targets[0]
            d = dotted(t)
            if isinstance(t, ast.Name):
                p.env[t.id] = self.eval(st.value, p)
                return [p]
            if d and d.startswith("self.") and d.count(".") == 1:
                attr = t.attr
                if attr in FIELDS:
                    p.fields[attr] = self.eval_field_value(st, attr, p)
                    p.trace.append(f"{attr}={show(p.fields[attr])}")
                elif attr in LOCKS:
                    v = self.eval(st.value, p)
                    p.fields[attr] = v if isinstance(v, bool) else UNK
                elif attr in PROPS:
                    raise AnalysisError(f"assignment through the property self.{attr} inside Grid is not modelled")
                else:
                    self.eval(st.value, p)
                return [p]
            raise AnalysisError(f"assignment target not supported: {norm_text(st)[:60]}")
        raise AnalysisError(f"statement {type(st).__name__} in {self.cur[-1].short if self.cur else '?'} not supported "
                            "by the grid-state interpreter")

    def exec_axis_loop(self, st: ast.For, p: Path) -> list[Path]:
        """A loop over the axes of the grid (zip of grid quantities / the flags, or an index loop): the body is
        executed once per axis of the two-axis model grid with the loop names bound to that axis' components."""
        f = self.cur[-1].short if self.cur else "?"
        if st.orelse:
            raise AnalysisError(f"{f}: for/else not supported by the grid-state interpreter")
        binding = bind_loop_target(st.target, st.iter)
        vals = {}
        for name, src in binding.items():
            if isinstance(src, ast.Constant) and src.value == "#index":
                vals[name] = "idx"
                continue
            if isinstance(src, ast.Call) and dotted(src.func) == "range" and len(src.args) == 1 and not src.keywords:
                n = src.args[0]
                over_axes = (isinstance(n, ast.Call) and dotted(n.func) == "len" and len(n.args) == 1 and (
                    is_vector(self.eval(n.args[0], p)) or dotted(n.args[0]) == "self")) or \
                    self.eval(n, p) == ("other", "self._dimensions")
                if not over_axes:
                    raise AnalysisError(f"{f}: `{ast.unparse(st.iter)[:60]}` is not a loop over the grid axes")
                vals[name] = "idx"
                continue
            v = self.eval(src, p)
            if not is_vector(v):
                raise AnalysisError(f"{f}: loop over `{ast.unparse(src)[:60]}`, which is not a grid quantity")
            vals[name] = v
        paths = [p]
        for a in AXES:
            for q in paths:
                if q.status == "run":
                    for name, v in vals.items():
                        q.env[name] = ("idx", a) if v == "idx" else component(v, a)
            paths = self.exec_block(st.body, paths)
        return paths

    # ------------------------------------------------------------------ stores into E/G/S
    def eval_field_value(self, st: ast.stmt, attr: str, p: Path):
        kind = FIELDS[attr]
        v = self.eval(st.value, p)
        if _tag(v) not in ("ew", "vec", "ite"):
            if v == NONE or (is_sym(v) and kind_of(v) == kind):
                return v
            if is_sym(v):
                f = self.cur[-1]
                self.ctx.violation("R-GRIDSTATE", f"{f.qualname}:store {attr}", f.loc(st),
                                   f"`{norm_text(st)[:70]}` stores a {KIND_NAME[kind_of(v)]} value ({show(v)}) into "
                                   f"the {KIND_NAME[kind]} field", key_detail="kind")
                return atom(kind, f"bad({show(v)})")
            raise AnalysisError(f"cannot evaluate the value stored into self.{attr}: {ast.unparse(st.value)[:60]}")
        f = self.cur[-1]
        ok, syms = self.verify(v, kind, p.epconds, f, st)
        if not ok:
            return pending(kind, v, f, st)
        return self.verified(kind, syms, f)

    def verified(self, kind: str, syms: list, f: FuncInfo):
        byk = {kind_of(x): x for x in syms}
        a, b = others(kind)
        if set(byk) != {a, b}:
            raise AnalysisError(f"{f.short}: verified formula but operand kinds {sorted(byk)} are inconsistent")
        return adj(kind, byk[a], byk[b])

    def settle(self, p: Path) -> None:
        """Decide the values stored with a formula that was not the grid formula at the time of the store, now that
        the storing method is complete (under the flag tests of the whole path)."""
        for attr, val in list(p.fields.items()):
            if attr in FIELDS and is_pending(val):
                kind = FIELDS[attr]
                f, st = val[4].item
                ok, syms = self.verify(val[3].item, kind, p.epconds, f, st, final=True)
                p.fields[attr] = self.verified(kind, syms, f) if ok else atom(
                    kind, f"bad{kind}({','.join(show(x) for x in syms)})")
                p.trace.append(f"{attr}={show(p.fields[attr])}")

    def verify(self, v, kind: str, epconds: list, f: FuncInfo, st: ast.stmt, final: bool = False):
        """The value stored into a field is a lazily evaluated per-axis term.  It is evaluated for every assignment of
        the per-axis endpoint flags that is compatible with the flag tests taken on the path, component by
        component, and compared with the defining formula of the field in THAT AXIS' OWN flag.  -> (ok, operands);
        a success is recorded at once, a failure when `final` (the storing method returns with this value)."""
        attr = _field_of(kind)
        syms = leaf_syms(v, kind)
        if len(syms) != 2:
            raise AnalysisError(f"{f.short}: store into self.{attr} is not a function of exactly two grid quantities")
        names, used = {}, set()
        for sv in syms:
            n = kind_of(sv)
            while n in used:
                n += "'"
            used.add(n)
            names[sv] = n
        ck = (kind, value_key(v, names), tuple((value_key(t, names), w) for t, w in epconds))
        if ck not in self.term_cache:
            self.symnames = names
            rows = []
            try:
                for flags in FLAG_ASSIGNMENTS:
                    if not all(self.flag_value(t, flags) == want for t, want in epconds):
                        continue
                    for a in AXES:
                        got = self.comp_poly(v, a, flags)
                        if has_opaque_conditional(got):
                            raise AnalysisError(f"{f.short}: conditional in the {KIND_NAME[kind]} formula is not on "
                                                "the endpoint flag")
                        rows.append((flags, a, got, _expected_axis(kind, flags[a], a)))
            finally:
                self.symnames = {}
            if not rows:
                raise AnalysisError(f"{f.short}: store into self.{attr} on a path no flag assignment reaches")
            self.term_cache[ck] = rows
        rows = self.term_cache[ck]
        bad = [r for r in rows if r[2] != r[3]]
        ok = not bad
        if not ok and not final:
            return ok, syms
        key = (f.qualname, kind)
        if ok:
            by = {}
            for flags, a, got, _ in rows:
                by.setdefault(flags[a], _axis_free(got.key()))
            detail = (f"{KIND_NAME[kind]} := {by.get(False, '(unreached)')} | endpoint: {by.get(True, '(unreached)')}"
                      f" [each axis by its own flag, {len(rows)} (flag assignment, axis) components]")
        else:
            flags, a, got, exp = bad[0]
            uniform = [r for r in rows if len(set(r[0])) == 1]
            why = (" — the formula is right only while all axes carry the same flag: the endpoint flag of another axis "
                   "(or of the grid as a whole) decides this axis" if uniform and all(
                       r[2] == r[3] for r in uniform) else "")
            detail = (f"`self.{attr}` on a grid with endpoint={flags}: the axis-{a} component is computed as "
                      f"{_axis_free(got.key())} in E=extent, G=gpts, S=sampling of the arguments actually passed; the "
                      f"grid identity requires {describe_expected(kind)}, by the flag of the SAME axis "
                      f"({flags[a]}): {_axis_free(exp.key())}{why}")
        prev = self.term_instances.get(key)
        if prev is None or (prev[0] and not ok):
            self.term_instances[key] = (ok, f.loc(st.value), detail)
        return ok, syms


def _expected_axis(kind: str, endpoint: bool, a: int) -> Poly:
    """gridterms.expected_grid_term in the atoms of axis `a`: extent = (gpts - endpoint) * sampling solved for the
    quantity of `kind`."""
    E, G, S = (Poly.atom(f"{k}{a}") for k in "EGS")
    one = Poly.const(1)
    n = (G - one) if endpoint else G
    if kind == "E":
        return n * S
    if kind == "S":
        return E * n.inverse()
    q = Poly.atom(f"ceil({strip_key(E * S.inverse())})")
    return q + one if endpoint else q


def _axis_free(text: str) -> str:
    """Display form: E0/G0/S0 -> E/G/S (the components of one axis only refer to that axis)."""
    return re.sub(r"\b([EGS]'*)[0-9]\b", r"\1", text)


# ---------------------------------------------------------------------------------------------
def simplify(v, rules: dict):
    """Rewrite to a normal form: adjS(adjE(g,s),g) -> s ; adjE(g,adjS(e,g)) -> e ; plus path facts."""
    if not is_sym(v):
        return v
    if v in rules:
        return simplify(rules[v], rules)
    if v[0] == "adj":
        a, b = simplify(v[2], rules), simplify(v[3], rules)
        k = v[1]
        if k == "S" and is_sym(a) and a[0] == "adj" and a[1] == "E" and a[2] == b:
            return simplify(a[3], rules)  # (g*s)/g
        if k == "E" and is_sym(b) and b[0] == "adj" and b[1] == "S" and b[3] == a:
            return simplify(b[2], rules)  # g*(e/g)
        w = ("adj", k, a, b)
        if w in rules:
            return simplify(rules[w], rules)
        return w
    return v


def fact_rules(facts, rules0: dict, strict: bool = False) -> dict:
    """Rewrite rules of a path: the consistency of the grid before the edit (`rules0`) plus the equalities its tests
    established.  `new` found equal to an old value is replaced by it; a re-derived field found equal to its value
    before the edit is replaced by that value, and — extent = n * sampling and sampling = extent / n being injective in
    each operand (gpts = ceil(extent / sampling) is not) — the operand in which the two derivations differ is equal
    too: extent / new == S0 == extent / G0 means new == G0."""
    rules = dict(rules0)
    for a, b in facts:
        if b[0] == "atom" and b[2] == "new" and not (a[0] == "atom" and a[2] == "new"):
            a, b = b, a
        elif b[0] == "adj" and a[0] == "atom":
            a, b = b, a
        if a[0] == "atom" and a[2] == "new":
            rules[a] = b  # `new` is numerically equal to an old value on this path
        elif a[0] == "adj" and b[0] == "atom":
            rules[a] = b
            if a[1] != "G":
                for k0, v0 in rules0.items():
                    if v0 == b and k0[0] == "adj" and k0[1] == a[1]:
                        for i, j in ((2, 3), (3, 2)):
                            if a[i] == k0[i] and a[j] != k0[j] and a[j][0] == "atom" and a[j][2] == "new":
                                rules[a[j]] = k0[j]
        elif strict:
            raise AnalysisError(f"an equality between {show(a)} and {show(b)} decides a branch of a Grid setter; the "
                                "analyser cannot orient it")
    return rules


def consistent(E, G, S, rules: dict) -> bool:
    if NONE in (E, G, S):
        return True
    return S == simplify(adj("S", E, G), rules) or E == simplify(adj("E", G, S), rules)


_CAST_OK: dict[int, bool] = {}


def cast_model(m: FuncInfo) -> None:
    """A self-method used in value position is modelled as the identity on its first argument; that
    needs: no store into self, and every returned value depends on the first parameter."""
    if id(m.node) in _CAST_OK:
        return
    for n in ast.walk(m.node):
        if isinstance(n, ast.Attribute) and isinstance(n.ctx, ast.Store) and dotted(n.value) == "self":
            raise AnalysisError(f"{m.short} stores into self; the identity model does not apply")
    if len(m.positional_params) < 2:
        raise AnalysisError(f"{m.short} has no value parameter; the identity model does not apply")
    first = m.positional_params[1]
    rets = [n for n in ast.walk(m.node) if isinstance(n, ast.Return) and n.value is not None]
    if not rets:
        raise AnalysisError(f"{m.short} returns nothing; the identity model does not apply")
    for r in rets:
        if first not in {x.id for x in ast.walk(r.value) if isinstance(x, ast.Name)}:
            raise AnalysisError(f"{m.short} returns `{ast.unparse(r.value)[:50]}`, which does not depend on its "
                                "argument; the identity model does not apply")
    _CAST_OK[id(m.node)] = True


def run(ctx) -> None:
    repo = ctx.repo
    ctx.rule("R-GRIDSTATE", "abstract interpretation of Grid.__init__ and the extent/gpts/sampling setters over every "
             "configuration (which fields are defined x lock flags x None assigned) and every acyclic path: a "
             "non-raising path ends in a state where extent == gpts*sampling holds by construction (the last recomputed "
             "field is the verified formula of the two other final fields); the assigned field ends up holding the "
             "assigned value (sampling: possibly re-fitted to the integer gpts computed from it); a raising path leaves "
             "all three fields untouched")
    ctx.rule("R-ADJUST-TERM", "every computed store into _extent/_gpts/_sampling is the relation extent = (gpts - "
             "endpoint) * sampling solved for the stored quantity, PER AXIS and by that axis' own endpoint flag: the "
             "stored value (comprehensions, preparatory rebindings of the operands under tests on the flags, axis loops "
             "that build a list, array arithmetic, a store completed by a second store) is evaluated symbolically for "
             "each of the four flag assignments of a two-axis grid that is compatible with the flag tests on the path "
             "(any()/all()/flags[k] are decidable then), and each component's normal form, in terms of the kinds of the "
             "operands actually passed, must be n*d | (n-1)*d, r/n | r/(n-1), ceil(r/d) | ceil(r/d)+1 for the flag of "
             "the same axis, independent of the other axis' flag.  Necessary: a grid with mixed endpoint flags is a "
             "legitimate grid (GridScan(endpoint=(True, False))), and every edit re-derives a field through these stores")
    ctx.rule("R-LOCK", "on every non-raising path a locked, defined field keeps its value (single-lock configurations); "
             "an assignment to a locked gpts/sampling raises before any store")
    ctx.rule("R-RECIPROCAL", "reciprocal_space_sampling is element-wise 1/(gpts*sampling) of the grid's own gpts and "
             "sampling")
    ctx.rule("R-DELEGATE", "HasGrid2DMixin forwards extent/gpts/sampling reads and writes to the same-named attribute "
             "of self.grid")
    ctx.assume("Grid._validate is an element-wise cast: it maps None to None and a value to the same value")
    ctx.undecided("floating-point rounding in ceil(extent/sampling); Grid.match/check_match/round_to_power (they go "
                  "through the setters decided here); behaviour of assigning None to a locked extent (reported as "
                  "information: un-defining is outside the property's quantifier over assignments of values)")

    cls = repo.cls(MOD, "Grid")
    for f in list(FIELDS) + list(LOCKS):
        ctx.require(any(isinstance(n, ast.Attribute) and n.attr == f and isinstance(n.ctx, ast.Store)
                        for n in ast.walk(cls.node)), f"Grid no longer stores self.{f}")
    it = Interp(ctx, cls)
    v = cls.find_method("_validate", "getter")
    ctx.require(v is not None, "Grid._validate not found")
    cast_model(v)

    problems: dict[tuple, dict] = {}
    stats: dict[str, dict] = {}

    def record(rule, fn: FuncInfo, symptom: str, detail: str, cfg_text: str, severity: str):
        k = (rule, fn.qualname, symptom, severity)
        e = problems.setdefault(k, {"n": 0, "detail": detail, "cfg": cfg_text, "fn": fn})
        e["n"] += 1

    # ---------------------------------------------------------------- setters
    for pname, kind in PROPS.items():
        setter = repo.method(MOD, "Grid", pname, kind="setter")
        vparam = setter.positional_params[1]
        st = stats.setdefault(setter.qualname, {"where": setter.where, "configs": 0, "paths": 0, "raising": 0, "locked_paths": 0})
        for defined in itertools.product((False, True), repeat=3):
            for locks in itertools.product((False, True), repeat=3):
                for v_none in (False, True):
                    init = {}
                    for (fname, k), d in zip(FIELDS.items(), defined):
                        init[fname] = atom(k, k + "0") if d else NONE
                    for (lname, k), l in zip(LOCKS.items(), locks):
                        init[lname] = l
                    new = NONE if v_none else atom(kind, "new")
                    p0 = Path(dict(init), {vparam: new})
                    it.cur = [setter]
                    outs = it.exec_block(setter.body, [p0])
                    st["configs"] += 1
                    cfg_text = _cfg_text(defined, locks, v_none, pname)
                    nlocks = sum(locks)
                    rules0 = {}
                    if all(defined):
                        rules0[adj("E", init["_gpts"], init["_sampling"])] = init["_extent"]
                        rules0[adj("S", init["_extent"], init["_gpts"])] = init["_sampling"]
                    for o in outs:
                        st["paths"] += 1
                        rules = fact_rules(o.facts, rules0)
                        fin ={f: simplify(o.fields[f], rules) for f in FIELDS}
                        E, G, S = fin["_extent"], fin["_gpts"], fin["_sampling"]
                        state_txt = f"(E,G,S)=({show(E)}, {show(G)}, {show(S)})"
                        if o.status == "raise":
                            st["raising"] += 1
                            changed = [f for f in FIELDS if o.fields[f] != init[f]]
                            if changed:
                                record("R-GRIDSTATE", setter, "raise-after-store:" + ",".join(changed),
                                       f"the setter raises after having stored into {changed}: the failed assignment "
                                       f"leaves a modified grid {state_txt}", cfg_text, "violation")
                            continue
                        # --- consistency
                        if not consistent(E, G, S, rules):
                            record("R-GRIDSTATE", setter, f"inconsistent:{show(E)}|{show(G)}|{show(S)}",
                                   f"a non-raising path ends with all three fields defined but none of them is the "
                                   f"grid formula of the two others: {state_txt}; stores on the path: "
                                   f"{'; '.join(o.trace) or 'none'}", cfg_text, "violation")
                        # --- the assignment takes effect
                        if not v_none:
                            got = fin[_field_of(kind)]
                            okv = got == simplify(new, rules)
                            if not okv and kind == "S" and E != NONE:
                                okv = got in (adj("S", E, adj("G", E, new)), simplify(adj("S", E, adj("G", E, new)), rules))
                            if not okv:
                                record("R-GRIDSTATE", setter, f"no-effect:{show(got)}",
                                       f"after `grid.{pname} = new` the {pname} field holds {show(got)}, not the "
                                       f"assigned value; {state_txt}", cfg_text, "violation")
                        # --- locks
                        for (fname, k), l in zip(FIELDS.items(), locks):
                            if not l or init[fname] == NONE:
                                continue
                            st["locked_paths"] += 1
                            if fin[fname] == init[fname]:
                                continue
                            old = init[fname]
                            refit = k == "S" and E != NONE and fin[fname] == adj("S", E, adj("G", E, old))
                            if v_none and fin[fname] == NONE and k == kind:
                                record("R-LOCK", setter, f"undefine:{k}",
                                       f"assigning None un-defines the locked {KIND_NAME[k]} without raising (a later "
                                       f"assignment can then change the locked value)", cfg_text,
                                       "violation" if UNDEFINE_LOCKED_IS_VIOLATION else "info")
                            elif nlocks >= 2:
                                record("R-LOCK", setter, f"overconstrained:{k}",
                                       f"KNOWN-SEMANTICS two or more locks: locked {KIND_NAME[k]} becomes "
                                       f"{show(fin[fname])} (upstream recomputes instead of raising)", cfg_text, "info")
                            elif refit:
                                record("R-LOCK", setter, f"refit:{k}",
                                       "KNOWN-SEMANTICS locked sampling is re-fitted to the integer gpts computed from "
                                       f"it: {show(fin[fname])}", cfg_text, "info")
                            else:
                                record("R-LOCK", setter, f"changed:{k}:{show(fin[fname])}",
                                       f"locked {KIND_NAME[k]} changes from {show(old)} to {show(fin[fname])} on a "
                                       f"non-raising path of `grid.{pname} = ...`", cfg_text, "violation")

    # ---------------------------------------------------------------- __init__
    init_f = repo.method(MOD, "Grid", "__init__")
    st = stats.setdefault(init_f.qualname, {"where": init_f.where, "configs": 0, "paths": 0, "raising": 0, "locked_paths": 0})
    for p_ in PROPS:
        ctx.require(p_ in init_f.params, f"Grid.__init__ lost its `{p_}` parameter")
    for given in itertools.product((False, True), repeat=3):
        env = {}
        for (pn, k), g in zip(PROPS.items(), given):
            env[pn] = atom(k, k + "in") if g else NONE
        for other in init_f.params[1:]:
            env.setdefault(other, ("other", other))
        p0 = Path({}, env)
        it.cur = [init_f]
        outs = it.exec_block(init_f.body, [p0])
        st["configs"] += 1
        cfg_text = "Grid(" + ", ".join(pn for pn, g in zip(PROPS, given) if g) + ")"
        for o in outs:
            st["paths"] += 1
            if o.status == "raise":
                st["raising"] += 1
                continue
            for f in FIELDS:
                if f not in o.fields:
                    raise AnalysisError(f"Grid.__init__ has a path that never stores self.{f}")
            fin = {f: simplify(o.fields[f], {}) for f in FIELDS}
            E, G, S = fin["_extent"], fin["_gpts"], fin["_sampling"]
            state_txt = f"(E,G,S)=({show(E)}, {show(G)}, {show(S)})"
            if not consistent(E, G, S, {}):
                record("R-GRIDSTATE", init_f, f"inconsistent:{show(E)}|{show(G)}|{show(S)}",
                       f"constructor ends with all fields defined but not bound by the grid formula: {state_txt}",
                       cfg_text, "violation")
            ndef = sum(given)
            if ndef >= 2 and NONE in (E, G, S):
                record("R-GRIDSTATE", init_f, "underdetermined",
                       f"two quantities given but the third is left undefined: {state_txt}", cfg_text, "violation")
            for (pn, k), g in zip(PROPS.items(), given):
                if g and k in ("E", "G") and fin[_field_of(k)] != env[pn]:
                    record("R-GRIDSTATE", init_f, f"no-effect:{k}:{show(fin[_field_of(k)])}",
                           f"the {pn} passed to the constructor is not the {pn} of the grid: {state_txt}", cfg_text,
                           "violation")
            if given == (False, True, True) and S != env["sampling"]:
                record("R-GRIDSTATE", init_f, f"no-effect:S:{show(S)}",
                       f"Grid(gpts, sampling) does not keep the given sampling: {state_txt}", cfg_text, "violation")

    # ---------------------------------------------------------------- report
    for (fq, kind), (ok, where, detail) in sorted(it.term_instances.items()):
        ctx.check(ok, "R-ADJUST-TERM", f"{fq}:{KIND_NAME[kind]}-formula", where, detail, detail, key_detail=kind)
    ctx.require(len(it.term_instances) >= 3, "fewer than three element-wise grid formulas were reached")
    seen_viol: set = set()
    for (rule, fq, symptom, sev), e in sorted(problems.items(), key=lambda kv: kv[0]):
        fn = e["fn"]
        text = f"{e['detail']} [first configuration: {e['cfg']}; {e['n']} path(s)]"
        if sev == "info":
            ctx.info(rule, f"{fq}:{symptom}", fn.where, text)
        else:
            seen_viol.add((rule, fq))
            ctx.violation(rule, f"{fq}:{symptom.split(':')[0]}", fn.where, text, key_detail=symptom)
    for fq, s in stats.items():
        for rule in ("R-GRIDSTATE", "R-LOCK"):
            if rule == "R-LOCK" and fq.endswith("__init__"):
                continue
            if (rule, fq) in seen_viol:
                continue
            what = (f"{s['configs']} configurations, {s['paths']} paths ({s['raising']} raising): every non-raising "
                    "path ends consistent and the assigned value takes effect" if rule == "R-GRIDSTATE" else
                    f"{s['locked_paths']} (path, locked defined field) pairs: value kept, or a triaged upstream "
                    "semantic listed as information")
            ctx.ok(rule, fq, s["where"], what)
    ctx.extra["gridstate_stats"] = stats

    # lock guards: assignment to a locked gpts / sampling raises on every path (any configuration)
    _check_reciprocal(ctx, repo, cls, it)
    _check_delegation(ctx, repo)


def _field_of(kind: str) -> str:
    return {v: k for k, v in FIELDS.items()}[kind]


def _cfg_text(defined, locks, v_none, pname) -> str:
    d = ",".join(n for n, x in zip(("extent", "gpts", "sampling"), defined) if x) or "nothing"
    l = ",".join(n for n, x in zip(("extent", "gpts", "sampling"), locks) if x) or "none"
    return f"defined={{{d}}} locks={{{l}}} grid.{pname} = {'None' if v_none else 'new'}"


def _check_reciprocal(ctx, repo, cls: ClassInfo, it: Interp) -> None:
    f = repo.method(MOD, "Grid", "reciprocal_space_sampling")
    rets = [n for n in ast.walk(f.node) if isinstance(n, ast.Return) and n.value is not None]
    ctx.require(len(rets) == 1, "Grid.reciprocal_space_sampling: expected a single return")
    ew = elementwise(rets[0].value)
    ctx.require(ew is not None, "Grid.reciprocal_space_sampling is not an element-wise expression")
    elt, binding = ew
    p = Path({fn: atom(k, k) for fn, k in FIELDS.items()}, {})
    kinds = {}
    for name, src in binding.items():
        v = it.eval(src, p)
        if not is_sym(v):
            raise AnalysisError(f"reciprocal_space_sampling iterates `{ast.unparse(src)}`, not a grid quantity")
        kinds[name] = kind_of(v)
    got = ArmNormalizer(atom_alias=kinds, local_funcs=local_functions(f.node)).norm(elt)
    exp = (Poly.atom("G") * Poly.atom("S")).inverse()
    ctx.check(got == exp, "R-RECIPROCAL", f"{f.qualname}", f.loc(rets[0]),
              f"element term {got.key()} == 1/(gpts*sampling)",
              f"reciprocal_space_sampling is element-wise {got.key()} (E=extent, G=gpts, S=sampling), expected "
              f"{exp.key()} = 1/(gpts*sampling)", key_detail="term")


def _check_delegation(ctx, repo) -> None:
    mix = repo.cls(MOD, "HasGrid2DMixin")
    for pname in list(PROPS) + ["reciprocal_space_sampling"]:
        g = mix.own_method(pname, "getter")
        ctx.require(g is not None, f"HasGrid2DMixin.{pname} getter not found")
        reads = {dotted(n) for n in ast.walk(g.node) if isinstance(n, ast.Attribute)}
        grid_reads = {r.split(".")[2] for r in reads if r and r.startswith("self.grid.") and r.count(".") == 2}
        ctx.check(grid_reads == {pname}, "R-DELEGATE", f"{g.qualname}:getter", g.where,
                  f"reads self.grid.{pname}",
                  f"the {pname} getter reads {sorted('self.grid.' + r for r in grid_reads) or 'nothing of self.grid'} "
                  f"instead of self.grid.{pname}", key_detail="getter")
        if pname not in PROPS:
            continue
        s = mix.own_method(pname, "setter")
        ctx.require(s is not None, f"HasGrid2DMixin.{pname} setter not found")
        vparam = s.positional_params[1]
        stores = [st for st in ast.walk(s.node) if isinstance(st, ast.Assign) and any(
            (dotted(t) or "").startswith("self.grid.") for t in st.targets)]
        ctx.require(len(stores) >= 1, f"HasGrid2DMixin.{pname} setter no longer stores into self.grid")
        good = all(dotted(t) == f"self.grid.{pname}" for st in stores for t in st.targets) and all(
            isinstance(st.value, ast.Name) and st.value.id == vparam for st in stores)
        ctx.check(good, "R-DELEGATE", f"{s.qualname}:setter", s.where, f"self.grid.{pname} = {vparam}",
                  f"the {pname} setter does `{'; '.join(norm_text(st) for st in stores)}` instead of forwarding its "
                  f"argument to self.grid.{pname}", key_detail="setter")


# =============================================================================================
# Mutation-sweep round: R-DETERMINED (setters) and R-MATCH / R-CHECKMATCH (two-grid operations)
# =============================================================================================
def _setter_outcomes(it: Interp, repo):
    """Every (setter, kind, configuration, outcome path) of the three property setters — the same
    enumeration the R-GRIDSTATE interpretation uses."""
    for pname, kind in PROPS.items():
        setter = repo.method(MOD, "Grid", pname, kind="setter")
        vparam = setter.positional_params[1]
        for defined in itertools.product((False, True), repeat=3):
            for locks in itertools.product((False, True), repeat=3):
                for v_none in (False, True):
                    init = {}
                    for (fname, k), d in zip(FIELDS.items(), defined):
                        init[fname] = atom(k, k + "0") if d else NONE
                    for (lname, k), l in zip(LOCKS.items(), locks):
                        init[lname] = l
                    new = NONE if v_none else atom(kind, "new")
                    it.cur = [setter]
                    outs = it.exec_block(setter.body, [Path(dict(init), {vparam: new})])
                    for o in outs:
                        yield setter, pname, kind, defined, locks, v_none, init, o


def _check_determined(ctx, repo) -> None:
    """R-DETERMINED: assigning a value never leaves a grid with exactly two of the three quantities defined."""
    cls = repo.cls(MOD, "Grid")
    # the interpretation reports kind mix-ups through ctx.violation; those belong to R-GRIDSTATE, which runs
    # afterwards on the same paths — here they are swallowed
    it = Interp(_Muted(ctx), cls)
    per: dict[str, dict] = {}
    for setter, pname, kind, defined, locks, v_none, init, o in _setter_outcomes(it, repo):
        s = per.setdefault(setter.qualname, {"fn": setter, "paths": 0, "bad": {}, "info": {}})
        if v_none or o.status == "raise":
            continue
        s["paths"] += 1
        fin = {FIELDS[f]: o.fields[f] for f in FIELDS}
        missing = [k for k, v in fin.items() if v == NONE]
        if len(missing) != 1:
            continue
        k = missing[0]
        lock_of = {v: n for n, v in LOCKS.items()}[k]
        cfg = _cfg_text(defined, locks, v_none, pname)
        bucket = "info" if init[lock_of] is True else "bad"
        e = s[bucket].setdefault(k, {"n": 0, "cfg": cfg, "state": ", ".join(show(fin[x]) for x in "EGS")})
        e["n"] += 1
    for fq, s in sorted(per.items()):
        fn = s["fn"]
        for k, e in sorted(s["info"].items()):
            ctx.info("R-DETERMINED", f"{fq}:locked-undefined:{k}", fn.where,
                     f"KNOWN-SEMANTICS the undefined {KIND_NAME[k]} is locked, so the assignment cannot fill it in: "
                     f"(E,G,S)=({e['state']}) [first configuration: {e['cfg']}; {e['n']} path(s)]")
        for k, e in sorted(s["bad"].items()):
            ctx.violation("R-DETERMINED", f"{fq}:underdetermined", fn.where,
                          f"a non-raising assignment of a value ends with two quantities defined but the "
                          f"{KIND_NAME[k]} left undefined: (E,G,S)=({e['state']}); the grid never becomes fully "
                          f"defined although two quantities determine it [first configuration: {e['cfg']}; "
                          f"{e['n']} path(s)]", key_detail=KIND_NAME[k])
        if not s["bad"]:
            ctx.ok("R-DETERMINED", fq, fn.where,
                   f"{s['paths']} non-raising value assignments: none ends with exactly two quantities defined "
                   "(unless the third is locked)")
    ctx.require(len(per) == 3, "R-DETERMINED did not reach the three setters")


class _Muted:
    """A ctx stand-in that drops reports (the interpreter is re-run for a second rule)."""

    def __init__(self, ctx):
        self.repo = ctx.repo

    def violation(self, *a, **k):
        pass

    def ok(self, *a, **k):
        pass

    def info(self, *a, **k):
        pass

    def check(self, cond, *a, **k):
        return cond


# ---------------------------------------------------------------------------------------------
# two-grid operations: Grid.match / Grid.check_match
# ---------------------------------------------------------------------------------------------
_WRAPPERS = {"array", "asarray", "asanyarray", "tuple", "list"}
_SCALAR_CLOSE = {"allclose", "array_equal", "array_equiv"}
_ELT_CLOSE = {"isclose"}


def _callee(c: ast.Call) -> str:
    """Last name of the called function / method (`np.all`, `xp.all`, `(a == b).all` -> "all")."""
    if isinstance(c.func, ast.Attribute):
        return c.func.attr
    return c.func.id if isinstance(c.func, ast.Name) else ""


@dataclass
class _MPath:
    env: dict
    events: list = field(default_factory=list)  # ("eq"|"ne", q) ("none"|"notnone", owner, q) ("copy", dst, q, src, q2)
    status: str = "run"

    def fork(self) -> "_MPath":
        return _MPath(dict(self.env), list(self.events), self.status)


class _TwoGrid:
    """Path enumeration of a Grid method that takes a second grid: tests on `owner.quantity` leave facts,
    stores `owner.quantity = owner'.quantity'` leave copy events."""

    def __init__(self, cls: ClassInfo, f: FuncInfo, owners: dict):
        self.cls = cls
        self.f = f
        self.owners = owners  # local name -> "self" | "other"
        self.depth = 0

    # -------------------------------------------------------------- references
    def ref(self, e: ast.expr, p: _MPath):
        """-> (owner, quantity) when `e` denotes a grid quantity of one of the two grids, else None."""
        if isinstance(e, ast.Attribute) and isinstance(e.value, ast.Name) and e.value.id in self.owners:
            if e.attr in PROPS:
                return (self.owners[e.value.id], e.attr)
            return None
        if isinstance(e, ast.Name):
            v = p.env.get(e.id)
            return v[1] if isinstance(v, tuple) and v[0] == "ref" else None
        if isinstance(e, ast.Call):
            short = (dotted(e.func) or "").split(".")[-1]
            if short in _WRAPPERS and e.args and not isinstance(e.args[0], ast.Starred):
                return self.ref(e.args[0], p)
        return None

    def reads_grid(self, e: ast.expr, p: _MPath) -> bool:
        for n in ast.walk(e):
            if isinstance(n, ast.Attribute) and isinstance(n.value, ast.Name) and n.value.id in self.owners:
                return True
            if isinstance(n, ast.Name) and isinstance(p.env.get(n.id), tuple) and p.env[n.id][0] in ("ref", "grid"):
                return True
        return False

    def pair(self, a: ast.expr, b: ast.expr, p: _MPath, what: str) -> str:
        ra, rb = self.ref(a, p), self.ref(b, p)
        if ra is None or rb is None:
            raise AnalysisError(f"{self.f.short}: `{what[:70]}` compares something that is not a grid quantity "
                                "of the two grids")
        if ra[0] == rb[0] or ra[1] != rb[1]:
            raise AnalysisError(f"{self.f.short}: `{what[:70]}` does not compare the same quantity of the two grids")
        return ra[1]

    # -------------------------------------------------------------- tests
    def elt(self, e: ast.expr, p: _MPath):
        """-> ("eq"|"ne", q) for an element-wise (or tuple) comparison of the same quantity of both grids."""
        if isinstance(e, ast.Compare) and len(e.ops) == 1 and isinstance(e.ops[0], (ast.Eq, ast.NotEq)):
            if self.ref(e.left, p) is not None or self.ref(e.comparators[0], p) is not None:
                q = self.pair(e.left, e.comparators[0], p, ast.unparse(e))
                return ("eq" if isinstance(e.ops[0], ast.Eq) else "ne", q)
        if isinstance(e, ast.Call):
            short = (dotted(e.func) or "").split(".")[-1]
            if short in _ELT_CLOSE and len(e.args) >= 2:
                return ("eq", self.pair(e.args[0], e.args[1], p, ast.unparse(e)))
            if short in ("logical_not", "invert") and len(e.args) == 1:
                r = self.elt(e.args[0], p)
                if r is not None:
                    return ("ne" if r[0] == "eq" else "eq", r[1])
        if isinstance(e, ast.UnaryOp) and isinstance(e.op, ast.Invert):
            r = self.elt(e.operand, p)
            if r is not None:
                return ("ne" if r[0] == "eq" else "eq", r[1])
        return None

    def test(self, e: ast.expr, p: _MPath) -> list:
        """-> [(truth, facts)]: the possible outcomes of the test with what each establishes."""
        if isinstance(e, ast.Constant):
            return [(bool(e.value), ())]
        if isinstance(e, ast.Name):
            v = p.env.get(e.id)
            if isinstance(v, tuple) and v[0] == "const":
                return [(bool(v[1]), ())]
            if isinstance(v, tuple) and v[0] == "test":
                return list(v[1])
            if isinstance(v, tuple) and v[0] in ("ref", "grid"):
                raise AnalysisError(f"{self.f.short}: truth value of a grid quantity `{e.id}` is not modelled")
            return [(True, ()), (False, ())]
        if isinstance(e, ast.UnaryOp) and isinstance(e.op, ast.Not):
            return [(not t, f) for t, f in self.test(e.operand, p)]
        if isinstance(e, ast.BoolOp):
            is_and = isinstance(e.op, ast.And)
            outs = [(None, ())]
            for operand in e.values:
                nxt = []
                for t, f in outs:
                    if t is not None and t is (not is_and):
                        nxt.append((t, f))  # short-circuited: later operands are not evaluated
                        continue
                    for t2, f2 in self.test(operand, p):
                        nxt.append((t2, f + f2))
                outs = nxt
            return outs
        if isinstance(e, ast.Compare) and len(e.ops) == 1:
            op, a, b = e.ops[0], e.left, e.comparators[0]
            a_none = isinstance(a, ast.Constant) and a.value is None
            b_none = isinstance(b, ast.Constant) and b.value is None
            if isinstance(op, (ast.Is, ast.IsNot, ast.Eq, ast.NotEq)) and (a_none or b_none):
                r = self.ref(a if b_none else b, p)
                if r is not None:
                    pos = isinstance(op, (ast.Is, ast.Eq))
                    return [(pos, (("none",) + r,)), (not pos, (("notnone",) + r,))]
            r = self.elt(e, p)
            if r is not None:  # a comparison used directly as a truth value is a scalar (tuple) comparison
                other = "ne" if r[0] == "eq" else "eq"
                return [(True, ((r[0], r[1]),)), (False, ((other, r[1]),))]
        if isinstance(e, ast.Call):
            short = _callee(e)
            red, arg = None, None
            if short in ("all", "any") and len(e.args) == 1 and not e.keywords:
                red, arg = short, e.args[0]
            elif short in ("all", "any") and not e.args and isinstance(e.func, ast.Attribute):
                red, arg = short, e.func.value
            if red is not None:
                r = self.elt(arg, p)
                if r is not None:
                    kind, q = r
                    if (red, kind) == ("all", "eq"):
                        return [(True, (("eq", q),)), (False, (("ne", q),))]
                    if (red, kind) == ("any", "ne"):
                        return [(True, (("ne", q),)), (False, (("eq", q),))]
                    if (red, kind) == ("any", "eq"):  # some element equal: nothing known; none equal: different
                        return [(True, ()), (False, (("ne", q),))]
                    return [(True, (("ne", q),)), (False, ())]  # all(ne)
                sub = self.test_or_none(arg, p)
                if sub is not None:
                    return sub  # all()/any() of a scalar truth value
            if short in _SCALAR_CLOSE and len(e.args) >= 2:
                if self.ref(e.args[0], p) is not None or self.ref(e.args[1], p) is not None:
                    q = self.pair(e.args[0], e.args[1], p, ast.unparse(e))
                    return [(True, (("eq", q),)), (False, (("ne", q),))]
            if short == "bool" and len(e.args) == 1:
                return self.test(e.args[0], p)
        if self.reads_grid(e, p):
            raise AnalysisError(f"{self.f.short}: test `{ast.unparse(e)[:70]}` reads the grids in a form the analyser "
                                "cannot decide")
        return [(True, ()), (False, ())]

    def test_or_none(self, e: ast.expr, p: _MPath):
        if isinstance(e, (ast.Compare, ast.BoolOp)) or (isinstance(e, ast.UnaryOp) and isinstance(e.op, ast.Not)) or (
                isinstance(e, ast.Call) and _callee(e) in (
                    {"all", "any", "bool"} | _SCALAR_CLOSE)):
            return self.test(e, p)
        return None

    # -------------------------------------------------------------- statements
    def block(self, stmts, paths):
        for st in stmts:
            nxt = []
            for p in paths:
                nxt.extend(self.stmt(st, p) if p.status == "run" else [p])
            paths = nxt
            if len(paths) > 4096:
                raise AnalysisError(f"{self.f.short}: path explosion")
        return paths

    def stmt(self, st: ast.stmt, p: _MPath) -> list:
        if isinstance(st, (ast.Pass, ast.Assert, ast.Import, ast.ImportFrom)):
            return [p]
        if isinstance(st, ast.Expr):
            if isinstance(st.value, ast.Constant):
                return [p]
            if isinstance(st.value, ast.Call):
                return self.call_stmt(st.value, p)
            raise AnalysisError(f"{self.f.short}: expression statement not supported: {norm_text(st)[:60]}")
        if isinstance(st, ast.Raise):
            p.status = "raise"
            return [p]
        if isinstance(st, ast.Return):
            p.status = "ret"
            return [p]
        if isinstance(st, ast.If):
            outs = []
            for t, facts in self.test(st.test, p):
                q = p.fork()
                q.events.extend(facts)
                outs.extend(self.block(st.body if t else st.orelse, [q]))
            return outs
        if isinstance(st, (ast.Assign, ast.AnnAssign)):
            targets = st.targets if isinstance(st, ast.Assign) else [st.target]
            if st.value is None:
                return [p]
            if len(targets) != 1:
                raise AnalysisError(f"{self.f.short}: chained assignment not supported: {norm_text(st)[:60]}")
            t = targets[0]
            if isinstance(t, ast.Name):
                r = self.ref(st.value, p)
                if r is not None:
                    p.env[t.id] = ("ref", r)
                elif isinstance(st.value, ast.Name) and st.value.id in self.owners:
                    raise AnalysisError(f"{self.f.short}: alias of a grid object `{norm_text(st)[:60]}` not modelled")
                else:
                    sub = self.test_or_none(st.value, p)
                    if sub is not None:
                        p.env[t.id] = ("test", tuple(sub))
                    elif self.reads_grid(st.value, p):
                        raise AnalysisError(f"{self.f.short}: `{norm_text(st)[:60]}` derives a value from the grids in "
                                            "a form the analyser cannot follow")
                    else:
                        p.env[t.id] = ("opaque",)
                return [p]
            if isinstance(t, ast.Attribute) and isinstance(t.value, ast.Name) and t.value.id in self.owners:
                dst = self.owners[t.value.id]
                if t.attr not in PROPS:
                    raise AnalysisError(f"{self.f.short}: store `{norm_text(st)[:60]}` does not go through one of the "
                                        "extent/gpts/sampling setters")
                src = self.ref(st.value, p)
                if src is None:
                    raise AnalysisError(f"{self.f.short}: `{norm_text(st)[:60]}` assigns something that is not a "
                                        "quantity of the two grids")
                p.events.append(("copy", dst, t.attr, src[0], src[1]))
                return [p]
            raise AnalysisError(f"{self.f.short}: assignment target not supported: {norm_text(st)[:60]}")
        raise AnalysisError(f"{self.f.short}: statement {type(st).__name__} not supported by the two-grid interpreter")

    def call_stmt(self, c: ast.Call, p: _MPath) -> list:
        fn = dotted(c.func) or ""
        head = fn.split(".")[0]
        if head in self.owners and fn.count(".") == 1:
            if self.owners[head] != "self":
                raise AnalysisError(f"{self.f.short}: method call on the other grid `{ast.unparse(c)[:60]}` not modelled")
            m = self.cls.find_method(fn.split(".")[1], "getter")
            if m is None or m.is_property:
                raise AnalysisError(f"{self.f.short}: call of unknown method {fn}")
            if self.depth > 3:
                raise AnalysisError(f"{self.f.short}: method call nesting too deep")
            if any(isinstance(a, ast.Starred) for a in c.args) or c.keywords:
                raise AnalysisError(f"{self.f.short}: call form `{ast.unparse(c)[:60]}` not modelled")
            params = m.positional_params
            if len(c.args) != len(params) - 1 and not all(n in m.defaults() for n in params[1 + len(c.args):]):
                raise AnalysisError(f"{self.f.short}: `{ast.unparse(c)[:60]}` does not bind every parameter")
            owners = {params[0]: "self"}
            env = {}
            for name, a in zip(params[1:], c.args):
                if isinstance(a, ast.Name) and a.id in self.owners:
                    owners[name] = self.owners[a.id]
                elif self.reads_grid(a, p):
                    raise AnalysisError(f"{self.f.short}: argument `{ast.unparse(a)[:40]}` of {fn} not modelled")
                else:
                    env[name] = ("opaque",)
            if sorted(owners.values()) != ["other", "self"]:
                raise AnalysisError(f"{self.f.short}: {fn}(...) is not called with the other grid")
            sub = _TwoGrid(self.cls, m, owners)
            sub.depth = self.depth + 1
            q = _MPath(env, list(p.events))
            outs = sub.block(strip_docstring(m.node.body), [q])
            res = []
            for o in outs:
                r = _MPath(dict(p.env), o.events, "raise" if o.status == "raise" else "run")
                res.append(r)
            return res
        for a in list(c.args) + [k.value for k in c.keywords]:
            if self.reads_grid(a, p) or (isinstance(a, ast.Name) and a.id in self.owners):
                raise AnalysisError(f"{self.f.short}: the grids escape into `{ast.unparse(c)[:60]}`")
        return [p]


def _two_grid_paths(cls: ClassInfo, f: FuncInfo, env: dict) -> list:
    params = f.positional_params
    if len(params) < 2:
        raise AnalysisError(f"{f.short}: no parameter for the other grid")
    tg = _TwoGrid(cls, f, {params[0]: "self", params[1]: "other"})
    return tg.block(strip_docstring(f.node.body), [_MPath(dict(env))])


def _quantities_compared(paths) -> set:
    return {ev[1] for p in paths for ev in p.events if ev[0] in ("eq", "ne")}


def _check_checkmatch(ctx, repo, cls: ClassInfo) -> set:
    f = repo.method(MOD, "Grid", "check_match")
    paths = _two_grid_paths(cls, f, {})
    compared = _quantities_compared(paths)
    ctx.require(len(compared) >= 2, "Grid.check_match compares fewer than two of extent/gpts/sampling of the two "
                                    "grids (two quantities determine a grid)")
    ctx.require(any(p.status == "raise" for p in paths), "Grid.check_match never raises")
    for q in sorted(compared):
        bad = [p for p in paths if p.status != "raise" and ("ne", q) in p.events and ("eq", q) not in p.events]
        good = [p for p in paths if p.status == "raise" and ("ne", q) in p.events]
        ctx.check(not bad and bool(good), "R-CHECKMATCH", f"{f.qualname}:{q}", f.where,
                  f"{len(paths)} paths: every path on which the {q} of the two grids was found different raises",
                  (f"{len(bad)} path(s) return normally although a test on them established that the {q} of the two "
                   f"grids differs" if bad else f"no raising path follows a test that found the {q} different") +
                  f" (facts on such a path: {_show_events((bad or paths)[0])})", key_detail="differ-passes")
    return compared


def _show_events(p: _MPath) -> str:
    out = []
    for ev in p.events:
        if ev[0] in ("eq", "ne"):
            out.append(f"{ev[1]} {'equal' if ev[0] == 'eq' else 'different'}")
        elif ev[0] in ("none", "notnone"):
            out.append(f"{ev[1]}.{ev[2]} is {'None' if ev[0] == 'none' else 'defined'}")
        else:
            out.append(f"{ev[1]}.{ev[2]} = {ev[3]}.{ev[4]}")
    return "; ".join(out) or "none"


def _check_match(ctx, repo, cls: ClassInfo, checked: set) -> None:
    f = repo.method(MOD, "Grid", "match")
    flag = [n for n in f.params[2:] if isinstance(f.defaults().get(n), ast.Constant)
            and isinstance(f.defaults()[n].value, bool)]
    ctx.require(len(flag) == 1, "Grid.match: expected exactly one boolean option (check before overriding)")
    runs = {v: _two_grid_paths(cls, f, {flag[0]: ("const", v)}) for v in (False, True)}
    handled = set()
    for paths in runs.values():
        for p in paths:
            handled |= {ev[2] for ev in p.events if ev[0] == "copy"}
    ctx.require(len(handled) >= 2, "Grid.match copies fewer than two of extent/gpts/sampling between the grids")

    # (a) quantities found different (or undefined on one side) are copied; copies keep the kind
    for q in sorted(handled | _quantities_compared(runs[False])):
        differ, undefined, mixed = [], [], []
        for p in runs[False]:
            if p.status == "raise":
                continue
            evs = p.events
            for i, ev in enumerate(evs):
                later_copy = any(e[0] == "copy" and e[2] == q and e[4] == q and e[1] != e[3] for e in evs[i + 1:])
                if ev == ("ne", q) and not later_copy and not any(e == ("eq", q) for e in evs[i + 1:]):
                    differ.append(p)
                if ev[0] == "none" and ev[2] == q and not later_copy:
                    peer = "self" if ev[1] == "other" else "other"
                    if ("none", peer, q) not in evs:
                        undefined.append(p)
                if ev[0] == "copy" and ev[2] == q and (ev[4] != q or ev[1] == ev[3]):
                    mixed.append(p)
        n = sum(1 for p in runs[False] if p.status != "raise")
        ctx.check(not differ, "R-MATCH", f"{f.qualname}:{q}:copied-when-different", f.where,
                  f"{n} paths: whenever a test finds the {q} of the two grids different, one grid's {q} is assigned "
                  "to the other afterwards",
                  f"{len(differ)} path(s) establish that the {q} of the two grids differs and end without assigning "
                  f"one grid's {q} to the other: after match() the grids still disagree (events: "
                  f"{_show_events(differ[0]) if differ else ''})", key_detail="differ-not-copied")
        ctx.check(not undefined, "R-MATCH", f"{f.qualname}:{q}:copied-when-undefined", f.where,
                  f"whenever the {q} of one grid is found undefined it receives the {q} of the other grid",
                  f"{len(undefined)} path(s) find the {q} of one grid undefined and end without giving it the {q} of "
                  f"the other grid (events: {_show_events(undefined[0]) if undefined else ''})",
                  key_detail="undefined-not-copied")
        ctx.check(not mixed, "R-MATCH", f"{f.qualname}:{q}:same-quantity", f.where,
                  f"every store into {q} copies the {q} of the other grid",
                  f"a store into {q} does not copy the {q} of the other grid (events: "
                  f"{_show_events(mixed[0]) if mixed else ''})", key_detail="kind")

    # (b) with the checking option on, a defined quantity is only overridden after the comparison that raises
    for q in sorted(checked & handled):
        bad = [p for p in runs[True] if p.status != "raise"
               and any(e[0] == "copy" and e[2] == q for e in p.events)
               and not _checked_before_copy(p.events, q)]
        ctx.check(not bad and any(p.status == "raise" for p in runs[True]), "R-MATCH",
                  f"{f.qualname}:{q}:checked-before-override", f.where,
                  f"with {flag[0]}=True every path that stores a {q} has first established that the two {q} agree or "
                  "that one of them is undefined (the failing comparison raises)",
                  f"with {flag[0]}=True {len(bad)} path(s) store a {q} without any preceding comparison that would "
                  f"have raised on a mismatch: defined parameters are overridden silently (events: "
                  f"{_show_events(bad[0]) if bad else 'no raising path at all'})", key_detail="unchecked")


def _checked_before_copy(evs: list, q: str) -> bool:
    for i, ev in enumerate(evs):
        if ev[0] == "copy" and ev[2] == q:
            before = evs[:i]
            return ("eq", q) in before or any(e[0] == "none" and e[2] == q for e in before)
    return True


_inner_run_c17_sweep = run


def run(ctx) -> None:  # noqa: F811
    ctx.rule("R-DETERMINED", "same interpretation as R-GRIDSTATE: a non-raising assignment of a value (not None) never "
             "ends with exactly two of extent/gpts/sampling defined and the third undefined (unless the undefined one "
             "is locked): two quantities determine the grid, and a grid that stays half-defined after the assignment "
             "never reaches the fully defined, consistent state the property speaks about")
    ctx.rule("R-CHECKMATCH", "path enumeration of Grid.check_match over the facts its tests establish (equality / "
             "closeness / difference of the same quantity of the two grids, all()/any() reductions, negation): every "
             "path on which a quantity was found different raises; at least two quantities are compared")
    ctx.rule("R-MATCH", "path enumeration of Grid.match: all stores go through the extent/gpts/sampling setters of one "
             "of the two grids (decided by R-GRIDSTATE, so each grid stays consistent) and copy the same quantity of "
             "the other grid; on every path a quantity found different, or found undefined on one side, is "
             "subsequently copied from one grid to the other (else the grids still disagree after match()); with the "
             "checking option on, no quantity is stored before the comparison that raises on a mismatch has passed")
    repo = ctx.repo
    cls = repo.cls(MOD, "Grid")
    _check_determined(ctx, repo)
    checked = _check_checkmatch(ctx, repo, cls)
    _check_match(ctx, repo, cls, checked)
    _inner_run_c17_sweep(ctx)
