"""C30 — saved results load back unchanged (zarr writer/reader tables; abtem/array.py, abtem/core/axes.py).

Writer: ComputableList.to_zarr (nested encode_types), ArrayObject._metadata_to_dict / _pack_kwargs,
axis_to_dict.  Reader: from_zarr (nested decode_types), _from_zarr_canonical, _unpack_kwargs,
axis_from_dict.  Every rule is an agreement between a table the writer produces and the table the
reader consumes.
"""
from __future__ import annotations

import ast
from typing import Optional

from ..model import AnalysisError, ClassInfo, FuncInfo, ModuleInfo, dotted, last_attr, norm_text, walk_no_nested
from ..rules import axis_registry as reg
from .c35 import DATACLASS_RULE, dataclass_rules

ARR = "abtem.array"


def _nested(f: FuncInfo, name: str) -> ast.FunctionDef:
    hits = [n for n in ast.walk(f.node) if isinstance(n, ast.FunctionDef) and n.name == name and n is not f.node]
    if len(hits) != 1:
        raise AnalysisError(f"{f.qualname}: nested helper {name} not found")
    return hits[0]


def _isinstance_types(test: ast.expr, obj: str) -> Optional[list[str]]:
    if isinstance(test, ast.Call) and dotted(test.func) == "isinstance" and len(test.args) == 2 and \
            isinstance(test.args[0], ast.Name) and test.args[0].id == obj:
        t = test.args[1]
        elts = t.elts if isinstance(t, (ast.Tuple, ast.List)) else [t]
        return [dotted(e) or norm_text(e) for e in elts]
    return None


def _arms(fn: ast.FunctionDef):
    """Flatten the isinstance dispatch of a recursive codec: [(types | None, body)], obj name."""
    obj = fn.args.args[0].arg
    out = []

    def chain(body: list[ast.stmt]):
        for st in body:
            cur = st
            while isinstance(cur, ast.If):
                ts = _isinstance_types(cur.test, obj)
                out.append((ts, cur.test, cur.body))
                if len(cur.orelse) == 1 and isinstance(cur.orelse[0], ast.If):
                    cur = cur.orelse[0]
                else:
                    if cur.orelse:
                        out.append((None, None, cur.orelse))
                    break

    chain([s for s in fn.body if isinstance(s, ast.If)])
    return obj, out


def _recursive_calls(node_or_body, name: str) -> int:
    nodes = node_or_body if isinstance(node_or_body, list) else [node_or_body]
    return sum(1 for st in nodes for n in ast.walk(st) if isinstance(n, ast.Call) and dotted(n.func) == name)


def _const_subscript_stores(fn: ast.AST, var: str) -> dict[str, ast.expr]:
    """key -> value expression, for constant keys added to the dict `var`: var["k"] = ..., var.update({"k": ...}), var.update(k=...),
    var = {**other, "k": ...}.  Any other mutation of `var` is outside the analyser's reach."""
    out = {}
    for st in walk_no_nested(fn):
        if isinstance(st, ast.Assign):
            for t in st.targets:
                if isinstance(t, ast.Subscript) and isinstance(t.value, ast.Name) and t.value.id == var:
                    if not (isinstance(t.slice, ast.Constant) and isinstance(t.slice.value, str)):
                        raise AnalysisError(f"store into `{var}` under a computed key: `{norm_text(st)[:60]}`")
                    out[t.slice.value] = st.value
                if isinstance(t, ast.Name) and t.id == var and isinstance(st.value, ast.Dict):
                    for k, v in zip(st.value.keys, st.value.values):
                        if isinstance(k, ast.Constant) and isinstance(k.value, str):
                            out[k.value] = v
                        elif k is not None:
                            raise AnalysisError(f"`{var}` built with a computed key")
        if isinstance(st, ast.Call) and isinstance(st.func, ast.Attribute) and isinstance(st.func.value, ast.Name) \
                and st.func.value.id == var and st.func.attr in ("update", "setdefault", "__setitem__"):
            ok = st.func.attr == "update" and all(k.arg is not None for k in st.keywords) and \
                all(isinstance(a, ast.Dict) and all(isinstance(k, ast.Constant) for k in a.keys) for a in st.args)
            if not ok:
                raise AnalysisError(f"`{norm_text(st)[:60]}` changes `{var}` in a way the analyser does not follow")
            for a in st.args:
                for k, v in zip(a.keys, a.values):
                    out[k.value] = v
            for k in st.keywords:
                out[k.arg] = k.value
    return out


def _fstring_prefixes(fn: ast.AST) -> dict[str, ast.AST]:
    """f"prefix{expr}" -> prefix (JoinedStr made of one literal followed by one formatted value)."""
    out = {}
    for n in ast.walk(fn):
        if isinstance(n, ast.JoinedStr) and len(n.values) == 2 and isinstance(n.values[0], ast.Constant) and \
                isinstance(n.values[1], ast.FormattedValue):
            out.setdefault(n.values[0].value, n)
    return out


def run(ctx) -> None:
    repo = ctx.repo
    ctx.rule("R-TYPETAG", "encode_types/decode_types agree: every tagged container the writer emits "
             "({tag key: tag, value key: [...]}) is recognised by the reader under the same tag key, tag literal and "
             "value key and rebuilt with the constructor of the type the writer tested for; writer and reader both "
             "recurse into list and dict (and into the tagged value), so nested tuples survive")
    ctx.rule("R-SCALARARM", "the scalar arms of encode_types keep JSON-native Python scalars as they are: with the "
             "subtype facts bool < int, np.float64 < float, an arm `isinstance(obj, (.., T, ..)): return C(obj)` must "
             "not receive a value of a proper subtype S of T for which C changes the Python type (bool through int(), "
             "bool through float()) unless an earlier arm already took S; flags written as True/False must not "
             "come back as 1/0 (`axis._main is True` decides which axes are scan axes)")
    ctx.rule("R-METAKEYS", "the keys the writer adds to the user's metadata dict (_metadata_to_dict: axes, "
             "data_origin, type; to_zarr: kwargs) are exactly the keys _from_zarr_canonical pops before handing the "
             "rest back as metadata; a pop without default needs a key that is always written")
    ctx.rule("R-STOREKEYS", "attribute/array names agree: the writer's f\"metadata{i}\"/f\"array{i}\" prefixes are those "
             "the reader builds, the format probe literal is prefix+'0', and the per-axis keys f\"axis_{i}\" parse "
             "under the reader's int(key.split(sep)[k])")
    ctx.rule("R-KWARGS", "every _pack_kwargs/_unpack_kwargs pair of one class converts the same keyword names; "
             "ensemble_axes_metadata is written with axis_to_dict and read with axis_from_dict")
    ctx.rule("R-REGISTRY", reg.__doc__.split("(registry)")[1].split("(type key)")[0])
    ctx.rule("R-TYPEKEY", "axis_to_dict stores the class name under the key axis_from_dict looks up and strips; no "
             "axis class has a field of that name")
    ctx.rule("R-DATACLASS", "(shared with C35, the zarr writer stores every axis through axis_to_dict) " + DATACLASS_RULE)
    ctx.rule("R-TYPE-REGISTRY", "the writer stores type(obj).__name__; the reader resolves it with getattr(<module>, "
             "name): every concrete ArrayObject subclass of the package must be an attribute of that module under "
             "its own name, else the file it writes cannot be read back as the same type")
    ctx.undecided("array values and dtype (delegated to zarr/dask); equality of lazy and eager objects after reload")
    ctx.undecided("metadata *values* that JSON cannot represent or that encode_types flattens without a tag "
                  "(numpy arrays become lists)")
    ctx.undecided("whether cls.from_array_and_metadata or the kwargs fallback rebuilds every constructor argument")

    clist = repo.method(ARR, "ComputableList", "to_zarr")
    fz = repo.function(ARR, "from_zarr")
    canon = repo.function(ARR, "_from_zarr_canonical")
    m2d = repo.method(ARR, "ArrayObject", "_metadata_to_dict")
    enc = _nested(clist, "encode_types")
    dec = _nested(fz, "decode_types")

    # ---------------- R-TYPETAG
    eobj, earms = _arms(enc)
    dobj, darms = _arms(dec)
    ctx.require(len(earms) >= 3 and len(darms) >= 2, "encode_types/decode_types: isinstance dispatch not recognised")
    writer_tags = []  # (tag key, tag, value key, python type, dict node)
    enc_recursive: dict[str, bool] = {}
    lossy = []
    for ts, test, body in earms:
        if ts is None:
            continue
        rets = [n for st in body for n in ast.walk(st) if isinstance(n, ast.Return) and n.value is not None]
        for r in rets:
            v = r.value
            rec = _recursive_calls(v, enc.name) > 0
            if isinstance(v, ast.Dict) and all(isinstance(k, ast.Constant) for k in v.keys) and \
                    any(isinstance(x, ast.Constant) and isinstance(x.value, str) for x in v.values):
                tagk = [(k.value, x.value) for k, x in zip(v.keys, v.values) if isinstance(x, ast.Constant)]
                valk = [k.value for k, x in zip(v.keys, v.values) if not isinstance(x, ast.Constant)]
                ctx.require(len(tagk) == 1 and len(valk) == 1 and len(ts) == 1,
                            f"encode_types: tagged container `{norm_text(v)[:60]}` has an unexpected shape")
                writer_tags.append((tagk[0][0], tagk[0][1], valk[0], ts[0], v, rec))
            else:
                for t in ts:
                    enc_recursive[t] = enc_recursive.get(t, False) or rec
                    if t.endswith("ndarray") and not isinstance(v, ast.Dict):
                        lossy.append(t)
    ctx.require(len(writer_tags) >= 1, "encode_types emits no tagged container")
    # reader: comparisons obj.get(K) == V / obj[K] == V with the arm that rebuilds the value
    reader_tags = {}
    for n in ast.walk(dec):
        if not isinstance(n, ast.If):
            continue
        conj = n.test.values if isinstance(n.test, ast.BoolOp) and isinstance(n.test.op, ast.And) else [n.test]
        for cmp_ in conj:
            if not (isinstance(cmp_, ast.Compare) and len(cmp_.ops) == 1 and isinstance(cmp_.ops[0], ast.Eq)):
                continue
            a, b = cmp_.left, cmp_.comparators[0]
            for x, y in ((a, b), (b, a)):
                k = reg._const_key_read(x, dobj)
                if k is not None and isinstance(y, ast.Constant) and isinstance(y.value, str):
                    rets = [r for st in n.body for r in ast.walk(st) if isinstance(r, ast.Return) and r.value is not None]
                    ctx.require(len(rets) == 1, f"decode_types: arm for tag {y.value!r} has no single return")
                    rv = rets[0].value
                    ctor = dotted(rv.func) if isinstance(rv, ast.Call) else None
                    vkeys = {reg._const_key_read(s, dobj) for st in n.body for s in ast.walk(st)} - {None, k}
                    reader_tags[(k, y.value)] = (ctor, vkeys, _recursive_calls(rv, dec.name) > 0, n)
    for tk, tag, vk, pytype, node, rec in writer_tags:
        r = reader_tags.get((tk, tag))
        if r is None:
            ctx.violation("R-TYPETAG", f"{clist.qualname}.encode_types:tag {tag}", clist.loc(node),
                          f"the writer tags {pytype} as {{{tk!r}: {tag!r}, {vk!r}: ...}} but decode_types recognises "
                          f"only {sorted(reader_tags)}: the container comes back as a plain dict", key_detail=f"tag-{tag}")
            continue
        ctor, vkeys, rrec, rnode = r
        ctx.check(vkeys == {vk}, "R-TYPETAG", f"{fz.qualname}.decode_types:value-key {tag}", fz.loc(rnode),
                  f"reads the items from {vk!r}", f"the writer stores the items under {vk!r}, the reader reads "
                  f"{sorted(vkeys)}", key_detail=f"valuekey-{tag}")
        ctx.check(ctor == pytype, "R-TYPETAG", f"{fz.qualname}.decode_types:constructor {tag}", fz.loc(rnode),
                  f"{pytype} written under tag {tag!r} is rebuilt with {ctor}(...)",
                  f"the writer tags values of type {pytype}; the reader rebuilds them with {ctor}", key_detail=f"ctor-{tag}")
        ctx.check(rec and rrec, "R-TYPETAG", f"encode/decode:recursion into tagged {tag}", fz.loc(rnode),
                  "items of the tagged container are encoded and decoded recursively",
                  f"{'writer' if not rec else 'reader'} does not recurse into the items of a tagged {pytype}: nested "
                  "containers inside it are not restored", key_detail=f"rec-{tag}")
    # recursion into plain containers
    dec_recursive: dict[str, bool] = {}
    for ts, test, body in darms:
        if ts is None:
            continue
        for t in ts:
            # returns of this arm that are not inside a tag arm
            tag_nodes = {id(x) for v in reader_tags.values() for x in ast.walk(v[3])}
            rets = [n for st in body for n in ast.walk(st)
                    if isinstance(n, ast.Return) and n.value is not None and id(n) not in tag_nodes]
            dec_recursive[t] = any(_recursive_calls(r.value, dec.name) for r in rets)
    for t in ("list", "dict"):
        ctx.check(enc_recursive.get(t, False), "R-TYPETAG", f"{clist.qualname}.encode_types:recurses-{t}",
                  clist.loc(enc), f"encodes the items of a {t} recursively",
                  f"encode_types does not recurse into {t}: a tuple nested in a {t} is written untagged and comes "
                  "back as a list", key_detail=f"enc-{t}")
        ctx.check(dec_recursive.get(t, False), "R-TYPETAG", f"{fz.qualname}.decode_types:recurses-{t}", fz.loc(dec),
                  f"decodes the items of a {t} recursively",
                  f"decode_types does not recurse into {t}: tagged containers nested in a {t} stay dicts",
                  key_detail=f"dec-{t}")
    if lossy:
        ctx.info("R-TYPETAG", f"{clist.qualname}.encode_types", clist.loc(enc),
                 f"{sorted(set(lossy))} values are written as untagged lists (they come back as list, not ndarray) — "
                 "not decided here")
    # both helpers are actually applied
    enc_used = any(isinstance(n, ast.Call) and dotted(n.func) == enc.name and not any(n is x for x in ast.walk(enc))
                   for n in ast.walk(clist.node))
    dec_used = any(isinstance(n, ast.Call) and dotted(n.func) == "decode_types" for n in ast.walk(canon.node))
    ctx.check(enc_used and dec_used, "R-TYPETAG", "encode/decode:applied", clist.where,
              "metadata passes through encode_types when written and decode_types when read",
              "encode_types / decode_types is no longer applied to the metadata on "
              + ("the writer side" if not enc_used else "the reader side"), key_detail="applied")

    # ---------------- R-METAKEYS
    mret = [n for n in walk_no_nested(m2d.node) if isinstance(n, ast.Return) and n.value is not None]
    ctx.require(len(mret) == 1 and isinstance(mret[0].value, ast.Name), f"{m2d.qualname}: result is not a local dict")
    mvar = mret[0].value.id
    written = dict(_const_subscript_stores(m2d.node, mvar))
    # keys added by to_zarr to the dict returned by _metadata_to_dict
    zvars = [st.targets[0].id for st in ast.walk(clist.node)
             if isinstance(st, ast.Assign) and isinstance(st.targets[0], ast.Name) and isinstance(st.value, ast.Call)
             and last_attr(st.value) == "_metadata_to_dict"]
    ctx.require(len(zvars) == 1, f"{clist.qualname}: call of _metadata_to_dict not found")
    added = _const_subscript_stores(clist.node, zvars[0])
    # stores inside nested functions do not count (walk_no_nested skips them)
    written.update(added)
    # reader: pops on the decoded metadata
    rvars = [st.targets[0].id for st in walk_no_nested(canon.node)
             if isinstance(st, ast.Assign) and isinstance(st.targets[0], ast.Name)
             and any(isinstance(c, ast.Call) and dotted(c.func) == "decode_types" for c in ast.walk(st.value))]
    ctx.require(len(rvars) == 1, f"{canon.qualname}: decoded metadata variable not found")
    rvar = rvars[0]
    popped: dict[str, tuple[ast.AST, bool]] = {}
    for n in walk_no_nested(canon.node):
        if isinstance(n, ast.Call) and isinstance(n.func, ast.Attribute) and n.func.attr == "pop" and \
                isinstance(n.func.value, ast.Name) and n.func.value.id == rvar and n.args and \
                isinstance(n.args[0], ast.Constant):
            popped[n.args[0].value] = (n, len(n.args) > 1 or bool(n.keywords))
        if isinstance(n, ast.Delete):
            for t in n.targets:
                if isinstance(t, ast.Subscript) and isinstance(t.value, ast.Name) and t.value.id == rvar and \
                        isinstance(t.slice, ast.Constant):
                    guarded = any(isinstance(i, ast.If) and any(x is n for x in ast.walk(i))
                                  for i in walk_no_nested(canon.node))
                    popped[t.slice.value] = (n, guarded)
    ctx.require(len(popped) >= 2, f"{canon.qualname}: pops on the metadata dict not found")
    # the rest is handed back as metadata
    handed = any(isinstance(k, ast.keyword) and k.arg == "metadata" and isinstance(k.value, ast.Name)
                 and k.value.id == rvar for n in ast.walk(canon.node) if isinstance(n, ast.Call) for k in n.keywords)
    ctx.require(handed, f"{canon.qualname}: the remaining dict is not passed on as metadata")
    for k in sorted(set(written) | set(popped)):
        if k in written and k in popped:
            ctx.ok("R-METAKEYS", f"metadata key {k!r}", canon.loc(popped[k][0]),
                   "added by the writer, removed by the reader")
        elif k in written:
            ctx.violation("R-METAKEYS", f"metadata key {k!r}", m2d.loc(written[k]),
                          f"the writer adds {k!r} to the metadata but {canon.name} does not remove it: the reloaded "
                          f"object's metadata has an extra entry {k!r}", key_detail="unpopped")
        else:
            call, has_default = popped[k]
            ctx.violation("R-METAKEYS", f"metadata key {k!r}", canon.loc(call),
                          f"{canon.name} removes {k!r} from the metadata but the writer never adds it: "
                          + ("a user entry of that name is lost on reload" if has_default else
                             "KeyError on every file (pop without default)"), key_detail="unwritten")

    # ---------------- R-STOREKEYS
    # store keys are the identifier-like f"<prefix>{counter}" strings (error messages are not identifiers)
    wnames = {p for p in _fstring_prefixes(clist.node) if p.isidentifier()}
    rnames = {p for p in _fstring_prefixes(canon.node) if p.isidentifier()}
    ctx.require(len(wnames) >= 2 and len(rnames) >= 2, "to_zarr/_from_zarr_canonical: f-string store keys not found")
    ctx.check(wnames == rnames, "R-STOREKEYS", "store key prefixes", canon.where,
              f"writer and reader both use {sorted(wnames)}",
              f"writer stores under prefixes {sorted(wnames)}, reader looks under {sorted(rnames)}", key_detail="prefixes")
    probes = [n.left.value for n in ast.walk(fz.node) if isinstance(n, ast.Compare) and len(n.ops) == 1
              and isinstance(n.ops[0], ast.In) and isinstance(n.left, ast.Constant) and isinstance(n.left.value, str)]
    ctx.require(len(probes) >= 1, f"{fz.qualname}: format probe not found")
    ctx.check(any(p == w + "0" for p in probes for w in wnames), "R-STOREKEYS", f"{fz.qualname}:format-probe", fz.where,
              f"probe {probes} matches the first key the writer stores",
              f"from_zarr probes {probes}, the writer's first metadata key is {sorted(w + '0' for w in wnames)}",
              key_detail="probe")
    # axis keys
    ctx.require("axes" in written, f"{m2d.qualname}: the axes entry is not written")
    axis_pre = sorted({p for n in ast.walk(written["axes"]) if isinstance(n, ast.DictComp)
                       for p in _fstring_prefixes(n.key)})
    ctx.require(len(axis_pre) == 1, f"{m2d.qualname}: per-axis key pattern not found")
    ap = axis_pre[0]
    def _int_const(e):
        if isinstance(e, ast.UnaryOp) and isinstance(e.op, ast.USub) and isinstance(e.operand, ast.Constant):
            return -e.operand.value
        return e.value if isinstance(e, ast.Constant) and isinstance(e.value, int) else None

    splits = [(n, n.value.args[0].value, _int_const(n.slice)) for n in ast.walk(canon.node)
              if isinstance(n, ast.Subscript) and isinstance(n.value, ast.Call) and last_attr(n.value) == "split"
              and n.value.args and isinstance(n.value.args[0], ast.Constant) and _int_const(n.slice) is not None]
    ctx.require(len(splits) == 1, f"{canon.qualname}: axis ordering key not recognised")
    _, sep, pos = splits[0]
    parts = (ap + "7").split(sep)
    ok = -len(parts) <= pos < len(parts) and parts[pos] == "7"
    ctx.check(ok, "R-STOREKEYS", "axis key pattern", canon.loc(splits[0][0]),
              f"f\"{ap}{{i}}\".split({sep!r})[{pos}] is the axis index",
              f"axis keys are written as f\"{ap}{{i}}\" but ordered by int(key.split({sep!r})[{pos}]), which is not the "
              "index", key_detail="axiskey")
    # the axes sub-dict is written with axis_to_dict and read with axis_from_dict
    w_ax = any(isinstance(n, ast.Call) and dotted(n.func) == "axis_to_dict" for n in ast.walk(written["axes"])) \
        if "axes" in written else False
    r_ax = any(isinstance(n, ast.Call) and dotted(n.func) == "axis_from_dict" for n in ast.walk(canon.node))
    ctx.check(w_ax and r_ax, "R-STOREKEYS", "axes entries", canon.where,
              "axes written with axis_to_dict, read with axis_from_dict",
              "axes are not written with axis_to_dict / read with axis_from_dict", key_detail="axes-codec")

    # ---------------- R-KWARGS
    n_pairs = 0
    for c in repo.all_classes():
        p, u = c.own_method("_pack_kwargs"), c.own_method("_unpack_kwargs")
        if p is None and u is None:
            continue
        if p is None or u is None:
            ctx.violation("R-KWARGS", c.qualname, c.where,
                          f"{c.name} overrides only {'_pack_kwargs' if p else '_unpack_kwargs'}: the conversion has no "
                          "counterpart", key_detail="unpaired")
            continue
        n_pairs += 1
        (pk, pdrop), (uk, udrop) = _converted_keys(p), _converted_keys(u)
        ctx.check(pk == uk, "R-KWARGS", f"{c.qualname}:keys", p.where,
                  f"pack and unpack both convert {sorted(pk)}"
                  + (f"; unpack ignores {sorted(udrop)}" if udrop else ""),
                  f"_pack_kwargs converts {sorted(pk)} but _unpack_kwargs converts {sorted(uk)}",
                  key_detail="keys")
        ctx.check(not (pdrop or (udrop & pk)), "R-KWARGS", f"{c.qualname}:dropped", p.where,
                  "no packed keyword is dropped",
                  f"keywords dropped: pack {sorted(pdrop)}, unpack {sorted(udrop & pk)}", key_detail="dropped")
    ctx.require(n_pairs >= 2, f"only {n_pairs} _pack_kwargs/_unpack_kwargs pairs found")
    bp, bu = repo.method(ARR, "ArrayObject", "_pack_kwargs"), repo.method(ARR, "ArrayObject", "_unpack_kwargs")
    ctx.check(_key_codec(bp, "ensemble_axes_metadata") == "axis_to_dict" and
              _key_codec(bu, "ensemble_axes_metadata") == "axis_from_dict", "R-KWARGS",
              f"{bp.qualname}:ensemble_axes_metadata codec", bp.where,
              "ensemble axes: axis_to_dict when packed, axis_from_dict when unpacked",
              f"ensemble axes are packed with {_key_codec(bp, 'ensemble_axes_metadata')} and unpacked with "
              f"{_key_codec(bu, 'ensemble_axes_metadata')}", key_detail="codec")

    # ---------------- R-SCALARARM
    SUBTYPES = {"int": ["bool"], "float": [], "numbers.Number": ["bool"], "numbers.Integral": ["bool"],
                "Number": ["bool"], "object": ["bool"]}
    CONVERT_CHANGES = {("bool", "int"), ("bool", "float"), ("bool", "str"), ("bool", "complex")}
    taken: set[str] = set()
    n_arm = 0
    for ts, test, body in earms:
        if ts is None:
            continue
        rets = [r for st in body for r in ast.walk(st) if isinstance(r, ast.Return) and r.value is not None]
        conv = None
        if len(rets) == 1 and isinstance(rets[0].value, ast.Call) and isinstance(rets[0].value.func, ast.Name) and \
                len(rets[0].value.args) == 1 and dotted(rets[0].value.args[0]) == eobj:
            conv = rets[0].value.func.id
        n_arm += 1
        lost = []
        for t in ts:
            for sub in SUBTYPES.get(t, []):
                if sub not in taken and sub not in ts and conv is not None and (sub, conv) in CONVERT_CHANGES:
                    lost.append((sub, t, conv))
        ctx.check(not lost, "R-SCALARARM", f"{clist.qualname}.encode_types:arm {'|'.join(ts)}", clist.loc(test),
                  f"arm for {ts} {'converts with ' + conv + '()' if conv else 'recurses / tags'}; no JSON-native subtype "
                  "is re-typed",
                  "; ".join(f"a Python {sub} is an instance of {t} and reaches `return {c}(obj)` before any arm for {sub}: "
                            f"True/False are written as {c}(True)/{c}(False) and do not come back as bool"
                            for sub, t, c in lost), key_detail="scalar-arm")
        taken |= set(ts)
    ctx.require(n_arm >= 5, f"R-SCALARARM examined only {n_arm} arms of encode_types")

    # ---------------- R-REGISTRY / R-TYPEKEY (shared with C35)
    reader = reg.analyse_reader(repo, repo.function(reg.AXES_MOD, "axis_from_dict"))
    n = reg.check_registry(ctx, [reader])
    ctx.require(n >= 10, f"R-REGISTRY examined only {n} classes")
    reg.check_type_key(ctx, [repo.function(reg.AXES_MOD, "axis_to_dict")], [reader])
    dataclass_rules(ctx, repo, writers=[repo.function(reg.AXES_MOD, "axis_to_dict")])

    # ---------------- R-TYPE-REGISTRY
    ctx.require("type" in written and isinstance(written["type"], ast.Attribute)
                and written["type"].attr == "__name__", f"{m2d.qualname}: the class name is not stored")
    # how the reader resolves the popped type name
    name_vars = {st.targets[0].id for st in walk_no_nested(canon.node)
                 if isinstance(st, ast.Assign) and isinstance(st.targets[0], ast.Name)
                 and isinstance(st.value, ast.Call) and popped.get("type", (None,))[0] is st.value}
    ctx.require(len(name_vars) == 1, f"{canon.qualname}: the popped type name is not bound to a variable")
    nv = next(iter(name_vars))
    lookups = [n for n in walk_no_nested(canon.node) if isinstance(n, ast.Call) and dotted(n.func) == "getattr"
               and len(n.args) == 2 and isinstance(n.args[1], ast.Name) and n.args[1].id == nv]
    ctx.require(len(lookups) == 1, f"{canon.qualname}: cannot interpret how the class is resolved from its name")
    modname = dotted(lookups[0].args[0])
    local_imports = {a.asname or a.name.split(".")[0]: a.name for st in ast.walk(canon.node) if isinstance(st, ast.Import)
                     for a in st.names}
    target = local_imports.get(modname) or canon.module.imports.get(modname)
    ctx.require(target in repo.modules, f"{canon.qualname}: `{modname}` is not a package module")
    ns: ModuleInfo = repo.modules[target]
    base = repo.cls(ARR, "ArrayObject")
    n_cls = 0
    for c in sorted(repo.subclasses(base, strict=False), key=lambda k: k.qualname):
        if c.is_abstract():
            ctx.info("R-TYPE-REGISTRY", c.qualname, c.where, "abstract: no instance can be written")
            continue
        n_cls += 1
        got = repo.resolve_name(ns, c.name) if (c.name in ns.imports or c.name in ns.classes) else None
        if got is c:
            ctx.ok("R-TYPE-REGISTRY", c.qualname, c.where, f"getattr({target}, {c.name!r}) is the class")
        else:
            ctx.violation("R-TYPE-REGISTRY", c.qualname, c.where,
                          f"{c.name}.to_zarr writes type={c.name!r}, but {canon.name} resolves it with "
                          f"getattr({target}, {c.name!r}) and {target} has no such attribute"
                          + (f" (it resolves to {getattr(got, 'qualname', got)})" if got is not None else "")
                          + ": the file cannot be read back (AttributeError)", key_detail=canon.name)
    ctx.require(n_cls >= 8, f"only {n_cls} concrete ArrayObject classes found")


def _converted_keys(f: FuncInfo) -> tuple[set[str], set[str]]:
    """(keyword names a pack/unpack method converts, names it drops): `kwargs["k"] = <conversion>` stores and
    `key == "k"` arms; an arm whose body is `pass` drops the key."""
    conv: set[str] = set()
    drop: set[str] = set()
    for n in walk_no_nested(f.node):
        if isinstance(n, ast.Assign):
            for t in n.targets:
                if isinstance(t, ast.Subscript) and isinstance(t.slice, ast.Constant) and isinstance(t.slice.value, str):
                    # `kwargs["ensemble_axes_metadata"] = []` initialisation is not a conversion
                    if not (isinstance(n.value, (ast.List, ast.Tuple, ast.Dict)) and not getattr(n.value, "elts", None)
                            and not getattr(n.value, "keys", None)):
                        conv.add(t.slice.value)
        if isinstance(n, ast.If) and isinstance(n.test, ast.Compare) and len(n.test.ops) == 1 and \
                isinstance(n.test.ops[0], ast.Eq):
            for x in (n.test.left, n.test.comparators[0]):
                if isinstance(x, ast.Constant) and isinstance(x.value, str):
                    (drop if all(isinstance(b, ast.Pass) for b in n.body) else conv).add(x.value)
    return conv, drop - conv


def _key_codec(f: FuncInfo, key: str) -> Optional[str]:
    """Function applied to the items of kwargs[key] in a pack/unpack method."""
    for n in walk_no_nested(f.node):
        if isinstance(n, ast.If) and any(isinstance(x, ast.Constant) and x.value == key for x in ast.walk(n.test)):
            for c in ast.walk(ast.Module(body=n.body, type_ignores=[])):
                if isinstance(c, ast.Call) and isinstance(c.func, ast.Name) and c.func.id.startswith("axis_"):
                    return c.func.id
    for n in walk_no_nested(f.node):
        if isinstance(n, ast.Assign) and any(isinstance(t, ast.Subscript) and isinstance(t.slice, ast.Constant)
                                             and t.slice.value == key for t in n.targets):
            for c in ast.walk(n.value):
                if isinstance(c, ast.Call) and isinstance(c.func, ast.Name) and c.func.id.startswith("axis_"):
                    return c.func.id
    return None
