"""C30 — saved results load back unchanged (zarr writer/reader tables; abtem/array.py, abtem/core/axes.py).

Writer: ComputableList.to_zarr (nested encode_types), ArrayObject._metadata_to_dict / _pack_kwargs,
axis_to_dict.  Reader: from_zarr (nested decode_types), _from_zarr_canonical, _unpack_kwargs,
axis_from_dict.  Every rule is an agreement between a table the writer produces and the table the
reader consumes.
"""
from __future__ import annotations

import ast
from typing import Optional

from ..model import AnalysisError, ClassInfo, FuncInfo, ModuleInfo, dotted, last_attr, norm_text, walk_no_nested
from ..rules import axis_registry as reg
from .c35 import DATACLASS_RULE, dataclass_rules

ARR = "abtem.array"


def _nested(f: FuncInfo, name: str) -> ast.FunctionDef:
    hits = [n for n in ast.walk(f.node) if isinstance(n, ast.FunctionDef) and n.name == name and n is not f.node]
    if len(hits) != 1:
        raise AnalysisError(f"{f.qualname}: nested helper {name} not found")
    return hits[0]


def _isinstance_types(test: ast.expr, obj: str) -> Optional[list[str]]:
    if isinstance(test, ast.Call) and dotted(test.func) == "isinstance" and len(test.args) == 2 and \
            isinstance(test.args[0], ast.Name) and test.args[0].id == obj:
        t = test.args[1]
        elts = t.elts if isinstance(t, (ast.Tuple, ast.List)) else [t]
        return [dotted(e) or norm_text(e) for e in elts]
    return None


def _arms(fn: ast.FunctionDef):
    """Flatten the isinstance dispatch of a recursive codec: [(types | None, body)], obj name."""
    obj = fn.args.args[0].arg
    out = []

    def chain(body: list[ast.stmt]):
        for st in body:
            cur = st
            while isinstance(cur, ast.If):
                ts = _isinstance_types(cur.test, obj)
                out.append((ts, cur.test, cur.body))
                if len(cur.orelse) == 1 and isinstance(cur.orelse[0], ast.If):
                    cur = cur.orelse[0]
                else:
                    if cur.orelse:
                        out.append((None, None, cur.orelse))
                    break

    chain([s for s in fn.body if isinstance(s, ast.If)])
    return obj, out


def _recursive_calls(node_or_body, name: str) -> int:
    nodes = node_or_body if isinstance(node_or_body, list) else [node_or_body]
    return sum(1 for st in nodes for n in ast.walk(st) if isinstance(n, ast.Call) and dotted(n.func) == name)


def _const_subscript_stores(fn: ast.AST, var: str) -> dict[str, ast.expr]:
    """key -> value expression, for constant keys added to the dict `var`: var["k"] = ..., var.update({"k": ...}), var.update(k=...),
    var = {**other, "k": ...}.  Any other mutation of `var` is outside the analyser's reach."""
    out = {}
    for st in walk_no_nested(fn):
        if isinstance(st, ast.Assign):
            for t in st.targets:
                if isinstance(t, ast.Subscript) and isinstance(t.value, ast.Name) and t.value.id == var:
                    if not (isinstance(t.slice, ast.Constant) and isinstance(t.slice.value, str)):
                        raise AnalysisError(f"store into `{var}` under a computed key: `{norm_text(st)[:60]}`")
                    out[t.slice.value] = st.value
                if isinstance(t, ast.Name) and t.id == var and isinstance(st.value, ast.Dict):
                    for k, v in zip(st.value.keys, st.value.values):
                        if isinstance(k, ast.Constant) and isinstance(k.value, str):
                            out[k.value] = v
                        elif k is not None:
                            raise AnalysisError(f"`{var}` built with a computed key")
        if isinstance(st, ast.Call) and isinstance(st.func, ast.Attribute) and isinstance(st.func.value, ast.Name) \
                and st.func.value.id == var and st.func.attr in ("update", "setdefault", "__setitem__"):
            ok = st.func.attr == "update" and all(k.arg is not None for k in st.keywords) and \
                all(isinstance(a, ast.Dict) and all(isinstance(k, ast.Constant) for k in a.keys) for a in st.args)
            if not ok:
                raise AnalysisError(f"`{norm_text(st)[:60]}` changes `{var}` in a way the analyser does not follow")
            for a in st.args:
                for k, v in zip(a.keys, a.values):
                    out[k.value] = v
            for k in st.keywords:
                out[k.arg] = k.value
    return out


def _fstring_prefixes(fn: ast.AST) -> dict[str, ast.AST]:
    """f"prefix{expr}" -> prefix (JoinedStr made of one literal followed by one formatted value)."""
    out = {}
    for n in ast.walk(fn):
        if isinstance(n, ast.JoinedStr) and len(n.values) == 2 and isinstance(n.values[0], ast.Constant) and \
                isinstance(n.values[1], ast.FormattedValue):
            out.setdefault(n.values[0].value, n)
    return out


def run(ctx) -> None:
    repo = ctx.repo
    ctx.rule("R-TYPETAG", "encode_types/decode_types agree: every tagged container the writer emits "
             "({tag key: tag, value key: [...]}) is recognised by the reader under the same tag key, tag literal and "
             "value key and rebuilt with the constructor of the type the writer tested for; writer and reader both "
             "recurse into list and dict (and into the tagged value), so nested tuples survive")
    ctx.rule("R-SCALARARM", "the scalar arms of encode_types keep JSON-native Python scalars as they are: with the "
             "subtype facts bool < int, np.float64 < float, an arm `isinstance(obj, (.., T, ..)): return C(obj)` must "
             "not receive a value of a proper subtype S of T for which C changes the Python type (bool through int(), "
             "bool through float()) unless an earlier arm already took S; flags written as True/False must not "
             "come back as 1/0 (`axis._main is True` decides which axes are scan axes)")
    ctx.rule("R-METAKEYS", "the keys the writer adds to the user's metadata dict (_metadata_to_dict: axes, "
             "data_origin, type; to_zarr: kwargs) are exactly the keys _from_zarr_canonical pops before handing the "
             "rest back as metadata; a pop without default needs a key that is always written")
    ctx.rule("R-STOREKEYS", "attribute/array names agree: the writer's f\"metadata{i}\"/f\"array{i}\" prefixes are those "
             "the reader builds, the format probe literal is prefix+'0', and the per-axis keys f\"axis_{i}\" parse "
             "under the reader's int(key.split(sep)[k])")
    ctx.rule("R-KWARGS", "every _pack_kwargs/_unpack_kwargs pair of one class converts the same keyword names; "
             "ensemble_axes_metadata is written with axis_to_dict and read with axis_from_dict")
    ctx.rule("R-REGISTRY", reg.__doc__.split("(registry)")[1].split("(type key)")[0])
    ctx.rule("R-TYPEKEY", "axis_to_dict stores the class name under the key axis_from_dict looks up and strips; no "
             "axis class has a field of that name")
    ctx.rule("R-DATACLASS", "(shared with C35, the zarr writer stores every axis through axis_to_dict) " + DATACLASS_RULE)
    ctx.rule("R-TYPE-REGISTRY", "the writer stores type(obj).__name__; the reader resolves it with getattr(<module>, "
             "name): every concrete ArrayObject subclass of the package must be an attribute of that module under "
             "its own name, else the file it writes cannot be read back as the same type")
    ctx.undecided("array values and dtype (delegated to zarr/dask); equality of lazy and eager objects after reload")
    ctx.undecided("metadata *values* that JSON cannot represent or that encode_types flattens without a tag "
                  "(numpy arrays become lists)")
    ctx.undecided("whether cls.from_array_and_metadata or the kwargs fallback rebuilds every constructor argument")

    clist = repo.method(ARR, "ComputableList", "to_zarr")
    fz = repo.function(ARR, "from_zarr")
    canon = repo.function(ARR, "_from_zarr_canonical")
    m2d = repo.method(ARR, "ArrayObject", "_metadata_to_dict")
    enc = _nested(clist, "encode_types")
    dec = _nested(fz, "decode_types")

    # ---------------- R-TYPETAG
    eobj, earms = _arms(enc)
    dobj, darms = _arms(dec)
    ctx.require(len(earms) >= 3 and len(darms) >= 2, "encode_types/decode_types: isinstance dispatch not recognised")
    writer_tags = []  # (tag key, tag, value key, python type, dict node)
    enc_recursive: dict[str, bool] = {}
    lossy = []
    for ts, test, body in earms:
        if ts is None:
            continue
        rets = [n for st in body for n in ast.walk(st) if isinstance(n, ast.Return) and n.value is not None]
        for r in rets:
            v = r.value
            rec = _recursive_calls(v, enc.name) > 0
            if isinstance(v, ast.Dict) and all(isinstance(k, ast.Constant) for k in v.keys) and \
                    any(isinstance(x, ast.Constant) and isinstance(x.value, str) for x in v.values):
                tagk = [(k.value, x.value) for k, x in zip(v.keys, v.values) if isinstance(x, ast.Constant)]
                valk = [k.value for k, x in zip(v.keys, v.values) if not isinstance(x, ast.Constant)]
                ctx.require(len(tagk) == 1 and len(valk) == 1 and len(ts) == 1,
                            f"encode_types: tagged container `{norm_text(v)[:60]}` has an unexpected shape")
                writer_tags.append((tagk[0][0], tagk[0][1], valk[0], ts[0], v, rec))
            else:
                for t in ts:
                    enc_recursive[t] = enc_recursive.get(t, False) or rec
                    if t.endswith("ndarray") and not isinstance(v, ast.Dict):
                        lossy.append(t)
    ctx.require(len(writer_tags) >= 1, "encode_types emits no tagged container")
    # reader: comparisons obj.get(K) == V / obj[K] == V with the arm that rebuilds the value
    reader_tags = {}
    for n in ast.walk(dec):
        if not isinstance(n, ast.If):
            continue
        conj = n.test.values if isinstance(n.test, ast.BoolOp) and isinstance(n.test.op, ast.And) else [n.test]
        for cmp_ in conj:
            if not (isinstance(cmp_, ast.Compare) and len(cmp_.ops) == 1 and isinstance(cmp_.ops[0], ast.Eq)):
                continue
            a, b = cmp_.left, cmp_.comparators[0]
            for x, y in ((a, b), (b, a)):
                k = reg._const_key_read(x, dobj)
                if k is not None and isinstance(y, ast.Constant) and isinstance(y.value, str):
                    rets = [r for st in n.body for r in ast.walk(st) if isinstance(r, ast.Return) and r.value is not None]
                    ctx.require(len(rets) == 1, f"decode_types: arm for tag {y.value!r} has no single return")
                    rv = rets[0].value
                    ctor = dotted(rv.func) if isinstance(rv, ast.Call) else None
                    vkeys = {reg._const_key_read(s, dobj) for st in n.body for s in ast.walk(st)} - {None, k}
                    reader_tags[(k, y.value)] = (ctor, vkeys, _recursive_calls(rv, dec.name) > 0, n)
    for tk, tag, vk, pytype, node, rec in writer_tags:
        r = reader_tags.get((tk, tag))
        if r is None:
            ctx.violation("R-TYPETAG", f"{clist.qualname}.encode_types:tag {tag}", clist.loc(node),
                          f"the writer tags {pytype} as {{{tk!r}: {tag!r}, {vk!r}: ...}} but decode_types recognises "
                          f"only {sorted(reader_tags)}: the container comes back as a plain dict", key_detail=f"tag-{tag}")
            continue
        ctor, vkeys, rrec, rnode = r
        ctx.check(vkeys == {vk}, "R-TYPETAG", f"{fz.qualname}.decode_types:value-key {tag}", fz.loc(rnode),
                  f"reads the items from {vk!r}", f"the writer stores the items under {vk!r}, the reader reads "
                  f"{sorted(vkeys)}", key_detail=f"valuekey-{tag}")
        ctx.check(ctor == pytype, "R-TYPETAG", f"{fz.qualname}.decode_types:constructor {tag}", fz.loc(rnode),
                  f"{pytype} written under tag {tag!r} is rebuilt with {ctor}(...)",
                  f"the writer tags values of type {pytype}; the reader rebuilds them with {ctor}", key_detail=f"ctor-{tag}")
        ctx.check(rec and rrec, "R-TYPETAG", f"encode/decode:recursion into tagged {tag}", fz.loc(rnode),
                  "items of the tagged container are encoded and decoded recursively",
                  f"{'writer' if not rec else 'reader'} does not recurse into the items of a tagged {pytype}: nested "
                  "containers inside it are not restored", key_detail=f"rec-{tag}")
    # recursion into plain containers
    dec_recursive: dict[str, bool] = {}
    for ts, test, body in darms:
        if ts is None:
            continue
        for t in ts:
            # returns of this arm that are not inside a tag arm
            tag_nodes = {id(x) for v in reader_tags.values() for x in ast.walk(v[3])}
            rets = [n for st in body for n in ast.walk(st)
                    if isinstance(n, ast.Return) and n.value is not None and id(n) not in tag_nodes]
            dec_recursive[t] = any(_recursive_calls(r.value, dec.name) for r in rets)
    for t in ("list", "dict"):
        ctx.check(enc_recursive.get(t, False), "R-TYPETAG", f"{clist.qualname}.encode_types:recurses-{t}",
                  clist.loc(enc), f"encodes the items of a {t} recursively",
                  f"encode_types does not recurse into {t}: a tuple nested in a {t} is written untagged and comes "
                  "back as a list", key_detail=f"enc-{t}")
        ctx.check(dec_recursive.get(t, False), "R-TYPETAG", f"{fz.qualname}.decode_types:recurses-{t}", fz.loc(dec),
                  f"decodes the items of a {t} recursively",
                  f"decode_types does not recurse into {t}: tagged containers nested in a {t} stay dicts",
                  key_detail=f"dec-{t}")
    if lossy:
        ctx.info("R-TYPETAG", f"{clist.qualname}.encode_types", clist.loc(enc),
                 f"{sorted(set(lossy))} values are written as untagged lists (they come back as list, not ndarray) — "
                 "not decided here")
    # both helpers are actually applied
    enc_used = any(isinstance(n, ast.Call) and dotted(n.func) == enc.name and not any(n is x for x in ast.walk(enc))
                   for n in ast.walk(clist.node))
    dec_used = any(isinstance(n, ast.Call) and dotted(n.func) == "decode_types" for n in ast.walk(canon.node))
    ctx.check(enc_used and dec_used, "R-TYPETAG", "encode/decode:applied", clist.where,
              "metadata passes through encode_types when written and decode_types when read",
              "encode_types / decode_types is no longer applied to the metadata on "
              + ("the writer side" if not enc_used else "the reader side"), key_detail="applied")

    # ---------------- R-METAKEYS
    mret = [n for n in walk_no_nested(m2d.node) if isinstance(n, ast.Return) and n.value is not None]
    ctx.require(len(mret) == 1 and isinstance(mret[0].value, ast.Name), f"{m2d.qualname}: result is not a local dict")
    mvar = mret[0].value.id
    written = dict(_const_subscript_stores(m2d.node, mvar))
    # keys added by to_zarr to the dict returned by _metadata_to_dict
    zvars = [st.targets[0].id for st in ast.walk(clist.node)
             if isinstance(st, ast.Assign) and isinstance(st.targets[0], ast.Name) and isinstance(st.value, ast.Call)
             and last_attr(st.value) == "_metadata_to_dict"]
    ctx.require(len(zvars) == 1, f"{clist.qualname}: call of _metadata_to_dict not found")
    added = _const_subscript_stores(clist.node, zvars[0])
    # stores inside nested functions do not count (walk_no_nested skips them)
    written.update(added)
    # reader: pops on the decoded metadata
    rvars = [st.targets[0].id for st in walk_no_nested(canon.node)
             if isinstance(st, ast.Assign) and isinstance(st.targets[0], ast.Name)
             and any(isinstance(c, ast.Call) and dotted(c.func) == "decode_types" for c in ast.walk(st.value))]
    ctx.require(len(rvars) == 1, f"{canon.qualname}: decoded metadata variable not found")
    rvar = rvars[0]
    popped: dict[str, tuple[ast.AST, bool]] = {}
    for n in walk_no_nested(canon.node):
        if isinstance(n, ast.Call) and isinstance(n.func, ast.Attribute) and n.func.attr == "pop" and \
                isinstance(n.func.value, ast.Name) and n.func.value.id == rvar and n.args and \
                isinstance(n.args[0], ast.Constant):
            popped[n.args[0].value] = (n, len(n.args) > 1 or bool(n.keywords))
        if isinstance(n, ast.Delete):
            for t in n.targets:
                if isinstance(t, ast.Subscript) and isinstance(t.value, ast.Name) and t.value.id == rvar and \
                        isinstance(t.slice, ast.Constant):
                    guarded = any(isinstance(i, ast.If) and any(x is n for x in ast.walk(i))
                                  for i in walk_no_nested(canon.node))
                    popped[t.slice.value] = (n, guarded)
    ctx.require(len(popped) >= 2, f"{canon.qualname}: pops on the metadata dict not found")
    # the rest is handed back as metadata
    handed = any(isinstance(k, ast.keyword) and k.arg == "metadata" and isinstance(k.value, ast.Name)
                 and k.value.id == rvar for n in ast.walk(canon.node) if isinstance(n, ast.Call) for k in n.keywords)
    ctx.require(handed, f"{canon.qualname}: the remaining dict is not passed on as metadata")
    for k in sorted(set(written) | set(popped)):
        if k in written and k in popped:
            ctx.ok("R-METAKEYS", f"metadata key {k!r}", canon.loc(popped[k][0]),
                   "added by the writer, removed by the reader")
        elif k in written:
            ctx.violation("R-METAKEYS", f"metadata key {k!r}", m2d.loc(written[k]),
                          f"the writer adds {k!r} to the metadata but {canon.name} does not remove it: the reloaded "
                          f"object's metadata has an extra entry {k!r}", key_detail="unpopped")
        else:
            call, has_default = popped[k]
            ctx.violation("R-METAKEYS", f"metadata key {k!r}", canon.loc(call),
                          f"{canon.name} removes {k!r} from the metadata but the writer never adds it: "
                          + ("a user entry of that name is lost on reload" if has_default else
                             "KeyError on every file (pop without default)"), key_detail="unwritten")

    # ---------------- R-STOREKEYS
    # store keys are the identifier-like f"<prefix>{counter}" strings (error messages are not identifiers)
    wnames = {p for p in _fstring_prefixes(clist.node) if p.isidentifier()}
    rnames = {p for p in _fstring_prefixes(canon.node) if p.isidentifier()}
    ctx.require(len(wnames) >= 2 and len(rnames) >= 2, "to_zarr/_from_zarr_canonical: f-string store keys not found")
    ctx.check(wnames == rnames, "R-STOREKEYS", "store key prefixes", canon.where,
              f"writer and reader both use {sorted(wnames)}",
              f"writer stores under prefixes {sorted(wnames)}, reader looks under {sorted(rnames)}", key_detail="prefixes")
    probes = [n.left.value for n in ast.walk(fz.node) if isinstance(n, ast.Compare) and len(n.ops) == 1
              and isinstance(n.ops[0], ast.In) and isinstance(n.left, ast.Constant) and isinstance(n.left.value, str)]
    ctx.require(len(probes) >= 1, f"{fz.qualname}: format probe not found")
    ctx.check(any(p == w + "0" for p in probes for w in wnames), "R-STOREKEYS", f"{fz.qualname}:format-probe", fz.where,
              f"probe {probes} matches the first key the writer stores",
              f"from_zarr probes {probes}, the writer's first metadata key is {sorted(w + '0' for w in wnames)}",
              key_detail="probe")
    # axis keys
    ctx.require("axes" in written, f"{m2d.qualname}: the axes entry is not written")
    axis_pre = sorted({p for n in ast.walk(written["axes"]) if isinstance(n, ast.DictComp)
                       for p in _fstring_prefixes(n.key)})
    ctx.require(len(axis_pre) == 1, f"{m2d.qualname}: per-axis key pattern not found")
    ap = axis_pre[0]
    def _int_const(e):
        if isinstance(e, ast.UnaryOp) and isinstance(e.op, ast.USub) and isinstance(e.operand, ast.Constant):
            return -e.operand.value
        return e.value if isinstance(e, ast.Constant) and isinstance(e.value, int) else None

    splits = [(n, n.value.args[0].value, _int_const(n.slice)) for n in ast.walk(canon.node)
              if isinstance(n, ast.Subscript) and isinstance(n.value, ast.Call) and last_attr(n.value) == "split"
              and n.value.args and isinstance(n.value.args[0], ast.Constant) and _int_const(n.slice) is not None]
    ctx.require(len(splits) == 1, f"{canon.qualname}: axis ordering key not recognised")
    _, sep, pos = splits[0]
    parts = (ap + "7").split(sep)
    ok = -len(parts) <= pos < len(parts) and parts[pos] == "7"
    ctx.check(ok, "R-STOREKEYS", "axis key pattern", canon.loc(splits[0][0]),
              f"f\"{ap}{{i}}\".split({sep!r})[{pos}] is the axis index",
              f"axis keys are written as f\"{ap}{{i}}\" but ordered by int(key.split({sep!r})[{pos}]), which is not the "
              "index", key_detail="axiskey")
    # the axes sub-dict is written with axis_to_dict and read with axis_from_dict
    w_ax = any(isinstance(n, ast.Call) and dotted(n.func) == "axis_to_dict" for n in ast.walk(written["axes"])) \
        if "axes" in written else False
    r_ax = any(isinstance(n, ast.Call) and dotted(n.func) == "axis_from_dict" for n in ast.walk(canon.node))
    ctx.check(w_ax and r_ax, "R-STOREKEYS", "axes entries", canon.where,
              "axes written with axis_to_dict, read with axis_from_dict",
              "axes are not written with axis_to_dict / read with axis_from_dict", key_detail="axes-codec")

    # ---------------- R-KWARGS
    n_pairs = 0
    for c in repo.all_classes():
        p, u = c.own_method("_pack_kwargs"), c.own_method("_unpack_kwargs")
        if p is None and u is None:
            continue
        if p is None or u is None:
            ctx.violation("R-KWARGS", c.qualname, c.where,
                          f"{c.name} overrides only {'_pack_kwargs' if p else '_unpack_kwargs'}: the conversion has no "
                          "counterpart", key_detail="unpaired")
            continue
        n_pairs += 1
        (pk, pdrop), (uk, udrop) = _converted_keys(p), _converted_keys(u)
        ctx.check(pk == uk, "R-KWARGS", f"{c.qualname}:keys", p.where,
                  f"pack and unpack both convert {sorted(pk)}"
                  + (f"; unpack ignores {sorted(udrop)}" if udrop else ""),
                  f"_pack_kwargs converts {sorted(pk)} but _unpack_kwargs converts {sorted(uk)}",
                  key_detail="keys")
        ctx.check(not (pdrop or (udrop & pk)), "R-KWARGS", f"{c.qualname}:dropped", p.where,
                  "no packed keyword is dropped",
                  f"keywords dropped: pack {sorted(pdrop)}, unpack {sorted(udrop & pk)}", key_detail="dropped")
    ctx.require(n_pairs >= 2, f"only {n_pairs} _pack_kwargs/_unpack_kwargs pairs found")
    bp, bu = repo.method(ARR, "ArrayObject", "_pack_kwargs"), repo.method(ARR, "ArrayObject", "_unpack_kwargs")
    ctx.check(_key_codec(bp, "ensemble_axes_metadata") == "axis_to_dict" and
              _key_codec(bu, "ensemble_axes_metadata") == "axis_from_dict", "R-KWARGS",
              f"{bp.qualname}:ensemble_axes_metadata codec", bp.where,
              "ensemble axes: axis_to_dict when packed, axis_from_dict when unpacked",
              f"ensemble axes are packed with {_key_codec(bp, 'ensemble_axes_metadata')} and unpacked with "
              f"{_key_codec(bu, 'ensemble_axes_metadata')}", key_detail="codec")

    # ---------------- R-SCALARARM
    SUBTYPES = {"int": ["bool"], "float": [], "numbers.Number": ["bool"], "numbers.Integral": ["bool"],
                "Number": ["bool"], "object": ["bool"]}
    CONVERT_CHANGES = {("bool", "int"), ("bool", "float"), ("bool", "str"), ("bool", "complex")}
    taken: set[str] = set()
    n_arm = 0
    for ts, test, body in earms:
        if ts is None:
            continue
        rets = [r for st in body for r in ast.walk(st) if isinstance(r, ast.Return) and r.value is not None]
        conv = None
        if len(rets) == 1 and isinstance(rets[0].value, ast.Call) and isinstance(rets[0].value.func, ast.Name) and \
                len(rets[0].value.args) == 1 and dotted(rets[0].value.args[0]) == eobj:
            conv = rets[0].value.func.id
        n_arm += 1
        lost = []
        for t in ts:
            for sub in SUBTYPES.get(t, []):
                if sub not in taken and sub not in ts and conv is not None and (sub, conv) in CONVERT_CHANGES:
                    lost.append((sub, t, conv))
        ctx.check(not lost, "R-SCALARARM", f"{clist.qualname}.encode_types:arm {'|'.join(ts)}", clist.loc(test),
                  f"arm for {ts} {'converts with ' + conv + '()' if conv else 'recurses / tags'}; no JSON-native subtype "
                  "is re-typed",
                  "; ".join(f"a Python {sub} is an instance of {t} and reaches `return {c}(obj)` before any arm for {sub}: "
                            f"True/False are written as {c}(True)/{c}(False) and do not come back as bool"
                            for sub, t, c in lost), key_detail="scalar-arm")
        taken |= set(ts)
    ctx.require(n_arm >= 5, f"R-SCALARARM examined only {n_arm} arms of encode_types")

    # ---------------- R-REGISTRY / R-TYPEKEY (shared with C35)
    reader = reg.analyse_reader(repo, repo.function(reg.AXES_MOD, "axis_from_dict"))
    n = reg.check_registry(ctx, [reader])
    ctx.require(n >= 10, f"R-REGISTRY examined only {n} classes")
    reg.check_type_key(ctx, [repo.function(reg.AXES_MOD, "axis_to_dict")], [reader])
    dataclass_rules(ctx, repo, writers=[repo.function(reg.AXES_MOD, "axis_to_dict")])

    # ---------------- R-TYPE-REGISTRY
    ctx.require("type" in written and isinstance(written["type"], ast.Attribute)
                and written["type"].attr == "__name__", f"{m2d.qualname}: the class name is not stored")
    # how the reader resolves the popped type name
    name_vars = {st.targets[0].id for st in walk_no_nested(canon.node)
                 if isinstance(st, ast.Assign) and isinstance(st.targets[0], ast.Name)
                 and isinstance(st.value, ast.Call) and popped.get("type", (None,))[0] is st.value}
    ctx.require(len(name_vars) == 1, f"{canon.qualname}: the popped type name is not bound to a variable")
    nv = next(iter(name_vars))
    lookups = [n for n in walk_no_nested(canon.node) if isinstance(n, ast.Call) and dotted(n.func) == "getattr"
               and len(n.args) == 2 and isinstance(n.args[1], ast.Name) and n.args[1].id == nv]
    ctx.require(len(lookups) == 1, f"{canon.qualname}: cannot interpret how the class is resolved from its name")
    modname = dotted(lookups[0].args[0])
    local_imports = {a.asname or a.name.split(".")[0]: a.name for st in ast.walk(canon.node) if isinstance(st, ast.Import)
                     for a in st.names}
    target = local_imports.get(modname) or canon.module.imports.get(modname)
    ctx.require(target in repo.modules, f"{canon.qualname}: `{modname}` is not a package module")
    ns: ModuleInfo = repo.modules[target]
    base = repo.cls(ARR, "ArrayObject")
    n_cls = 0
    for c in sorted(repo.subclasses(base, strict=False), key=lambda k: k.qualname):
        if c.is_abstract():
            ctx.info("R-TYPE-REGISTRY", c.qualname, c.where, "abstract: no instance can be written")
            continue
        n_cls += 1
        got = repo.resolve_name(ns, c.name) if (c.name in ns.imports or c.name in ns.classes) else None
        if got is c:
            ctx.ok("R-TYPE-REGISTRY", c.qualname, c.where, f"getattr({target}, {c.name!r}) is the class")
        else:
            ctx.violation("R-TYPE-REGISTRY", c.qualname, c.where,
                          f"{c.name}.to_zarr writes type={c.name!r}, but {canon.name} resolves it with "
                          f"getattr({target}, {c.name!r}) and {target} has no such attribute"
                          + (f" (it resolves to {getattr(got, 'qualname', got)})" if got is not None else "")
                          + ": the file cannot be read back (AttributeError)", key_detail=canon.name)
    ctx.require(n_cls >= 8, f"only {n_cls} concrete ArrayObject classes found")


def _converted_keys(f: FuncInfo) -> tuple[set[str], set[str]]:
    """(keyword names a pack/unpack method converts, names it drops): `kwargs["k"] = <conversion>` stores and
    `key == "k"` arms; an arm whose body is `pass` drops the key."""
    conv: set[str] = set()
    drop: set[str] = set()
    for n in walk_no_nested(f.node):
        if isinstance(n, ast.Assign):
            for t in n.targets:
                if isinstance(t, ast.Subscript) and isinstance(t.slice, ast.Constant) and isinstance(t.slice.value, str):
                    # `kwargs["ensemble_axes_metadata"] = []` initialisation is not a conversion
                    if not (isinstance(n.value, (ast.List, ast.Tuple, ast.Dict)) and not getattr(n.value, "elts", None)
                            and not getattr(n.value, "keys", None)):
                        conv.add(t.slice.value)
        if isinstance(n, ast.If) and isinstance(n.test, ast.Compare) and len(n.test.ops) == 1 and \
                isinstance(n.test.ops[0], ast.Eq):
            for x in (n.test.left, n.test.comparators[0]):
                if isinstance(x, ast.Constant) and isinstance(x.value, str):
                    (drop if all(isinstance(b, ast.Pass) for b in n.body) else conv).add(x.value)
    return conv, drop - conv


def _key_codec(f: FuncInfo, key: str) -> Optional[str]:
    """Function applied to the items of kwargs[key] in a pack/unpack method."""
    for n in walk_no_nested(f.node):
        if isinstance(n, ast.If) and any(isinstance(x, ast.Constant) and x.value == key for x in ast.walk(n.test)):
            for c in ast.walk(ast.Module(body=n.body, type_ignores=[])):
                if isinstance(c, ast.Call) and isinstance(c.func, ast.Name) and c.func.id.startswith("axis_"):
                    return c.func.id
    for n in walk_no_nested(f.node):
        if isinstance(n, ast.Assign) and any(isinstance(t, ast.Subscript) and isinstance(t.slice, ast.Constant)
                                             and t.slice.value == key for t in n.targets):
            for c in ast.walk(n.value):
                if isinstance(c, ast.Call) and isinstance(c.func, ast.Name) and c.func.id.startswith("axis_"):
                    return c.func.id
    return None


# ======================================================================================================================
# Mutation-sweep round: every array object of the list is written (array k with metadata k) and read back.
# ======================================================================================================================
from ..cfg import DataFlow  # noqa: E402
from ..model import bind_args, kw  # noqa: E402
from ..rules import listacct as la  # noqa: E402

_SIMPLE = (ast.Assign, ast.AugAssign, ast.AnnAssign, ast.Expr, ast.Return, ast.Delete, ast.Pass, ast.Assert)


def _simple_stmts(node):
    return [s for s in ast.walk(node) if isinstance(s, _SIMPLE)]


def _path_deps(expr: ast.AST, executed) -> set[str]:
    """Names `expr` depends on through the assignments / item stores / mutator calls executed on the same path."""
    seen: set[str] = set()
    work = [n.id for n in ast.walk(expr) if isinstance(n, ast.Name)]
    while work:
        v = work.pop()
        if v in seen:
            continue
        seen.add(v)
        for st in executed:
            if isinstance(st, ast.Assign):
                for t in st.targets:
                    base = t
                    while isinstance(base, (ast.Subscript, ast.Attribute)):
                        base = base.value
                    if isinstance(base, ast.Name) and base.id == v:
                        work += [n.id for n in ast.walk(st.value) if isinstance(n, ast.Name)]
                    elif isinstance(t, (ast.Tuple, ast.List)) and any(isinstance(e, ast.Name) and e.id == v for e in t.elts):
                        work += [n.id for n in ast.walk(st.value) if isinstance(n, ast.Name)]
    return seen


def _fprefix(e: ast.AST) -> Optional[tuple[str, ast.AST]]:
    """f"<identifier>{expr}" -> (prefix, expr)."""
    if isinstance(e, ast.JoinedStr) and len(e.values) == 2 and isinstance(e.values[0], ast.Constant) and \
            isinstance(e.values[1], ast.FormattedValue) and str(e.values[0].value).isidentifier():
        return e.values[0].value, e.values[1].value
    return None


def _tuple_roles(elt: ast.AST, env: dict[str, str]) -> list[str]:
    """Role of every position of a tuple display: 'idx' (exactly the counter), 'arr' (derives from the array and not
    from the counter), '?' otherwise."""
    if not isinstance(elt, ast.Tuple):
        raise AnalysisError(f"`{norm_text(elt)[:50]}`: expected a tuple (number, array)")
    out = []
    for e in elt.elts:
        names = {n.id for n in ast.walk(e) if isinstance(n, ast.Name)}
        r = {env[n] for n in names if n in env}
        if isinstance(e, ast.Name) and env.get(e.id) == "idx":
            out.append("idx")
        elif r == {"arr"}:
            out.append("arr")
        else:
            out.append("?")
    return out


def _write_all(ctx, repo) -> None:
    R = "R-WRITEALL"
    clist = repo.method(ARR, "ComputableList", "to_zarr")
    K = clist.qualname
    df = DataFlow(clist.node)
    top = list(clist.node.body)
    loops = []
    for l in top:
        if isinstance(l, ast.For):
            try:
                r = la.pairing(l.target, l.iter)
            except AnalysisError:
                continue
            idx = [v for v, x in r.items() if x[0] == "index" and dotted(x[1]) == "self" and (
                x[2] is None or (isinstance(x[2], ast.Constant) and x[2].value == 0))]
            el = [v for v, x in r.items() if x[0] == "elem" and dotted(la.strip_seq(x[1])) == "self"]
            if len(idx) == 1 and len(el) == 1:
                loops.append((l, idx[0], el[0]))
    ctx.require(len(loops) == 1, f"{K}: the loop `for i, obj in enumerate(self)` was not found")
    loop, ivar, evar = loops[0]
    before = top[:top.index(loop)]
    # a list that lost its append is still a list that is handed to the writer: take every empty list of the prologue
    # that reaches a call of a nested writer
    nested = {n.name: n for n in ast.walk(clist.node) if isinstance(n, ast.FunctionDef) and n is not clist.node}
    calls = [c for c in walk_no_nested(clist.node) if isinstance(c, ast.Call) and isinstance(c.func, ast.Name)
             and c.func.id in nested]
    empties = sorted({t.id for b in before for s in _simple_stmts(b) if isinstance(s, ast.Assign)
                      and isinstance(s.value, ast.List) and not s.value.elts for t in s.targets if isinstance(t, ast.Name)})
    tracked = []
    for v in empties:
        for c in calls:
            node = df.cfg.node_of(_enclosing_simple(clist.node, c)).idx
            if any(v in df.backward_slice(node, a).visited for a in list(c.args) + [k.value for k in c.keywords]):
                tracked.append(v)
                break
    ctx.require(len(tracked) == 2, f"{K}: expected two lists (arrays, metadata) handed to the writer, found {tracked}")

    def relevant(s):
        return isinstance(s, _SIMPLE) and any(la.growth(s, v) for v in tracked)

    per_list: dict[str, list] = {v: [] for v in tracked}
    elts: dict[str, list] = {v: [] for v in tracked}
    for conds, ex, end in la.body_paths(loop.body, relevant):
        if end == "raise":
            continue
        ctx.require(end in (None, "continue"), f"{K}: a pass over the array objects can leave the loop early")
        for v in tracked:
            n, es = la.count_added([s for s in ex if isinstance(s, _SIMPLE)], v)
            per_list[v].append(n)
            elts[v] += [(e, ex) for e in es]
    kind: dict[str, str] = {}
    for v in tracked:
        forms = set()
        for e, ex in elts[v]:
            if isinstance(e, ast.Dict) and len(e.keys) == 1 and e.keys[0] is not None and _fprefix(e.keys[0]):
                forms.add("meta")
            elif isinstance(e, ast.Tuple):
                forms.add("arr")
            else:
                raise AnalysisError(f"{K}: `{norm_text(e)[:50]}` appended to `{v}` is neither (number, array) nor "
                                    "{f\"<prefix>{number}\": metadata}")
        kind[v] = forms.pop() if len(forms) == 1 else "?"
    unknown = [v for v in tracked if kind[v] == "?"]
    if len(unknown) == 1 and len(tracked) == 2:
        kind[unknown[0]] = ({"arr", "meta"} - {kind[v] for v in tracked if v not in unknown}).pop()
    ctx.require(sorted(kind.values()) == ["arr", "meta"], f"{K}: cannot tell the array list from the metadata list")
    A = next(v for v in tracked if kind[v] == "arr")
    M = next(v for v in tracked if kind[v] == "meta")
    for v, what in ((A, "array"), (M, "metadata")):
        bad = [n for n in per_list[v] if n != 1]
        ctx.check(not bad, R, f"{K}:one {what} entry per object", clist.loc(loop),
                  f"every pass over the array objects queues exactly one {what} entry",
                  f"a pass over the array objects queues {bad[0] if bad else 1} {what} entries: "
                  + ("an object's array is never written (its metadata is), so the file cannot be read back" if what == "array"
                     else "an object's metadata is never written, so its array is not found on reading"),
                  key_detail=f"count-{what}")
    # numbering: both entries of one pass carry the enumerate counter
    prob = []
    a_roles = None
    for e, ex in elts[A]:
        env = {ivar: "idx"}
        env.update({n: "arr" for n in _path_deps(e, ex) if evar in _path_deps(ast.Name(id=n, ctx=ast.Load()), ex)
                    and n != ivar})
        roles = _tuple_roles(e, env)
        if sorted(roles) != ["arr", "idx"]:
            prob.append(f"`{norm_text(e)}` is not (number of the object, its array)")
        a_roles = roles
    for e, ex in elts[M]:
        pre, num = _fprefix(e.keys[0])
        if not (isinstance(num, ast.Name) and num.id == ivar):
            prob.append(f"the metadata key `{norm_text(e.keys[0])}` is not numbered by the position of the object")
        if evar not in _path_deps(e.values[0], ex):
            prob.append("the metadata entry does not derive from the object of this pass")
    ctx.check(not prob, R, f"{K}:numbering", clist.loc(loop),
              "array and metadata of one object are queued under the same number (its position in the list)",
              "; ".join(prob), key_detail="numbering")

    # ---- the writers: the queued lists reach the parameter that is stored
    m_file = clist.module
    n_writers = 0
    for c in calls:
        st = _enclosing_simple(clist.node, c)
        node = df.cfg.node_of(st).idx
        fn = FuncInfo(m_file, nested[c.func.id], None)
        b = bind_args(c, fn)
        srcs = {}
        for p, a in b.items():
            vis = df.backward_slice(node, a)
            srcs[p] = ("arr" if A in vis.visited else "meta" if M in vis.visited else
                       "url" if "url" in vis.params and not (vis.visited & {A, M}) else "other")
        if "arr" not in srcs.values() and "meta" not in srcs.values():
            continue  # encode_types(...) and other helpers
        n_writers += 1
        W = f"{K}.{fn.name}"
        pa = [p for p, s_ in srcs.items() if s_ == "arr"]
        pm = [p for p, s_ in srcs.items() if s_ == "meta"]
        ctx.require(len(pa) == 1 and len(pm) == 1, f"{W}: the queued lists are not passed as two separate arguments")
        # positions (number, array) inside the argument
        arg = b[pa[0]]
        roles = a_roles
        if not (isinstance(arg, ast.Name) and arg.id == A):
            d = df.single_def(node, arg.id) if isinstance(arg, ast.Name) else None
            comp = d.value if d is not None else arg
            ctx.require(isinstance(comp, ast.ListComp) and len(comp.generators) == 1 and not comp.generators[0].ifs
                        and dotted(la.strip_seq(comp.generators[0].iter)) == A,
                        f"{W}: the array argument is not the queued list or a one-to-one comprehension over it")
            tgt = comp.generators[0].target
            ctx.require(isinstance(tgt, ast.Tuple) and a_roles is not None and len(tgt.elts) == len(a_roles)
                        and all(isinstance(e, ast.Name) for e in tgt.elts), f"{W}: comprehension target")
            env = {e.id: r for e, r in zip(tgt.elts, a_roles)}
            roles = _tuple_roles(comp.elt, env)
        probs = []
        if roles is None or sorted(roles) != ["arr", "idx"]:
            probs.append(f"the argument `{norm_text(arg)[:40]}` no longer pairs each array with its number")
        stores_ok = False
        wnode = nested[c.func.id]
        for l in (x for x in ast.walk(wnode) if isinstance(x, ast.For)):
            if dotted(la.strip_seq(l.iter)) != pa[0]:
                continue
            r = la.pairing(l.target, l.iter)
            byk = {x[2]: v for v, x in r.items() if x[0] == "field"}
            if roles is None or len(byk) != len(roles):
                probs.append(f"`for {norm_text(l.target)} in {pa[0]}` does not unpack (number, array)")
                continue
            nvar, dvar = byk[roles.index("idx")] if "idx" in roles else None, byk[roles.index("arr")] if "arr" in roles else None
            for conds, ex, end in la.body_paths(l.body, lambda s: isinstance(s, ast.Expr) and "create_array" in norm_text(s)):
                if end == "raise":
                    continue
                cr = [x for s in ex for x in ast.walk(s) if isinstance(x, ast.Call) and isinstance(x.func, ast.Attribute)
                      and x.func.attr in ("create_array", "create_dataset", "array")]
                if len(cr) != 1:
                    probs.append(f"a pass over `{pa[0]}` creates {len(cr)} zarr arrays: the data of the array objects is "
                                 "not stored (reading back fails on the missing array)")
                    continue
                nm, dt = kw(cr[0], "name"), kw(cr[0], "data")
                fp = _fprefix(nm) if nm is not None else None
                if fp is None or not (isinstance(fp[1], ast.Name) and fp[1].id == nvar):
                    probs.append(f"the zarr array is named `{norm_text(nm) if nm is not None else '?'}`, not by the number "
                                 "queued with the array")
                if not (isinstance(dt, ast.Name) and dt.id == dvar):
                    probs.append(f"the zarr array stores `{norm_text(dt) if dt is not None else '?'}`, not the queued array")
                stores_ok = True
        if not stores_ok and not probs:
            probs.append(f"the parameter `{pa[0]}` that receives the queued arrays is never walked over to create the zarr "
                         "arrays (arguments in the wrong order, or the creation was dropped)")
        # metadata entries: root.attrs[key] = value for key, value in <entry>.items()
        meta_ok = False
        for l in (x for x in ast.walk(wnode) if isinstance(x, ast.For)):
            if dotted(la.strip_seq(l.iter)) != pm[0] or not isinstance(l.target, ast.Name):
                continue
            for l2 in (x for x in ast.walk(l) if isinstance(x, ast.For) and x is not l):
                it2 = l2.iter
                if isinstance(it2, ast.Call) and isinstance(it2.func, ast.Attribute) and it2.func.attr == "items" and \
                        dotted(it2.func.value) == l.target.id and isinstance(l2.target, ast.Tuple) and len(l2.target.elts) == 2 \
                        and all(isinstance(e, ast.Name) for e in l2.target.elts):
                    kvar, vvar = l2.target.elts[0].id, l2.target.elts[1].id
                    for s in l2.body:
                        if isinstance(s, ast.Assign) and len(s.targets) == 1 and isinstance(s.targets[0], ast.Subscript) \
                                and (dotted(s.targets[0].value) or "").endswith(".attrs"):
                            if dotted(s.targets[0].slice) == kvar and dotted(s.value) == vvar:
                                meta_ok = True
                            else:
                                probs.append(f"`{norm_text(s)}` does not store each metadata entry under its own key")
        if not meta_ok and not any("metadata entry" in p for p in probs):
            probs.append(f"the parameter `{pm[0]}` that receives the queued metadata is never written to the attributes of "
                         "the zarr group")
        pu = [p for p, s_ in srcs.items() if s_ == "url"]
        opens = [x for x in ast.walk(wnode) if isinstance(x, ast.Call) and (dotted(x.func) or "").split(".")[-1] in (
            "ZipStore", "open", "open_group", "LocalStore", "DirectoryStore") and (dotted(x.func) or "").startswith("zarr")]
        if opens and not any(x.args and isinstance(x.args[0], ast.Name) and x.args[0].id in pu for x in opens):
            probs.append("the store is not opened at the parameter that receives the url")
        ctx.check(not probs, R, f"{W}:stores what was queued", clist.loc(c),
                  f"`{pa[0]}` is walked as (number, array) -> create_array(name=f\"<prefix>{{number}}\", data=array); "
                  f"`{pm[0]}` -> group.attrs[key] = value; store opened at the url",
                  "; ".join(probs), key_detail="writer")
    ctx.require(n_writers >= 2, f"{K}: fewer than two writer calls (zip store, directory) found")


def _enclosing_simple(func: ast.AST, node: ast.AST) -> ast.stmt:
    best = None
    for st in ast.walk(func):
        if isinstance(st, _SIMPLE) and any(n is node for n in ast.walk(st)):
            best = st
    if best is None:
        raise AnalysisError("statement of a call not found")
    return best


def _read_all(ctx, repo) -> None:
    R = "R-READALL"
    canon = repo.function(ARR, "_from_zarr_canonical")
    K = canon.qualname
    top = list(canon.node.body)
    loops = [l for l in top if isinstance(l, (ast.While, ast.For))]
    ctx.require(len(loops) == 1 and isinstance(loops[0], ast.While), f"{K}: expected one `while` loop over the stored objects")
    loop = loops[0]
    before, after = top[:top.index(loop)], top[top.index(loop) + 1:]
    empties = [t.id for b in before for s in _simple_stmts(b) if isinstance(s, ast.Assign) and isinstance(s.value, ast.List)
               and not s.value.elts for t in s.targets if isinstance(t, ast.Name)]
    ret_names = {n.id for a in after for r in ast.walk(a) if isinstance(r, ast.Return) and r.value is not None
                 for n in ast.walk(r.value) if isinstance(n, ast.Name)}
    Ls = [v for v in empties if v in ret_names]
    ctx.require(len(Ls) == 1, f"{K}: the returned list was not found")
    L = Ls[0]
    # the counter: the variable all store keys f"<prefix>{i}" of the loop are numbered with
    keys = [(_fprefix(n), n) for n in ast.walk(loop) if isinstance(n, ast.JoinedStr) and _fprefix(n)]
    cvars = {norm_text(k[1]) for k, _ in keys}
    ctx.require(len(keys) >= 2 and len(cvars) == 1 and all(isinstance(k[1], ast.Name) for k, _ in keys),
                f"{K}: the store keys of one pass are not numbered with one counter ({sorted(cvars)})")
    C = cvars.pop()
    cinit = [s for b in before for s in _simple_stmts(b) if isinstance(s, ast.Assign) and any(
        isinstance(t, ast.Name) and t.id == C for t in s.targets)]
    ctx.require(len(cinit) == 1 and isinstance(cinit[0].value, ast.Constant) and cinit[0].value.value == 0,
                f"{K}: the counter does not start at 0")
    prefixes = {k[0] for k, _ in keys}

    def relevant(s):
        return isinstance(s, _SIMPLE) and (bool(la.growth(s, L)) or la.step(s, C) is not None)

    grow_bad, step_bad, order_bad, src_bad = [], [], [], []
    n_pass = 0
    for conds, ex, end in la.body_paths(loop.body, relevant):
        if end in ("raise", "break"):
            continue
        ctx.require(end in (None, "continue"), f"{K}: a pass can return from inside the loop")
        n_pass += 1
        simple = [s for s in ex if isinstance(s, _SIMPLE)]
        n, es = la.count_added(simple, L)
        if n != 1:
            grow_bad.append(n)
        stp = la.count_steps(simple, C)
        if stp != 1:
            step_bad.append(stp)
        # no key is built between two... the counter moves only before the first or after the last key of the pass
        uses = [k for k, s in enumerate(ex) if any(isinstance(x, ast.JoinedStr) and _fprefix(x) for x in ast.walk(s))]
        steps = [k for k, s in enumerate(ex) if isinstance(s, _SIMPLE) and la.step(s, C) is not None]
        if uses and any(min(uses) <= k < max(uses) for k in steps):
            order_bad.append(True)
        # the object is built from the entries read under every prefix
        got = {}
        for s in ex:
            if isinstance(s, ast.Assign) and len(s.targets) == 1 and isinstance(s.targets[0], ast.Name):
                for x in ast.walk(s.value):
                    if isinstance(x, ast.Subscript):
                        sl = x.slice
                        if isinstance(sl, ast.Name):
                            asg = [y for y in ex if isinstance(y, ast.Assign) and len(y.targets) == 1 and
                                   isinstance(y.targets[0], ast.Name) and y.targets[0].id == sl.id]
                            sl = asg[-1].value if asg else sl
                        fp = _fprefix(sl)
                        if fp:
                            got[fp[0]] = s.targets[0].id
        for e in es:
            deps = _path_deps(e, ex)
            missing = [p for p in sorted(prefixes) if got.get(p) not in deps]
            if missing:
                src_bad.append(missing)
    ctx.require(n_pass >= 1, f"{K}: no completed pass through the loop found")
    ctx.check(not grow_bad, R, f"{K}:one object per stored entry", canon.loc(loop),
              "every pass that finds a metadata entry appends exactly one rebuilt object (on the normal and the fallback path)",
              f"a pass appends {grow_bad[0] if grow_bad else 1} objects to the result: stored objects are lost on reading",
              key_detail="append")
    ctx.check(not step_bad and not order_bad, R, f"{K}:counter", canon.loc(loop),
              "the counter advances by one per pass, and not between reading the metadata and the array of one object",
              (f"the counter advances by {step_bad[0]} per pass" if step_bad else
               "the counter advances between building the metadata key and the array key: metadata k is combined with "
               "array k+1"), key_detail="counter")
    ctx.check(not src_bad, R, f"{K}:object sources", canon.loc(loop),
              f"the appended object derives from the entries read under {sorted(prefixes)} of the same number",
              f"the appended object does not depend on what was read under {src_bad[0] if src_bad else ''}",
              key_detail="sources")

    # ---- from_zarr hands the opened group to the reader parameter whose attributes are read
    fz = repo.function(ARR, "from_zarr")
    dfz = DataFlow(fz.node)
    url = fz.positional_params[0]
    mfuncs = repo.module(ARR).functions
    n_disp = 0
    for c in walk_no_nested(fz.node):
        if isinstance(c, ast.Call) and isinstance(c.func, ast.Name) and c.func.id in mfuncs and c.func.id != fz.name:
            callee = mfuncs[c.func.id]
            roots = {n.value.id for n in ast.walk(callee.node) if isinstance(n, ast.Attribute) and n.attr == "attrs"
                     and isinstance(n.value, ast.Name) and n.value.id in callee.positional_params}
            if len(roots) != 1:
                continue
            n_disp += 1
            b = bind_args(c, callee)
            node = dfz.cfg.node_of(_enclosing_simple(fz.node, c)).idx
            root = next(iter(roots))
            ok = root in b and url in dfz.backward_slice(node, b[root]).params and all(
                url not in dfz.backward_slice(node, a).params for p_, a in b.items() if p_ != root)
            ctx.check(ok, R, f"{fz.qualname}:{callee.name} operands", fz.loc(c),
                      f"the group opened at `{url}` is passed as `{root}`",
                      f"`{norm_text(c)}` does not pass the group opened at `{url}` as `{root}` (the parameter whose "
                      "attributes and arrays are read)", key_detail="operands")
    ctx.require(n_disp >= 1, f"{fz.qualname}: no call of a reader found")

    # ---- result: the list, or its only member
    def pred_single(test):
        t, pos = la.strip_not(test)
        if isinstance(t, ast.Compare) and len(t.ops) == 1:
            sides = [t.left, t.comparators[0]]
            is_len = any(isinstance(x, ast.Call) and dotted(x.func) == "len" and len(x.args) == 1
                         and dotted(x.args[0]) == L for x in sides)
            is_one = any(isinstance(x, ast.Constant) and x.value == 1 and not isinstance(x.value, bool) for x in sides)
            if is_len and is_one:
                if isinstance(t.ops[0], ast.Eq):
                    return pos
                if isinstance(t.ops[0], ast.NotEq):
                    return not pos
                raise AnalysisError(f"{K}: `{norm_text(test)}` is not an (in)equality test of the number of objects")
        return None

    rets = []
    for conds, ex, end in la.body_paths(after, lambda s: False):
        if end != "return":
            continue
        v = ex[-1].value
        work = [(conds, v)]
        while work:
            c_, e_ = work.pop()
            if isinstance(e_, ast.IfExp):
                work.append((c_ + ((e_.test, True),), e_.body))
                work.append((c_ + ((e_.test, False),), e_.orelse))
            else:
                rets.append((c_, e_))
    ctx.require(rets, f"{K}: no return after the loop")
    probs = []
    for c_, e_ in rets:
        pol = la.polarity(c_, pred_single)
        if pol == "infeasible":
            continue
        if isinstance(e_, ast.Name) and e_.id == L:
            if pol is True:
                probs.append("a file with one object is returned as a list (to_zarr of a single object does not come back "
                             "as that object)")
        elif isinstance(e_, ast.Subscript) and dotted(e_.value) == L and la._int_const(e_.slice) is not None:
            ctx.require(pol is not None or not c_, f"{K}: condition of `return {norm_text(e_)}` not understood")
            if pol is not True:
                probs.append(f"`{norm_text(e_)}` is returned although the file holds "
                             + ("any number of objects" if pol is None else "a number of objects different from one")
                             + ": the other objects are dropped (or an empty result raises)")
            if la._int_const(e_.slice) not in (0, -1):
                probs.append(f"`{norm_text(e_)}` is not the only member of a one-element list (IndexError)")
        else:
            raise AnalysisError(f"{K}: `return {norm_text(e_)[:50]}` not understood")
    ctx.check(not probs, R, f"{K}:result", canon.loc(after[-1]) if after else canon.where,
              "returns the only object when exactly one was stored, else the whole list",
              "; ".join(probs), key_detail="result")


_inner_run_c30_sweep = run


def run(ctx) -> None:  # noqa: F811
    ctx.rule("R-WRITEALL", "to_zarr stores every array object: each pass of `for i, obj in enumerate(self)` queues exactly "
             "one (i, array) and one {f\"metadata{i}\": ...} entry on every control path, both numbered by the position "
             "of the object; the queued lists reach (through bind-by-name of the call) the writer parameters that are "
             "walked as (number, array) -> create_array(name=f\"array{number}\", data=array) and -> group.attrs[key] = "
             "value, for the zip-store and the directory writer; the store is opened at the url argument")
    ctx.rule("R-READALL", "_from_zarr_canonical rebuilds every stored object: each completed pass of the loop appends "
             "exactly one object (also on the fallback path of the try), the object derives from the entries read "
             "under every store-key prefix with the same counter value, the counter advances by exactly one per pass; "
             "the result is the only member iff exactly one object was stored, else the whole list")
    _write_all(ctx, ctx.repo)
    _read_all(ctx, ctx.repo)
    from ..rules import isinst
    ctx.rule("R-ISINSTANCE", isinst.__doc__.split("—", 1)[1])
    r_ = ctx.repo
    funcs = [r_.method(ARR, "ComputableList", "to_zarr"), r_.function(ARR, "from_zarr"),
             r_.function(ARR, "_from_zarr_canonical"), r_.method(ARR, "ArrayObject", "_metadata_to_dict"),
             r_.method(ARR, "ArrayObject", "_pack_kwargs"), r_.method(ARR, "ArrayObject", "_unpack_kwargs"),
             r_.function(reg.AXES_MOD, "axis_to_dict"), r_.function(reg.AXES_MOD, "axis_from_dict")]
    n_is = isinst.check(ctx, r_, funcs)
    ctx.require(n_is >= 8, f"R-ISINSTANCE examined only {n_is} isinstance tests")
    _inner_run_c30_sweep(ctx)


# ======================================================================================================================
# Seeded-change round 5: the reader counts the stored objects by probing numbered keys, so every writer arm has to start
# from an empty group (sa/rules/storeclear.py).
# ======================================================================================================================
from ..rules import deferred as _deferred  # noqa: E402
from ..rules import storeclear as sc  # noqa: E402


def _store_cleared(ctx, repo) -> None:
    R = "R-STORECLEARED"
    clist = repo.method(ARR, "ComputableList", "to_zarr")
    canon = repo.function(ARR, "_from_zarr_canonical")
    K = clist.qualname
    probe = sc.reader_probe(canon)
    tables = sorted(probe["tables"])
    ctx.require(len({t for t, _ in tables}) == 1, f"{canon.qualname}: the reader probes more than one table: {tables}")
    table = tables[0][0]
    prefixes = sorted(p for _, p in tables)
    what = "attributes" if table == "attrs" else "members"
    ctx.ok(R, f"{canon.qualname}:count by probing", canon.loc(probe["node"]),
           f"the number of stored objects is decided by probing the group {what} for {', '.join(p + '{i}' for p in prefixes)} "
           "until a key is missing")
    imports = dict(clist.module.imports)
    imports.update(sc.local_imports(clist.node))
    nested = [n for n in ast.walk(clist.node) if isinstance(n, ast.FunctionDef) and n is not clist.node
              and sc.has_entry_store(n, table)]
    n_arms = 0
    for fn in nested:
        W = f"{K}.{fn.name}"
        calls = [c for c in ast.walk(clist.node) if isinstance(c, ast.Call) and isinstance(c.func, ast.Name)
                 and c.func.id == fn.name and not any(c is x for x in ast.walk(fn))]
        ctx.require(len(calls) >= 1, f"{W}: the writer is never called")
        bad: dict[tuple, sc.Site] = {}
        unsure: list[sc.Site] = []
        good: set[str] = set()
        n_sites = 0
        for c in calls:
            b = bind_args(c, FuncInfo(clist.module, fn, None))
            bound = {p: a.value for p, a in b.items() if isinstance(a, ast.Constant)}
            for s in sc.writer_verdicts(fn, imports, table, bound):
                n_sites += 1
                if s.verdict is True:
                    good.add(s.why)
                elif s.verdict is False and not s.assumed:
                    bad.setdefault((tuple(sorted(s.valuation.items())), s.why), s)
                else:
                    unsure.append(s)
        ctx.require(n_sites >= 1, f"{W}: no statement that adds an entry to the group {what} was reached")
        n_arms += 1
        if not bad and unsure:
            s = unsure[0]
            raise AnalysisError(f"{W}: cannot decide whether the group is empty when `{norm_text(s.node)[:50]}` runs "
                                f"({s.why or 'undecided'}; undecidable tests: {list(s.assumed)})")
        msgs = []
        for (valuation, why), s in sorted(bad.items(), key=lambda kv: repr(kv[0])):
            cond = ", ".join(f"{k}={v!r}" for k, v in valuation) or "on every call"
            msgs.append(f"[{cond}] {why}")
        ctx.check(not bad, R, f"{W}:group is empty when the entries are written", clist.loc(fn),
                  "on every path and for every value of the truth-tested parameters the group is empty before the "
                  f"numbered entries are added ({'; '.join(sorted(good))})",
                  f"the group {what} still hold the entries of an earlier write when this one adds its own: "
                  + " | ".join(msgs) + f". {canon.name} collects {prefixes[0]}0, {prefixes[0]}1, ... until a key is "
                  "missing, so after writing fewer objects than the location held before, reading returns the new objects "
                  "followed by stale ones (another type, another content)", key_detail="storecleared")
    ctx.require(n_arms >= 2, f"{K}: fewer than two writer arms (zip store, directory) found")


_inner_run_c30_seed5 = run


def run(ctx) -> None:  # noqa: F811
    ctx.rule("R-STORECLEARED", "writer/reader agreement on the NUMBER of stored objects: _from_zarr_canonical decides how "
             "many objects a store holds by probing the numbered keys until one is missing (established from its loop "
             "exits), and to_zarr records no count; therefore every writer arm (zip store, directory) must add its "
             "entries to an EMPTY group on every path and for every value of `overwrite`: the group is opened with a "
             "truncating or refusing mode (\"w\", \"w-\"; ZipStore \"w\"/\"x\"; group(overwrite=True)), or the location "
             "was removed on that path, or the attributes were cleared. The mode / overwrite arguments are evaluated "
             "through the assignments executed on the path; an existing location is assumed. Otherwise entries of an "
             "earlier, longer write survive and come back as objects")
    _deferred.run(ctx, lambda: _store_cleared(ctx, ctx.repo), _inner_run_c30_seed5)
