"""C04 — wave propagation never creates intensity; vacuum propagation is reversible.

Modulus-domain abstract interpretation (sa/rules/modulus.py) of every kernel that is multiplied onto a
wave in Fourier-space multislice, plus the structural clauses the pointwise bound needs.
"""
from __future__ import annotations

import ast
from fractions import Fraction

from ..cfg import DataFlow
from ..model import AnalysisError, FuncInfo, bind_args, call_name, dotted, last_attr, norm_text, walk_no_nested
from ..rules import modulus as M
from ..terms import FlowNormalizer, Normalizer, Poly

MS = "abtem.multislice"
IAM = "abtem.potentials.iam"
AA = "abtem.antialias"
CX = "abtem.core.complex"

REAL_ATTRS = {"_valid_gpts", "_valid_sampling", "_valid_energy", "base_tilt", "tilt", "gpts", "sampling", "energy",
              "slice_thickness", "extent", "thickness", "wavelength", "_valid_extent", "reciprocal_space_sampling",
              "angular_sampling"}
OPAQUE_ATTRS = {"device", "ensemble_axes_metadata", "is_lazy", "accelerator", "grid", "metadata"}


def _call_oracle(ip, call, ftext, args, kwargs):
    if ftext in ("config.get", "abtem.config.get", "abtem.core.config.get"):
        return M.real()  # configuration values (antialias.cutoff / antialias.taper) are real numbers
    return None


def _interp(repo) -> M.Interp:
    return M.Interp(repo, attr_oracle=M.standard_attr_oracle(REAL_ATTRS, OPAQUE_ATTRS), call_oracle=_call_oracle)


def _stmt_node(df: DataFlow, f: FuncInfo, target: ast.AST) -> int:
    """CFG node of the statement that contains expression `target`."""
    for n in df.cfg.nodes:
        if n.ast is None or n.kind in ("entry", "exit", "raise"):
            continue
        roots = [n.ast]
        if isinstance(n.ast, ast.If):
            roots = [n.ast.test]
        elif isinstance(n.ast, ast.For):
            roots = [n.ast.iter, n.ast.target]
        elif isinstance(n.ast, ast.While):
            roots = [n.ast.test]
        elif isinstance(n.ast, ast.With):
            roots = [i.context_expr for i in n.ast.items]
        elif isinstance(n.ast, (ast.FunctionDef, ast.ClassDef, ast.Try, ast.ExceptHandler)):
            continue
        for r in roots:
            for m in ast.walk(r):
                if m is target:
                    return n.idx
    raise AnalysisError(f"{f.qualname}: expression at line {getattr(target, 'lineno', '?')} has no CFG node")


def _trig_hook(nz, call: ast.Call):
    s = last_attr(call)
    if s in ("cos", "sin", "exp") and len(call.args) == 1 and not call.keywords:
        k = nz.norm(call.args[0]).key()
        return Poly.atom(f"{s}({k})")
    return None


# ====================================================================== R-CEXP
def _check_cexp(ctx) -> None:
    repo = ctx.repo
    kern = repo.function(CX, "_complex_exponential")
    x = kern.positional_params[0] if kern.positional_params else None
    ctx.require(x is not None, "_complex_exponential lost its argument")
    rets = [r for r in walk_no_nested(kern.node) if isinstance(r, ast.Return) and r.value is not None]
    ctx.require(len(rets) >= 1, "_complex_exponential has no return value")
    df = DataFlow(kern.node)
    want_trig = Poly.atom(f"cos(1*{x})") + Poly.atom("𝑖") * Poly.atom(f"sin(1*{x})")
    want_exp = Poly.atom(f"exp(1*{x}*𝑖)")
    for r in rets:
        nz = FlowNormalizer(df, df.cfg.node_of(r).idx, call_hook=_trig_hook)
        p = nz.norm(r.value)
        ctx.check(p in (want_trig, want_exp), "R-CEXP", f"{kern.qualname}:return", kern.loc(r),
                  f"kernel normal form {p.key()} is e^(i·{x}) (cos and sin of the same argument)",
                  f"the element kernel returns {p.key()}, not cos({x}) + i·sin({x}); its modulus is not 1 for real {x}",
                  key_detail="kernel")
    ce = repo.function(CX, "complex_exponential")
    xp_ = ce.positional_params[0]
    dfc = DataFlow(ce.node)
    n_arms = 0
    for r in walk_no_nested(ce.node):
        if not isinstance(r, ast.Return) or r.value is None:
            continue
        n_arms += 1
        v = r.value
        ok, what = False, norm_text(v)
        if isinstance(v, ast.Call):
            cn = call_name(v) or ""
            if cn.split(".")[-1] == kern.name and len(v.args) == 1 and dotted(v.args[0]) == xp_:
                ok, what = True, "numba kernel applied to the argument"
            elif cn.split(".")[-1] == "map_blocks" and len(v.args) == 2 and dotted(v.args[0]) == ce.name and \
                    dotted(v.args[1]) == xp_:
                ok, what = True, "blockwise recursion on the dask array"
            elif cn.split(".")[-1] == "exp" and len(v.args) == 1:
                nz = FlowNormalizer(dfc, dfc.cfg.node_of(r).idx)
                p = nz.norm(v.args[0])
                ok = p == Poly.atom("𝑖") * Poly.atom(xp_)
                what = f"exp of {p.key()}"
        ctx.check(ok, "R-CEXP", f"{ce.qualname}:arm `{norm_text(v)[:40]}`", ce.loc(r), f"backend arm is e^(i·x): {what}",
                  f"backend arm returns {norm_text(v)}, which is not e^(i·{xp_}) like the numba kernel — backends disagree "
                  "and the unit modulus is lost", key_detail="arm")
    ctx.require(n_arms >= 2, "complex_exponential: backend arms not found")


# ====================================================================== R-ODD-PHASE
def _phase_args(f: FuncInfo):
    """Calls that build e^(i·phase): complex_exponential(phase) and exp(<expression containing 1j>)."""
    out = []
    for c in walk_no_nested(f.node):
        if isinstance(c, ast.Call) and len(c.args) == 1 and not c.keywords:
            if last_attr(c) == "complex_exponential":
                out.append((c, False))
            elif last_attr(c) == "exp" and any(isinstance(m, ast.Constant) and isinstance(m.value, complex)
                                               for m in ast.walk(c.args[0])):
                out.append((c, True))
    return out


def _check_odd(ctx, f: FuncInfo, var: str) -> int:
    df = DataFlow(f.node)
    calls = _phase_args(f)
    ctx.require(len(calls) >= 1, f"{f.qualname}: no e^(i·phase) factor found")
    for i, (c, is_exp) in enumerate(calls):
        nz = FlowNormalizer(df, _stmt_node(df, f, c))
        nz.no_inline.add(var)
        p = nz.norm(c.args[0])
        if is_exp:
            if not p.has_factor_atom(lambda a: a == "𝑖"):
                raise AnalysisError(f"{f.qualname}: exp({p.key()[:60]}) is not of the form exp(i·phase)")
            p = p * Poly.atom("𝑖").inverse()
        bad = []
        for mono in p.terms:
            e = sum((x for a, x in mono if a == var), Fraction(0))
            hidden = [a for a, _ in mono if a != var and _mentions(a, var)]
            if hidden:
                raise AnalysisError(f"{f.qualname}: `{var}` occurs inside the opaque term {hidden[0]}")
            if e.denominator != 1 or e.numerator % 2 == 0:
                bad.append(f"{var}^{e}")
        ctx.check(not bad, "R-ODD-PHASE", f"{f.qualname}:phase#{i + 1}", f.loc(c),
                  f"phase {p.key()[:90]} is odd in {var}",
                  f"phase {p.key()[:120]} is not an odd function of {var} (found {', '.join(bad)}): the kernel for -{var} "
                  f"is not the conjugate of the kernel for +{var}, so propagating back does not undo propagating "
                  "forward", key_detail=f"phase{i + 1}")
    return len(calls)


def _mentions(atom: str, var: str) -> bool:
    import re

    return re.search(rf"(?<![A-Za-z0-9_.]){re.escape(var)}(?![A-Za-z0-9_])", atom) is not None


# ====================================================================== main
def run(ctx) -> None:
    repo = ctx.repo
    ctx.rule("R-CEXP", "complex_exponential(x) is e^(ix) on every backend arm: the numba kernel returns cos(x)+1j*sin(x) "
             "with both functions applied to the same argument, the cupy arm exp(1j*x), the dask arm maps the same "
             "function blockwise (this is what makes |complex_exponential(x)| = 1 for real x)")
    ctx.rule("R-MODULUS", "abstract interpretation over (real/complex taint, value interval, modulus interval): the "
             "Fresnel propagator array has modulus = 1, the antialias aperture lies in [0, 1], the tilt factor "
             "preserves the modulus class, FresnelPropagator._calculate_array has modulus <= 1 on every return path, "
             "the transmission function of a real potential has modulus = 1, TransmissionFunction.transmit only "
             "multiplies the wave by such a factor")
    ctx.rule("R-TAINT", "every e^(ix) constructed while building those kernels has a provably real argument "
             "(complex_exponential of a complex-tainted value has modulus e^(-Im x))")
    ctx.rule("R-REALPOT", "every array allocated for potential slices in potentials/iam.py has a real dtype "
             "(get_dtype(complex=False)); premise of the unit-modulus transmission function")
    ctx.rule("R-ODD-PHASE", "each phase argument of the propagator and tilt kernels is an odd function of the "
             "thickness, so kernel(-dz) = conj(kernel(dz)) and, with modulus 1, propagation by -dz inverts "
             "propagation by dz")
    ctx.rule("R-TRANSMIT-CLASS", "in conventional_multislice_step every object whose .transmit(waves) is called "
             "has pointwise modulus <= 1 (operator norm of a multiplication operator is sup|t|); a Fourier-space "
             "filter applied to the transmission function loses that class")
    ctx.rule("R-KERNEL-FLOW", "FresnelPropagator.propagate convolves the wave with the array returned by get_array on "
             "both FFT backends, and the only array get_array computes comes from _calculate_array")
    ctx.assume("Parseval: multiplying the Fourier transform of a wave by a kernel of modulus <= 1 does not increase "
               "its total intensity; the FFT pair is unitary up to a fixed scale")
    ctx.assume("grid, sampling, energy, thickness, tilt and configuration values are real numbers")
    ctx.undecided("floating-point rounding and the unitarity of the FFT libraries")
    ctx.undecided("that the aperture equals exactly 1 inside the pass band (vacuum intensity is preserved only there; C23)")
    ctx.undecided("dtype of arrays returned by the projection integrators (integrate_on_grid) and of user-supplied "
                  "PotentialArray / TransmissionFunction objects")
    ctx.undecided("the real-space (finite-difference) multislice path (C37)")

    _check_cexp(ctx)

    ip = _interp(repo)
    grid = {"gpts": M.SeqV(M.real(0, M.INF)), "sampling": M.SeqV(M.real(0, M.INF))}

    def decide_returns(f: FuncInfo, s: M.Summary, want: str, what: str, tag: str = "") -> None:
        paths = M.return_paths(s)
        ctx.require(len(paths) >= 1, f"{f.qualname} has no return statement")
        for label, st, v in paths:
            M.decide(ctx, "R-MODULUS", f"{f.qualname}{tag}:{label}", f.loc(st) if st is not None else f.where, v, want,
                     what, key_detail=want)

    # --- Fresnel propagator
    fp = repo.function(MS, "_fresnel_propagator_array")
    s = ip.run(fp, {"thickness": M.real(), **grid, "energy": M.real(0, M.INF), "device": M.Opaque("str", "cpu"),
                    "order": M.real()})
    decide_returns(fp, s, "eq1", "Fresnel propagator array")
    # --- antialias aperture
    aa = repo.function(AA, "antialias_aperture")
    s = ip.run(aa, {**grid, "xp": M.MODULE})
    decide_returns(aa, s, "unit", "antialias aperture array")
    # --- tilt factor keeps the class of its input
    tf = repo.function(MS, "_apply_tilt_to_fresnel_propagator_array")
    ctx.require("array" in tf.params and "tilt" in tf.params, f"{tf.qualname} lost its array/tilt parameters")
    for cls_in, want in ((M.UNIT, "eq1"), (M.cplx(0.0, 1.0), "le1")):
        s = ip.run(tf, {"array": cls_in, "sampling": grid["sampling"], "thickness": M.real(), "tilt": M.real()})
        decide_returns(tf, s, want, f"tilted propagator for an input of class {want}", tag=f"[in:{want}]")
    # --- the cached kernels
    pc = repo.method(MS, "FresnelPropagator", "_calculate_array")
    s = ip.run(pc, {"waves": M.Opaque("object", "waves"), "thickness": M.real(), "order": M.real()})
    decide_returns(pc, s, "le1", "propagator kernel (propagator x aperture x tilt)")
    ctx.require(len(s.returns) >= 2, f"{pc.qualname}: expected the no-tilt-axes and tilt-axes return paths")
    for cname, mod, want, what in (("FresnelPropagator", MS, "le1", "cached propagator kernel"),
                                   ("AntialiasAperture", AA, "unit", "cached aperture kernel")):
        ga = repo.method(mod, cname, "get_array")
        c = repo.cls(mod, cname)
        params = ga.positional_params[1:]
        args = {p: (M.Opaque("object", p) if i == 0 else M.real()) for i, p in enumerate(params)}
        s = ip.run(ga, args, self_val=M.Opaque("object", "self", c))
        st_arr = [x for x in s.stores if x[1] == "self._array"]
        ctx.require(len(st_arr) >= 1, f"{ga.qualname} no longer stores the kernel in self._array")
        for st, tgt, op, v, _ in st_arr:
            M.decide(ctx, "R-MODULUS", f"{ga.qualname}:store {tgt}", ga.loc(st), v, want, what, key_detail="store")
    # --- transmission function
    pa = repo.cls(IAM, "PotentialArray")
    t_static = repo.method(IAM, "PotentialArray", "_transmission_function")
    ctx.require(len(t_static.positional_params) >= 2, f"{t_static.qualname}: signature changed")
    arr_p, en_p = [p for p in t_static.positional_params if p not in ("self", "cls")][:2]
    s = ip.run(t_static, {arr_p: M.real(), en_p: M.real(0, M.INF)})
    decide_returns(t_static, s, "eq1", "transmission function of a real potential")
    t_m = repo.method(IAM, "PotentialArray", "transmission_function")
    s_tm = ip.run(t_m, {t_m.positional_params[1]: M.real(0, M.INF)}, self_val=M.ObjV("PotentialArray", M.real(), pa))
    decide_returns(t_m, s_tm, "eq1", "array of the TransmissionFunction built from a real potential (lazy and eager arm)")
    # both arms must feed self.array
    calls = [c for c in walk_no_nested(t_m.node) if isinstance(c, ast.Call) and any(
        dotted(a) == f"self.{t_static.name}" for a in [c.func] + list(c.args))]
    ctx.require(len(calls) >= 2, f"{t_m.qualname}: lazy and eager applications of {t_static.name} not found")
    # --- transmit: the wave is only multiplied by the (conjugated) transmission function
    tcls = repo.cls(IAM, "TransmissionFunction")
    tr = repo.method(IAM, "TransmissionFunction", "transmit")
    wparam = tr.positional_params[1]
    s = ip.run(tr, {wparam: M.ObjV("Waves", M.cplx()), **{p: M.boolean() for p in tr.positional_params[2:]}},
               self_val=M.ObjV("TransmissionFunction", M.UNIT, tcls))
    upd = [x for x in s.stores if x[1] in (f"{wparam}._array", f"{wparam}.array")]
    ctx.require(len(upd) >= 1, f"{tr.qualname}: no update of {wparam}._array found")
    for st, tgt, op, rhs, old in upd:
        good = op == "Mult" and M.as_av(rhs).le1()
        if not good and op == "Mult" and M.as_av(rhs).notes:
            raise AnalysisError(f"{tr.qualname}: cannot bound the factor {norm_text(st)}: {M.as_av(rhs).describe()}")
        ctx.check(good, "R-MODULUS", f"{tr.qualname}:update `{norm_text(st)[:60]}`", tr.loc(st),
                  f"wave multiplied in place by a factor with {M.as_av(rhs).describe()}",
                  f"`{norm_text(st)}` does not multiply the wave by a factor of modulus <= 1 "
                  f"(operation {op or 'assignment'}, operand {M.as_av(rhs).describe()})", key_detail="update")

    # ---------------- R-TAINT: every e^{ix} seen
    seen = set()
    n_taint = 0
    for f, call, arg, res, via in ip.cexp_calls:
        if id(call) in seen:
            continue
        seen.add(id(call))
        if not f.module.name.startswith("abtem"):
            continue
        n_taint += 1
        if arg.is_realish or (via == "exp" and arg.field == "imag"):
            ctx.ok("R-TAINT", f"{f.qualname}:{via}(`{norm_text(call.args[0])[:50]}`)", f.loc(call),
                   f"argument is {arg.describe()}")
        elif [n for n in arg.notes if n.startswith("unknown:")]:
            raise AnalysisError(f"{f.qualname}: cannot decide whether the argument of {norm_text(call)[:60]} is real: "
                                f"{arg.describe()}")
        else:
            ctx.violation("R-TAINT", f"{f.qualname}:{via}(`{norm_text(call.args[0])[:50]}`)", f.loc(call),
                          f"{via} is applied to a value that is not provably real ({arg.describe()}): "
                          "|e^(ix)| = e^(-Im x) is not 1", key_detail="taint")
    ctx.require(n_taint >= 5, f"R-TAINT saw only {n_taint} e^(ix) constructions")

    # ---------------- R-REALPOT
    n_alloc = 0
    base = repo.cls(IAM, "BasePotential")
    fb = repo.cls(IAM, "_FieldBuilder")
    for c in repo.module(IAM).classes.values():
        if not (base in c.mro() or fb in c.mro()) or c is tcls:
            continue
        for defs in c.methods.values():
            for f in defs:
                if f.name in (t_static.name, t_m.name):
                    continue
                for call in walk_no_nested(f.node):
                    if not isinstance(call, ast.Call):
                        continue
                    for k in call.keywords:
                        if k.arg != "dtype" or last_attr(call) not in ("zeros", "ones", "empty", "full", "array",
                                                                       "zeros_like", "asarray"):
                            continue
                        dv = ip.eval_expr(f, k.value)
                        if not (isinstance(dv, M.Opaque) and dv.kind in ("dtype-real", "dtype-complex", "dtype-unknown")):
                            continue
                        if not (isinstance(k.value, ast.Call) and last_attr(k.value) == "get_dtype") and \
                                dv.kind == "dtype-real":
                            continue  # bool/int index arrays
                        if dv.kind == "dtype-unknown":
                            raise AnalysisError(f"{f.qualname}: dtype `{norm_text(k.value)}` not resolved")
                        n_alloc += 1
                        ctx.check(dv.kind == "dtype-real", "R-REALPOT", f"{f.qualname}:{norm_text(call)[:50]}",
                                  f.loc(call), f"potential array allocated with real dtype `{norm_text(k.value)}`",
                                  f"potential slices are allocated with a complex dtype (`{norm_text(k.value)}`): the "
                                  "transmission function exp(i·sigma·V) of a complex V does not have modulus 1",
                                  key_detail="dtype")
    ctx.require(n_alloc >= 3, f"R-REALPOT matched only {n_alloc} potential allocation sites")

    # ---------------- R-ODD-PHASE
    _check_odd(ctx, fp, "thickness")
    _check_odd(ctx, tf, "thickness")

    # ---------------- R-TRANSMIT-CLASS
    _check_transmit_class(ctx, ip, s_tm)

    # ---------------- R-KERNEL-FLOW
    _check_kernel_flow(ctx)


# ====================================================================== R-TRANSMIT-CLASS
def _check_transmit_class(ctx, ip: M.Interp, s_tm: M.Summary) -> None:
    repo = ctx.repo
    f = repo.function(MS, "conventional_multislice_step")
    df = DataFlow(f.node)
    aacls = repo.cls(AA, "AntialiasAperture")
    bandlimit = repo.method(AA, "AntialiasAperture", "bandlimit")
    PRESERVE = {"copy", "copy_to_device", "to_cpu", "to_gpu", "compute", "get_chunk"}

    def classify(expr: ast.expr, at: int, depth: int = 0, chain: tuple = ()):
        """-> list of (origin text, value | ('given', parameter, chain of CFG nodes read on the way))."""
        chain = chain + (at,)
        if depth > 12:
            raise AnalysisError(f"{f.qualname}: definition chain of the transmit receiver too deep")
        if isinstance(expr, ast.Name):
            out = []
            defs = df.reaching(at, expr.id)
            if not defs:
                raise AnalysisError(f"{f.qualname}: `{expr.id}` has no reaching definition")
            for d in defs:
                if d.kind == "param":
                    out.append(("parameter", ("given", expr.id, chain)))
                elif d.kind == "assign" and d.strong and d.value is not None:
                    out += classify(d.value, d.node, depth + 1, chain)
                else:
                    raise AnalysisError(f"{f.qualname}: `{expr.id}` defined by an unmodelled construct ({d.kind})")
            return out
        if isinstance(expr, ast.Call) and isinstance(expr.func, ast.Attribute):
            m = expr.func.attr
            if m == "transmission_function":
                return [("transmission_function()", s_tm.value)]
            if m in PRESERVE:
                return classify(expr.func.value, at, depth + 1, chain)
            if m == bandlimit.name:
                b = bind_args(expr, bandlimit, skip_self=True)
                xname = bandlimit.positional_params[1]
                if xname not in b:
                    raise AnalysisError(f"{f.qualname}: cannot bind the argument of {norm_text(expr)[:50]}")
                out = []
                for origin, v in classify(b[xname], at, depth + 1, chain):
                    if isinstance(v, tuple):
                        v = M.ObjV("TransmissionFunction", M.cplx(0.0, 1.0))
                    s = ip.run(bandlimit, {xname: v, **{p: M.boolean() for p in bandlimit.positional_params[2:]}},
                               self_val=M.Opaque("object", "self", aacls))
                    out.append((f"{bandlimit.name}({origin})", s.value))
                return out
        raise AnalysisError(f"{f.qualname}: cannot classify the transmit receiver `{norm_text(expr)[:60]}`")

    calls = [c for c in walk_no_nested(f.node) if isinstance(c, ast.Call) and isinstance(c.func, ast.Attribute)
             and c.func.attr == "transmit"]
    ctx.require(len(calls) >= 1, f"{f.qualname}: no .transmit(...) call found")
    done = set()
    for c in calls:
        at = _stmt_node(df, f, c)
        for origin, v in classify(c.func.value, at):
            dk = (origin, v[2]) if isinstance(v, tuple) else origin
            if dk in done:
                continue
            done.add(dk)
            cons = f"{f.qualname}:transmit-receiver {origin}"
            if isinstance(v, tuple):
                _, pname, nodes = v
                guarded = any(_isinstance_guard(repo, f, df, nd, pname) for nd in nodes)
                if guarded:
                    ctx.ok("R-TRANSMIT-CLASS", cons, f.loc(c), f"`{pname}` is used as the factor only under "
                           "isinstance(..., TransmissionFunction); its modulus class is the caller's (assumed <= 1)",
                           nontrivial=False)
                else:
                    ctx.violation("R-TRANSMIT-CLASS", cons, f.loc(c),
                                  f"parameter `{pname}` reaches .transmit() without being converted by "
                                  ".transmission_function() and without an isinstance(..., TransmissionFunction) guard: a "
                                  "potential (values in eV) would be multiplied onto the wave", key_detail="unguarded")
                continue
            a = M.as_av(v)
            if a.le1():
                ctx.ok("R-TRANSMIT-CLASS", cons, f.loc(c), f"factor multiplied onto the wave: {a.describe()}")
            elif [n for n in a.notes if n.startswith("unknown:")]:
                raise AnalysisError(f"{cons}: cannot bound the factor: {a.describe()}")
            else:
                ctx.violation("R-TRANSMIT-CLASS", cons, f.loc(c),
                              f"the factor multiplied onto the wave is {origin}: a Fourier-space filter of a unit-modulus "
                              f"function is not bounded by 1 pointwise (analysis: {a.describe()}), so the transmission "
                              "step can increase the total intensity of a wave", key_detail="filtered")
    ctx.require(done, f"{f.qualname}: no transmit receiver classified")


# ====================================================================== R-KERNEL-FLOW
def _check_kernel_flow(ctx) -> None:
    repo = ctx.repo
    prop = repo.method(MS, "FresnelPropagator", "propagate")
    ga = repo.method(MS, "FresnelPropagator", "get_array")
    df = DataFlow(prop.node)
    conv = [c for c in walk_no_nested(prop.node) if isinstance(c, ast.Call) and (
        last_attr(c) in ("fft2_convolve",) or (dotted(c.func) or "").startswith("self._cached"))]
    ctx.require(len(conv) >= 2, f"{prop.qualname}: the two convolution arms were not found")
    wparam = prop.positional_params[1]
    for c in conv:
        ctx.require(len(c.args) >= 2, f"{prop.qualname}: convolution call without (array, kernel)")
        at = _stmt_node(df, prop, c)
        karg = c.args[1]
        src = None
        if isinstance(karg, ast.Name):
            d = df.single_def(at, karg.id)
            src = d.value if d is not None else None
        else:
            src = karg
        good_k = isinstance(src, ast.Call) and dotted(src.func) == f"self.{ga.name}"
        good_x = (dotted(c.args[0]) or "").startswith(wparam + ".")
        ctx.check(good_k and good_x, "R-KERNEL-FLOW", f"{prop.qualname}:{norm_text(c.func)}", prop.loc(c),
                  "wave array convolved with the kernel from self.get_array(...)",
                  f"`{norm_text(c)[:80]}` does not convolve the wave with the kernel returned by self.{ga.name}",
                  key_detail="conv")
    calc = [st for st in walk_no_nested(ga.node) if isinstance(st, ast.Assign) and any(
        dotted(t) == "self._array" for t in st.targets)]
    ctx.require(len(calc) >= 1, f"{ga.qualname}: no store to self._array")
    for st in calc:
        good = isinstance(st.value, ast.Call) and dotted(st.value.func) in ("self._calculate_array",
                                                                           "FresnelPropagator._calculate_array")
        ctx.check(good, "R-KERNEL-FLOW", f"{ga.qualname}:store self._array", ga.loc(st),
                  "cached kernel is computed by _calculate_array",
                  f"`{norm_text(st)[:80]}` stores a kernel that does not come from _calculate_array", key_detail="store")
    rets = [r for r in walk_no_nested(ga.node) if isinstance(r, ast.Return)]
    ctx.check(bool(rets) and all(r.value is not None and dotted(r.value) == "self._array" for r in rets),
              "R-KERNEL-FLOW", f"{ga.qualname}:returns", ga.where, "every return hands out self._array",
              "get_array returns something other than the cached kernel", key_detail="returns")


def _isinstance_guard(repo, f: FuncInfo, df: DataFlow, node_idx: int, pname: str) -> bool:
    """Is CFG node `node_idx` inside the arm of an `if` that holds only when
    isinstance(pname, <TransmissionFunction or subclass>) is true?"""
    tcls = repo.cls(IAM, "TransmissionFunction")
    target = df.cfg.nodes[node_idx].ast

    def is_test(t: ast.expr):
        """+1 if t is the isinstance test, -1 if its negation, else 0."""
        if isinstance(t, ast.UnaryOp) and isinstance(t.op, ast.Not):
            return -is_test(t.operand)
        if isinstance(t, ast.Call) and call_name(t) == "isinstance" and len(t.args) == 2 and dotted(t.args[0]) == pname:
            names = [t.args[1]] if not isinstance(t.args[1], ast.Tuple) else list(t.args[1].elts)
            for nm in names:
                c = repo.resolve_name(f.module, dotted(nm) or "")
                if c is None or not hasattr(c, "mro") or tcls not in c.mro():
                    return 0
            return 1
        return 0

    def search(body, holds: bool) -> bool:
        for st in body:
            if st is target:
                return holds
            if isinstance(st, ast.If):
                pol = is_test(st.test)
                if any(m is target for b in st.body for m in ast.walk(b)):
                    return search(st.body, holds or pol == 1)
                if any(m is target for b in st.orelse for m in ast.walk(b)):
                    return search(st.orelse, holds or pol == -1)
            else:
                for fld in ("body", "orelse", "finalbody"):
                    sub = getattr(st, fld, None)
                    if isinstance(sub, list) and any(m is target for b in sub for m in ast.walk(b)):
                        return search(sub, holds)
        return False

    return search(f.node.body, False)


# ---- added after the seeded change C04-r3seed7: the propagation runs on the wave it was given
_inner_run_c04 = run


def run(ctx) -> None:  # noqa: F811
    from . import c38

    ctx.rule("R-COPYGUARD", "(shared with C38 and C02) the Fresnel propagation is a convolution through one "
             "CachedFFTWConvolution per propagator: its cached FFTW plans may be executed only while bound (creation / "
             "update_arrays) to the array of the current call.  A plan still bound to an earlier wave transforms that "
             "buffer again — the intensity of the wave that is returned is whatever the stale buffer holds, so neither "
             "intensity conservation nor propagate(+dz) o propagate(-dz) == identity hold")
    c38._copyguard_cached(ctx, ctx.repo)
    _inner_run_c04(ctx)


# ---- added after the mutation sweep: the phases stay finite
_inner_run_c04_sweep = run


def _check_finite(ctx, f: FuncInfo, zero_params, nonzero_params) -> int:
    from ..rules import finite as F

    df = DataFlow(f.node)
    calls = _phase_args(f)
    ctx.require(len(calls) >= 1, f"{f.qualname}: no e^(i·phase) factor found")
    for i, (c, _is_exp) in enumerate(calls):
        at = _stmt_node(df, f, c)
        dens = F.denominators(df, at, c.args[0])
        bad, unknown = [], []
        for d, dn in dens:
            v = F.may_vanish(df, dn, d, zero_params, nonzero_params, zero_calls={"spatial_frequencies"},
                             nonzero_calls={"energy2wavelength", "energy2sigma"})
            if v == F.ZERO:
                bad.append(d)
            elif v == F.UNKNOWN:
                unknown.append(d)
        if unknown and not bad:
            raise AnalysisError(f"{f.qualname}: cannot decide whether the divisor `{norm_text(unknown[0])[:60]}` in the "
                                f"phase of {norm_text(c)[:40]} can vanish")
        ctx.check(not bad, "R-FINITE", f"{f.qualname}:phase#{i + 1}", f.loc(c),
                  f"{len(dens)} divisor(s) in the phase, none of them can vanish",
                  f"the phase divides by `{norm_text(bad[0])[:70] if bad else ''}`, which is 0 for a legitimate input (the "
                  "zero-frequency component of every grid, an untilted axis, vacuum in a potential slice): the phase is "
                  "inf/nan there, e^(i·phase) is nan, and the nan spreads over the whole wave at the next FFT — the "
                  "total intensity is not conserved, it is undefined", key_detail=f"phase{i + 1}")
    return len(calls)


def run(ctx) -> None:  # noqa: F811
    repo = ctx.repo
    ctx.rule("R-FINITE", "no phase handed to e^(i·phase) in the propagator, tilt and transmission kernels divides by a "
             "quantity that vanishes for a legitimate input.  Divisors (right operands of `/`, bases of negative "
             "powers, read through locals) are classified by dataflow: spatial_frequencies(...) (every grid has the "
             "DC component), the tilt parameter and the potential array can be 0, and so can anything derived from "
             "them by products, indexing and odd functions (tan, sin, sqrt ...) or a sum of such terms; literals, pi, "
             "energy2wavelength / energy2sigma and thickness / sampling / energy are non-zero.  |e^(i·x)| = 1 needs a "
             "finite real x: with x = ±inf or nan the kernel is nan and the modulus bound of R-MODULUS is void")
    ctx.assume("slice thicknesses, samplings and energies are non-zero; tilt angles and potential values may be zero")
    fp = repo.function(MS, "_fresnel_propagator_array")
    tf = repo.function(MS, "_apply_tilt_to_fresnel_propagator_array")
    ts = repo.method(IAM, "PotentialArray", "_transmission_function")
    arr_p, en_p = [p for p in ts.positional_params if p not in ("self", "cls")][:2]
    positive = {"thickness", "sampling", "energy", "gpts", "wavelength"}
    n = _check_finite(ctx, fp, zero_params=set(), nonzero_params=positive)
    n += _check_finite(ctx, tf, zero_params={"tilt"}, nonzero_params=positive)
    n += _check_finite(ctx, ts, zero_params={arr_p}, nonzero_params={en_p})
    ctx.require(n >= 5, f"R-FINITE examined only {n} phases")
    _inner_run_c04_sweep(ctx)


# ---- added after the seeded change C04-r5seed0: the kernels are sampled on the frequency grid of the wave
_inner_run_c04_kind = run

GRID = "abtem.core.grid"


def _check_sampling_kind(ctx) -> None:
    from ..rules import gridkind as K

    repo = ctx.repo
    grid = repo.cls(GRID, "Grid")
    eng = K.Engine(repo, grid, "gpts", "sampling")
    ctx.require(bool(eng.relations), f"{grid.qualname}: no relation between extent, gpts and sampling could be derived from "
                "the stores of the class")
    for lhs, k, callee, st in eng.equations:
        ctx.ok("R-SAMPLINGKIND", f"{callee.qualname}:store {lhs}", callee.loc(st),
               f"unit relation derived from the definition: {lhs} = {k.describe()}", nontrivial=False)
    entries = [repo.method(MS, "FresnelPropagator", "_calculate_array"), repo.method(AA, "AntialiasAperture", "get_array")]
    n_sites = 0
    for f in entries:
        fr = K.Frame(eng, f, self_cls=f.cls)
        sites = eng.sites(fr)
        ctx.require(len(sites) >= 1, f"{f.qualname}: no frequency grid is built on the way to the kernel")
        total: dict[str, int] = {}
        for s in sites:
            path = ">".join(c.name for c in s.chain) or "(inline)"
            total[path] = total.get(path, 0) + 1
        seen: dict[str, int] = {}
        for s in sites:
            path = ">".join(c.name for c in s.chain) or "(inline)"
            seen[path] = seen.get(path, 0) + 1
            tag = path + (f"#{seen[path]}" if total[path] > 1 else "")
            where = f.loc(s.entry_call) if s.entry_call is not None else f.loc(s.call)
            n_sites += 1
            for role, thunk, want, unit in (("spacing", s.d, eng.spacing, "the real-space sampling of the grid"),
                                            ("count", s.n, eng.px, "the number of grid points")):
                k = eng.force(thunk)
                cons = f"{f.qualname}:{tag}:frequency-grid {role}"
                if k == want:
                    ctx.ok("R-SAMPLINGKIND", cons, where, f"fftfreq {role} has kind {k.describe()} ({unit})")
                    continue
                if not k.mono:
                    raise AnalysisError(f"{cons}: the {role} handed to fftfreq is a pure number (frequencies per pixel); "
                                        "whether they are rescaled to the grid of the wave afterwards is not followed")
                if not eng.decidable(k):
                    raise AnalysisError(f"{cons}: cannot decide whether {k.describe()} is {want.describe()}: a grid "
                                        "quantity in it has no derived relation to the others")
                ctx.violation("R-SAMPLINGKIND", cons, where,
                              f"the {role} that reaches fftfreq through {path.replace('>', ' -> ')} has kind "
                              f"{k.describe()}, not {want.describe()} ({unit}): the kernel built here is not sampled at the "
                              "frequencies i/(n·d) of the wave array it multiplies, so the band limit / phase is applied "
                              "at the wrong frequencies whenever the two grid axes differ (a wave inside the antialiasing "
                              "aperture loses intensity in vacuum; the factors of the propagator no longer share one "
                              "frequency grid)", key_detail=role)
    ctx.require(n_sites >= 4, f"R-SAMPLINGKIND saw only {n_sites} frequency grids")


def run(ctx) -> None:  # noqa: F811
    from ..rules import deferred

    ctx.rule("R-SAMPLINGKIND", "kind (unit) analysis of the grid quantities that reach a frequency grid: every "
             "fftfreq(n, d) that is reached from FresnelPropagator._calculate_array and AntialiasAperture.get_array through "
             "calls of repo functions (propagator array, antialias aperture, tilt factor) receives, in that calling "
             "context, a count n of the kind of Grid.gpts and a spacing d of the kind of Grid.sampling.  Kinds are "
             "monomials over the storage slots of Grid, decided by propagation over DEFINITIONS: a property has the kind "
             "its getter returns through the MRO of the object's class (reciprocal_space_sampling = 1/(gpts·sampling), "
             "_valid_sampling = sampling, angular_sampling = reciprocal sampling · wavelength), a local the kind of its "
             "reaching definitions, a parameter the kind of the caller's argument; extent = gpts·sampling is derived from "
             "the stores of Grid itself.  Parameter names and docstrings are never consulted.  The kernel multiplies the "
             "FFT of an array sampled with Grid.sampling, whose component i belongs to the frequency i/(n·d): a mask or "
             "phase evaluated on frequencies of another kind is applied at the wrong frequencies, the aperture is then "
             "narrower than the antialiasing aperture along one axis and vacuum propagation loses intensity")
    ctx.assume("array shapes and len() count grid points (the unit of Grid.gpts); sequences of grid quantities are "
               "homogeneous in kind")
    ctx.undecided("frequency grids built in units of cycles per pixel (fftfreq without a spacing) and rescaled later")
    deferred.run(ctx, lambda: _check_sampling_kind(ctx), _inner_run_c04_kind)


# ---- added after the seeded change C04-r7seed0: pass band and roll-off of the aperture are cut on the same scale
_inner_run_c04_band = run


def _aperture_builders(repo):
    from ..rules import apertureband as B

    out = []
    for f in repo.all_functions():
        if not f.module.name.startswith("abtem"):
            continue
        keys = B.config_keys_read(f, "antialias.")
        if keys:
            out.append((f, keys))
    return out


def _check_aperture_band(ctx) -> None:
    from ..rules import apertureband as B

    repo = ctx.repo
    anchor = repo.function(AA, "antialias_aperture")
    builders = _aperture_builders(repo)
    ctx.require(any(f is anchor or f.node is anchor.node for f, _ in builders),
                f"{anchor.qualname} no longer reads the antialias.* configuration: the place where cutoff and taper "
                "become frequency radii was not found")
    n_bands = 0
    for f, keys in builders:
        rd = B.Reader(f)
        facts, fkey = rd.facts()
        ctx.require(bool(facts), f"{f.qualname} reads {sorted(set(keys))} but no comparison of a frequency radius with a "
                    "bound was found in it")
        rolls = rd.rolloffs(fkey)
        grid_names = [p for p in f.params if p not in ("self", "cls")] + ["self"]

        def grid_atoms(p: Poly):
            return sorted({a for a in p.atoms() if any(B.mentions(a, g) for g in grid_names)
                           and not a.startswith("config.get(")})

        # ---- (b1) constants of the mask: 0 only above a bound, 1 only below one
        stops, passes = [], []
        for i, fc in enumerate(facts):
            cons = f"{f.qualname}:{fc.how}#{i + 1}"
            if fc.value == 0 and fc.region == "above":
                stops.append(fc)
            elif fc.value == 1 and fc.region == "below":
                passes.append(fc)
            else:
                ctx.violation("R-APERTUREBAND", cons, f.loc(fc.node),
                              f"the mask is set to {float(fc.value)} for every frequency {fc.region} {fc.bound.key()[:80]}: a "
                              "low-pass aperture is exactly 1 below its pass bound and exactly 0 above its cutoff; any other "
                              "constant there changes the intensity of a wave that lies inside the aperture",
                              key_detail="constant")
        ctx.require(bool(stops) and bool(passes), f"{f.qualname}: stop band or pass band of the mask not found")
        # ---- (b2) one cutoff term
        cut = stops[0].bound
        same_cut = all(s.bound == cut for s in stops)
        if not same_cut and B.undecidable(*[s.bound for s in stops]):
            raise AnalysisError(f"{f.qualname}: cannot compare the stop bounds (inverse of a sum)")
        ctx.check(same_cut, "R-APERTUREBAND", f"{f.qualname}:stop bound", f.loc(stops[0].node),
                  f"every region set to 0 starts at the same cutoff term {cut.key()[:80]} ({len(stops)} stop test(s))",
                  "the regions set to 0 start at different cutoff terms: " + " | ".join(sorted({s.bound.key()[:60] for s in stops}))
                  + " — the tapered and the sharp form of the aperture (or the store and the roll-off) disagree about "
                  "where the band ends", key_detail="cutoff")
        if not cut.is_monomial():
            raise AnalysisError(f"{f.qualname}: the cutoff term {cut.key()[:80]} is a sum; its scale cannot be compared")
        # ---- pass bounds: the cutoff itself (sharp form) or cutoff - taper
        tapers = []
        for pf in passes:
            if pf.bound == cut:
                continue
            t = cut - pf.bound
            if not any(t == x for x, _ in tapers):
                tapers.append((t, pf))
        # ---- (b3) roll-off hits 1 at the pass bound and 0 at the cutoff
        lows = []
        for i, r in enumerate(rolls):
            cons = f"{f.qualname}:roll-off#{i + 1}"
            ainv = r.a.inverse()
            lo = -(r.b * ainv)
            hi = (B.pi_poly() - r.b) * ainv
            lows.append(lo)
            good_hi = hi == cut
            good_lo = any(lo == pf.bound for pf in passes)
            if not (good_hi and good_lo) and B.undecidable(lo, hi, cut, *[pf.bound for pf in passes]):
                raise AnalysisError(f"{cons}: cannot compare the roll-off interval with the pass / stop bounds (inverse of a sum)")
            ctx.check(good_hi and good_lo, "R-APERTUREBAND", cons, f.loc(r.call),
                      f"cosine roll-off runs from argument 0 at {lo.key()[:60]} (a pass bound) to pi at {hi.key()[:60]} (the cutoff)",
                      f"the cosine roll-off has argument 0 at radius {lo.key()[:70]} and pi at {hi.key()[:70]}, but the mask is "
                      f"held at 1 up to {' | '.join(sorted({pf.bound.key()[:60] for pf in passes}))} and at 0 from {cut.key()[:60]}: "
                      "the pass test, the stop test and the roll-off do not use the same cutoff / taper terms, so the mask "
                      "jumps or is below 1 inside the band it must pass unchanged", key_detail="interval")
            if r.value_ok is None:
                raise AnalysisError(f"{cons}: the mask value built from the cosine is assembled in a way that is not read")
            ctx.check(r.value_ok, "R-APERTUREBAND", f"{cons}:value", f.loc(r.call),
                      f"mask value {r.value_text[:60]} is 1 where the cosine is 1 and 0 where it is -1",
                      f"the mask value {r.value_text[:80]} is not 1 at cos = 1 / 0 at cos = -1: the aperture does not join the "
                      "pass band (exactly 1) and the stop band (exactly 0) continuously", key_detail="value")
        for t, pf in tapers:
            cons = f"{f.qualname}:pass bound below the cutoff"
            has = any(lo == pf.bound for lo in lows)
            if not has and B.undecidable(pf.bound, *lows):
                raise AnalysisError(f"{cons}: cannot match it with a roll-off (inverse of a sum)")
            ctx.check(has, "R-APERTUREBAND", cons, f.loc(pf.node),
                      "a roll-off starts at this pass bound",
                      f"the mask is 1 up to {pf.bound.key()[:70]} and 0 from {cut.key()[:70]}, but no roll-off starts at that "
                      "pass bound", key_detail="unmatched")
            # ---- (a) the roll-off width is a configured fraction of the cutoff, whatever the grid
            n_bands += 1
            ratio = t * cut.inverse()
            cons = f"{f.qualname}:taper/cutoff"
            rv = ratio.const_value()
            if rv is not None:
                ctx.check(0 <= rv < 1, "R-APERTUREBAND", cons, f.loc(pf.node),
                          f"roll-off width is {rv} of the cutoff",
                          f"the roll-off width is {rv} times the cutoff for every configuration: the band passed unchanged "
                          f"(up to cutoff - taper = {pf.bound.key()[:60]}) is empty, vacuum propagation attenuates every wave",
                          key_detail="ratio")
                continue
            ga = grid_atoms(ratio)
            foreign = sorted(a for a in ratio.atoms() if a not in ga and not a.startswith("config.get("))
            if ga:
                ctx.violation("R-APERTUREBAND", cons, f.loc(pf.node),
                              f"cutoff = {cut.key()[:70]} and taper = {t.key()[:70]} are scaled by different reductions of the grid: "
                              f"their ratio {ratio.key()[:90]} depends on {', '.join(ga)}.  The band limit of the wave (cutoff "
                              "fraction of the Nyquist frequency of the coarsest axis) and the roll-off must be cut on the same "
                              "frequency scale; with anisotropic sampling the roll-off here is wider by the ratio of the two "
                              "samplings and reaches into the band that has to be passed unchanged — vacuum propagation of a "
                              "band-limited wave loses intensity and propagating back does not restore it", key_detail="scale")
                continue
            if foreign or B.undecidable(ratio):
                raise AnalysisError(f"{cons}: the ratio {ratio.key()[:90]} contains quantities that are neither configuration "
                                    "values nor grid parameters")
            ctx.ok("R-APERTUREBAND", cons, f.loc(pf.node),
                   f"taper / cutoff = {ratio.key()[:80]}: configuration values only, the same grid reduction "
                   f"({', '.join(grid_atoms(cut)) or 'none'}) scales both")
    ctx.require(n_bands >= 1, "R-APERTUREBAND: no tapered aperture (pass bound below the cutoff) was examined")


def run(ctx) -> None:  # noqa: F811
    from ..rules import deferred

    ctx.rule("R-APERTUREBAND", "piecewise reading of every function that turns the antialias.* configuration into a mask "
             "over a frequency radius (enumerated: readers of antialias.* keys).  Comparisons of the radius with scalar "
             "terms, masked stores, where() selections and the cosine argument are normalised to terms a·r + b over "
             "reaching definitions (tuple unpacking and temporaries followed; max(sampling), min(sampling), sampling[k] "
             "are distinct atoms).  Decided: (1) the mask is the constant 0 only above a bound and 1 only below one; "
             "(2) every stop region starts at one cutoff term (tapered and sharp arm alike); (3) the cosine roll-off has "
             "argument 0 at a pass bound and pi at the cutoff and the value built from it is 1 / 0 there, i.e. pass test, "
             "stop test and roll-off use the same cutoff and taper terms; (4) taper / cutoff is free of grid quantities: "
             "both radii come from the configuration through the SAME reduction of the sampling (and the ratio is < 1).  "
             "The aperture multiplies every propagated wave; vacuum propagation preserves intensity and is reversible only "
             "on the band where the mask is exactly 1, and that band is cutoff - taper on the frequency scale of the "
             "coarsest axis: a taper cut on another scale widens the roll-off into that band for anisotropic sampling")
    ctx.assume("grid samplings and configuration values are positive (sign of the factor of the radius in a comparison)")
    deferred.run(ctx, lambda: _check_aperture_band(ctx), _inner_run_c04_band)
