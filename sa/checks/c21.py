"""C21 — the contrast transfer function implements the polar aberration expansion (abtem/transfer.py).

Everything is decided on terms: the aberration phase is symbolically executed into a Laurent
polynomial over the atoms  §Cnm (coefficient reads), alpha, cos⟨m*phi - m*§phinm⟩, π, wavelength,
and each monomial is compared with the entry the *symbol name* Cnm demands.
"""
from __future__ import annotations

import ast
import re
from fractions import Fraction

from ..cfg import DataFlow, forward_states
from ..model import AnalysisError, call_name, dotted, last_attr, module_constants, norm_text, walk_no_nested
from ..rules.symx import SymExec, cond_matches
from ..terms import PI, Normalizer, Poly

MOD = "abtem.transfer"
WAVELENGTH = "self.wavelength"
SYM = re.compile(r"^(C|phi)([1-9])([0-9])$")


_WEIGHTS_ATOM = re.compile(r"^\(1\*(?:[A-Za-z_][\w.]*\.)?_unpack_distributions\(.*\)\)#1$")


def expected_symbols(max_order: int = 5) -> set[str]:
    out = set()
    for n in range(1, max_order + 1):
        for m in range(0, n + 2):
            if (n + m) % 2 == 1:
                out.add(f"C{n}{m}")
                if m:
                    out.add(f"phi{n}{m}")
    return out


def nm(symbol: str) -> tuple[str, int, int]:
    mt = SYM.match(symbol)
    if not mt:
        raise AnalysisError(f"symbol {symbol!r} is not of the form Cnm / phinm")
    return mt.group(1), int(mt.group(2)), int(mt.group(3))


# ---------------------------------------------------------------------------------------------
# origin of the coefficient mapping: dict(zip(polar_symbols, <unpacked values of self.aberration_coefficients>))
def _zip_of(value: ast.expr):
    """`dict(zip(K, V))` / `{k: v for k, v in zip(K, V)}` -> (K, V) else None."""
    z = None
    if isinstance(value, ast.Call) and call_name(value) == "dict" and len(value.args) == 1:
        z = value.args[0]
    elif isinstance(value, ast.DictComp) and len(value.generators) == 1 and not value.generators[0].ifs:
        g = value.generators[0]
        if isinstance(g.target, ast.Tuple) and len(g.target.elts) == 2 and all(
                isinstance(e, ast.Name) for e in g.target.elts) and isinstance(value.key, ast.Name) and isinstance(
                value.value, ast.Name) and value.key.id == g.target.elts[0].id and value.value.id == g.target.elts[1].id:
            z = g.iter
    if isinstance(z, ast.Call) and call_name(z) == "zip" and len(z.args) == 2 and not z.keywords:
        return z.args[0], z.args[1]
    return None


def _is_symbol_table(e: ast.expr) -> bool:
    if dotted(e) == "polar_symbols":
        return True
    return isinstance(e, ast.Call) and isinstance(e.func, ast.Attribute) and e.func.attr == "keys" and \
        dotted(e.func.value) == "polar_symbols" and not e.args


def _values_origin(df: DataFlow, at: int, e: ast.expr, depth: int = 0):
    """Trace the value sequence zipped with the symbol table back to its source.
    Returns (source text, net number of extra trailing elements, number of dropped leading elements)."""
    if depth > 12:
        raise AnalysisError("coefficient binding: origin trace too deep")
    if isinstance(e, ast.Starred):
        return _values_origin(df, at, e.value, depth + 1)
    if isinstance(e, ast.Name):
        d = df.single_def(at, e.id)
        if d is None or d.value is None:
            raise AnalysisError(f"coefficient binding: `{e.id}` has no single definition")
        st = df.cfg.nodes[d.node].ast
        if isinstance(st, ast.Assign) and isinstance(st.targets[0], (ast.Tuple, ast.List)) and not isinstance(
                st.value, (ast.Tuple, ast.List)):
            idx = [i for i, t in enumerate(st.targets[0].elts) if isinstance(t, ast.Name) and t.id == e.id]
            if idx != [0] or not (isinstance(st.value, ast.Call) and last_attr(st.value) == "_unpack_distributions"):
                raise AnalysisError(f"coefficient binding: `{e.id}` is not the value tuple of _unpack_distributions")
            call = st.value
            if len(call.args) != 1 or not isinstance(call.args[0], ast.Starred):
                raise AnalysisError("coefficient binding: _unpack_distributions is not called with one *sequence")
            return _values_origin(df, d.node, call.args[0], depth + 1)
        return _values_origin(df, d.node, d.value, depth + 1)
    if isinstance(e, ast.Call) and call_name(e) in ("tuple", "list") and len(e.args) == 1:
        return _values_origin(df, at, e.args[0], depth + 1)
    if isinstance(e, ast.Subscript) and isinstance(e.slice, ast.Slice) and e.slice.step is None:
        def const_int(x):
            if x is None:
                return 0
            if isinstance(x, ast.UnaryOp) and isinstance(x.op, ast.USub) and isinstance(x.operand, ast.Constant) and \
                    isinstance(x.operand.value, int):
                return -x.operand.value
            if isinstance(x, ast.Constant) and isinstance(x.value, int):
                return x.value
            raise AnalysisError("coefficient binding: unrecognised slice of the unpacked values")
        lo, up = const_int(e.slice.lower), const_int(e.slice.upper)
        if lo < 0 or up > 0:
            raise AnalysisError("coefficient binding: unrecognised slice of the unpacked values")
        src, extra, lead = _values_origin(df, at, e.value, depth + 1)
        return src, extra + up, lead + lo
    if isinstance(e, ast.BinOp) and isinstance(e.op, ast.Add) and isinstance(e.right, ast.Tuple):
        src, extra, lead = _values_origin(df, at, e.left, depth + 1)
        return src, extra + len(e.right.elts), lead
    if isinstance(e, ast.Call) and isinstance(e.func, ast.Attribute) and e.func.attr == "values" and not e.args:
        return dotted(e.func.value), 0, 0
    raise AnalysisError(f"coefficient binding: cannot trace `{norm_text(e)[:60]}`")


def binding_rule(ctx, f) -> str:
    """R-BINDING for one evaluate function; returns the statement that builds the coefficient mapping."""
    df = DataFlow(f.node)
    found = []
    keyed = set()  # names subscripted with a literal polar symbol
    for n in walk_no_nested(f.node):
        if isinstance(n, ast.Subscript) and isinstance(n.value, ast.Name) and isinstance(n.slice, ast.Constant) and \
                isinstance(n.slice.value, str) and SYM.match(n.slice.value):
            keyed.add(n.value.id)
    for st in walk_no_nested(f.node):
        if isinstance(st, ast.Assign) and len(st.targets) == 1 and isinstance(st.targets[0], ast.Name):
            z = _zip_of(st.value)
            if z is not None and st.targets[0].id in keyed:
                found.append((st, z))
    ctx.require(len(found) == 1, f"{f.qualname}: the coefficient mapping dict(zip(symbols, values)) was not found")
    st, (keys, vals) = found[0]
    node = df.cfg.node_of(st).idx
    ok_keys = _is_symbol_table(keys)
    src, extra, lead = (None, None, None)
    if ok_keys:
        src, extra, lead = _values_origin(df, node, vals)
    good = ok_keys and src in ("self.aberration_coefficients", "self._aberration_coefficients") and extra == 0 \
        and lead == 0
    ctx.check(good, "R-BINDING", f"{f.qualname}:{st.targets[0].id}", f.loc(st),
              f"symbol table zipped with the values of {src} (net extra trailing elements {extra})",
              f"`{norm_text(st)[:90]}` does not pair polar_symbols with exactly the values of "
              f"self.aberration_coefficients (keys ok={ok_keys}, source={src}, net extra trailing values={extra}, dropped leading values={lead}): "
              "every coefficient name would address another coefficient's value", key_detail="zip")
    return st


# ---------------------------------------------------------------------------------------------
def decompose(mono, coef, trig, alpha: str):
    d = {"amps": [], "phases": [], "alpha": Fraction(0), "pi": Fraction(0), "lam": Fraction(0), "trigs": [],
         "other": [], "coef": coef}
    for a, e in mono:
        if a.startswith("§C"):
            d["amps"].append((a[1:], e))
        elif a.startswith("§"):
            d["phases"].append((a[1:], e))
        elif a == alpha:
            d["alpha"] = e
        elif a == PI:
            d["pi"] = e
        elif a == WAVELENGTH:
            d["lam"] = e
        elif a in trig:
            d["trigs"].append((a, e))
        else:
            d["other"].append(a)
    return d


def parse_trig(atom: str, trig, phi: str):
    """cos⟨p⟩ / sin⟨p⟩ with p = a*phi + b*§phinm  ->  (kind, a, phase symbol, b) or None."""
    kind, p = trig[atom]
    a = b = None
    sym = None
    for mono, c in p.terms.items():
        if len(mono) != 1 or mono[0][1] != 1:
            return None
        at = mono[0][0]
        if at == phi and a is None:
            a = c
        elif at.startswith("§") and sym is None:
            sym, b = at[1:], c
        else:
            return None
    if a is None or sym is None:
        return None
    return kind, a, sym, b


def check_term(ctx, rule, where, construct, d, trig, phi, *, table: str):
    """One monomial of chi (table='chi'), d chi / d alpha ('radial') or (1/alpha) d chi / d phi ('azimuthal').
    Returns (symbol, common-sign) or None when the monomial has no unique amplitude."""
    if d["other"]:
        raise AnalysisError(f"{construct}: unrecognised factor(s) {d['other'][:3]} in an aberration term")
    if len(d["amps"]) != 1 or d["amps"][0][1] != 1 or d["phases"]:
        ctx.violation(rule, construct, where,
                      f"term {d['coef']}*{d['amps']}{d['phases']} is not linear in exactly one aberration "
                      "magnitude Cnm", key_detail="nonlinear")
        return None
    sym = d["amps"][0][0]
    _, n, m = nm(sym)
    cons = f"{construct}:{sym}"
    exp_alpha = n + 1 if table == "chi" else n
    problems = []
    if d["alpha"] != exp_alpha:
        problems.append(f"power of alpha is {d['alpha']}, the name {sym} demands {exp_alpha}")
    sign = Fraction(1)
    trig_ok = True
    if table == "azimuthal" and m == 0:
        problems.append(f"{sym} is rotationally symmetric and cannot appear in the azimuthal derivative")
        trig_ok = False
    elif m == 0:
        if d["trigs"]:
            problems.append(f"{sym} (m=0) must not carry an azimuthal factor, found {d['trigs'][0][0]}")
            trig_ok = False
    else:
        want = "sin" if table == "azimuthal" else "cos"
        if len(d["trigs"]) != 1 or d["trigs"][0][1] != 1:
            problems.append(f"expected exactly one {want}({m}*(phi - phi{n}{m})) factor, found "
                            f"{[t for t, _ in d['trigs']] or 'none'}")
            trig_ok = False
        else:
            pt = parse_trig(d["trigs"][0][0], trig, phi)
            if pt is None:
                problems.append(f"azimuthal factor {d['trigs'][0][0]} is not of the form trig(m*(phi - phi{n}{m}))")
                trig_ok = False
            else:
                kind, a, psym, b = pt
                if kind != want:
                    problems.append(f"azimuthal factor is {kind}, expected {want}")
                if abs(a) != m:
                    problems.append(f"azimuthal multiple is {abs(a)}, the name {sym} demands {m}")
                if psym != f"phi{n}{m}":
                    problems.append(f"azimuthal reference angle is {psym}, the name {sym} demands phi{n}{m}")
                if a != -b:
                    problems.append(f"azimuthal argument {a}*phi + {b}*{psym} is not a multiple of (phi - {psym}): "
                                    "rotating the coefficient angle is no longer a rotation of the azimuth")
                if kind == "sin" and a < 0:
                    sign = -sign
    # scale: chi -> -(2 pi / lambda)/(n+1); radial -> s*(2 pi / lambda); azimuthal -> s*(2 pi / lambda) m/(n+1)
    if d["pi"] != 1 or d["lam"] != -1:
        problems.append(f"scale is pi^{d['pi']} * wavelength^{d['lam']}, expected 2*pi/wavelength")
    c = d["coef"] * sign
    if table == "chi":
        want_c = Fraction(-2, n + 1)
        if c != want_c:
            problems.append(f"prefactor is {c} (in units of pi/wavelength), the name {sym} demands -2/{n + 1} "
                            f"= -(2 pi / wavelength) * 1/(n+1)")
        common = Fraction(1)
    else:
        mag = Fraction(2) if table == "radial" else Fraction(2 * m, n + 1)
        if abs(c) != mag:
            problems.append(f"prefactor magnitude is {abs(c)} (in units of pi/wavelength), expected {mag}")
        common = Fraction(1) if c > 0 else Fraction(-1)
    ctx.check(not problems, rule, cons, where,
              f"coef {d['coef']} * pi/wavelength * alpha^{d['alpha']}" + (f" * {d['trigs'][0][0]}" if d["trigs"] else ""),
              "; ".join(problems), key_detail="term")
    return sym, common


# ---------------------------------------------------------------------------------------------
def _is_guard(test: ast.expr):
    """`self._nonzero_coefficients((...))` -> tuple of literal symbols else None."""
    if isinstance(test, ast.Call) and call_name(test) == "self._nonzero_coefficients" and len(test.args) == 1:
        a = test.args[0]
        if isinstance(a, (ast.Tuple, ast.List)) and all(
                isinstance(e, ast.Constant) and isinstance(e.value, str) for e in a.elts):
            return tuple(e.value for e in a.elts)
        raise AnalysisError("_nonzero_coefficients called with a non-literal symbol tuple")
    return None


def _has_aberrations_pred(t: ast.expr):
    return True if dotted(t) == "self._has_aberrations" else None


def run(ctx) -> None:
    repo = ctx.repo
    ctx.rule("R-NAMING", "symbolic execution of Aberrations._evaluate_from_angular_grid (all coefficient guards taken): "
             "the argument of complex_exponential is a sum with exactly one term per magnitude Cnm, each equal to "
             "-(2 pi/wavelength) * 1/(n+1) * Cnm * alpha**(n+1) * cos(m*(phi - phinm)) (no cosine for m=0), n and m "
             "read off the symbol's own name; early exits return ones only when no aberration is set")
    ctx.rule("R-GUARDCOVER", "with only one `_nonzero_coefficients((...))` guard taken, every coefficient the phase then "
             "depends on is listed in that guard's tuple, and every listed name is a polar symbol; "
             "_nonzero_coefficients inspects every listed symbol")
    ctx.rule("R-SYMBOLS", "the magnitudes/angles read by the phase are exactly the keys of polar_symbols, which are "
             "exactly the symbols Cnm/phinm with 1<=n<=5, 0<=m<=n+1, n+m odd; polar_aliases is injective, maps "
             "X and X_angle to the magnitude and angle of the same (n, m), and polar_symbols is its inverse")
    ctx.rule("R-BINDING", "the coefficient mapping used by the phase (and by the spatial envelope) pairs polar_symbols, "
             "in order, with exactly the values of self.aberration_coefficients, whose storage is created by "
             "iterating polar_symbols")
    ctx.rule("R-DEFOCUS", "every `defocus` property returns -C10 and its setter stores C10 = -value; __setattr__ "
             "diverts the name 'defocus' to that setter before alias resolution; __getattr__/__setattr__ resolve "
             "aliases through polar_aliases before touching the coefficient storage")
    ctx.rule("R-DERIV", "SpatialEnvelope's two derivative tables are the derivatives of the same expansion: one term per "
             "Cnm, (2 pi/wavelength)*Cnm*alpha**n*cos(m(phi-phinm)) and, for m>0, "
             "(2 pi/wavelength)*m/(n+1)*Cnm*alpha**n*sin(m(phi-phinm)) with one common sign per table, and the "
             "envelope exponent weights the squares of both tables equally")
    ctx.undecided("that complex_exponential(x) computes exp(i x) and that _unpack_distributions preserves argument order")
    ctx.undecided("distribution weights multiplied onto the phase factor (ensembles of coefficients)")
    ctx.undecided("set_aberrations({'C10': 'scherzer'}) stores +scherzer_defocus into C10 (sign convention of that "
                  "string shortcut is not part of the property)")

    mod = repo.module(MOD)
    consts = module_constants(mod)
    for name in ("polar_aliases", "polar_symbols"):
        ctx.require(name in consts and isinstance(consts[name], dict), f"{MOD}.{name} is not a foldable table")
    aliases: dict[str, str] = consts["polar_aliases"]
    symbols: dict[str, str] = consts["polar_symbols"]
    symset = set(symbols)
    expected = expected_symbols()

    # ---------------- R-SYMBOLS (tables)
    seen: dict[str, str] = {}
    for alias, sym in aliases.items():
        valid = bool(SYM.match(sym)) and sym in expected
        dup = seen.get(sym)
        seen.setdefault(sym, alias)
        ctx.check(valid and dup is None, "R-SYMBOLS", f"{MOD}.polar_aliases:{alias}", mod.relpath,
                  f"-> {sym}",
                  (f"alias {alias!r} maps to {sym!r}, which is not a polar symbol of the fifth-order expansion"
                   if not valid else
                   f"aliases {dup!r} and {alias!r} both map to {sym!r}: one coefficient is unreachable by name and "
                   "polar_symbols loses an entry"), key_detail="alias")
        if alias.endswith("_angle") and alias[: -len("_angle")] in aliases and valid:
            mag = aliases[alias[: -len("_angle")]]
            if SYM.match(mag):
                k1, n1, m1 = nm(mag)
                k2, n2, m2 = nm(sym)
                ctx.check((k1, k2) == ("C", "phi") and (n1, m1) == (n2, m2), "R-SYMBOLS",
                          f"{MOD}.polar_aliases:{alias}/pair", mod.relpath, f"{mag} / {sym}",
                          f"alias pair {alias[:-6]!r}->{mag!r}, {alias!r}->{sym!r} does not address the magnitude and "
                          "angle of the same aberration", key_detail="pair")
    missing = sorted(expected - symset)
    extra = sorted(symset - expected)
    ctx.check(not missing and not extra, "R-SYMBOLS", f"{MOD}.polar_symbols:keys", mod.relpath,
              f"{len(symset)} symbols = the complete fifth-order set",
              f"polar_symbols keys differ from the fifth-order symbol set: missing {missing}, unexpected {extra}",
              key_detail="keys")
    inv_ok = all(aliases.get(a) == s for s, a in symbols.items()) and len(symbols) == len(set(aliases.values()))
    ctx.check(inv_ok, "R-SYMBOLS", f"{MOD}.polar_symbols:inverse", mod.relpath, "polar_symbols is the inverse of polar_aliases",
              "polar_symbols is not the inverse mapping of polar_aliases", key_detail="inverse")

    # ---------------- R-BINDING
    ab = repo.method(MOD, "Aberrations", "_evaluate_from_angular_grid")
    se = repo.method(MOD, "SpatialEnvelope", "_evaluate_from_angular_grid")
    dict_ab = binding_rule(ctx, ab)
    dict_se = binding_rule(ctx, se)
    init = repo.method(MOD, "_HasAberrations", "__init__")
    stores = [st for st in walk_no_nested(init.node) if isinstance(st, ast.Assign)
              and any(dotted(t) == "self._aberration_coefficients" for t in st.targets)]
    ctx.require(len(stores) == 1, "_HasAberrations.__init__ no longer creates self._aberration_coefficients")
    v = stores[0].value
    order_ok = False
    if isinstance(v, ast.DictComp) and len(v.generators) == 1 and not v.generators[0].ifs and _is_symbol_table(
            v.generators[0].iter) and isinstance(v.key, ast.Name) and isinstance(v.generators[0].target, ast.Name) and \
            v.key.id == v.generators[0].target.id:
        order_ok = True
    if isinstance(v, ast.Call) and call_name(v) in ("dict.fromkeys",) and v.args and _is_symbol_table(v.args[0]):
        order_ok = True
    ctx.check(order_ok, "R-BINDING", f"{init.qualname}:storage", init.loc(stores[0]),
              "storage keyed by polar_symbols in table order",
              f"`{norm_text(stores[0])[:80]}` does not create the storage by iterating polar_symbols: the positional "
              "pairing zip(polar_symbols, values) in the evaluate functions would mis-assign coefficients",
              key_detail="storage")
    prop = repo.method(MOD, "_HasAberrations", "aberration_coefficients")
    rets = [r for r in walk_no_nested(prop.node) if isinstance(r, ast.Return) and r.value is not None]
    ctx.require(len(rets) == 1, "_HasAberrations.aberration_coefficients: expected one return")
    rv = rets[0].value
    while isinstance(rv, ast.Call) and last_attr(rv) in ("deepcopy", "copy", "dict") and len(rv.args) == 1:
        rv = rv.args[0]
    if isinstance(rv, ast.Call) and isinstance(rv.func, ast.Attribute) and rv.func.attr == "copy" and not rv.args:
        rv = rv.func.value
    ctx.check(dotted(rv) == "self._aberration_coefficients", "R-BINDING", f"{prop.qualname}:view", prop.loc(rets[0]),
              "public mapping is an order-preserving copy of the storage",
              f"aberration_coefficients returns `{norm_text(rets[0].value)[:60]}`, not a copy of the storage",
              key_detail="view")

    # ---------------- R-NAMING / R-GUARDCOVER on Aberrations
    params = ab.positional_params
    ctx.require(len(params) >= 3, f"{ab.qualname}: expected (self, alpha, phi)")
    alpha, phi = params[1], params[2]

    def is_param_dict(stmt):
        return lambda value, env: value is stmt.value

    guards = []
    for st in ab.node.body:
        if isinstance(st, ast.If):
            g = _is_guard(st.test)
            if g is not None:
                guards.append((st, g))
    nested_guards = [n for n in walk_no_nested(ab.node) if isinstance(n, ast.If) and _is_guard(n.test) is not None]
    ctx.require(len(guards) == len(nested_guards), f"{ab.qualname}: nested coefficient guards are not modelled")

    def execute(active):
        """active: set of id(guard If) taken (None = all)."""
        ce: list[Poly] = []

        def hook(nz, call):
            if last_attr(call) == "complex_exponential" and len(call.args) == 1:
                p = nz.norm(call.args[0])
                ce.append(p)
                return Poly.atom("⟦phase-factor⟧")
            if last_attr(call) == "asnumpy" and len(call.args) == 1 and not call.keywords:
                return nz.norm(call.args[0])  # device -> host transport of the same values
            return None

        def policy(st, env):
            if _is_guard(st.test) is not None:
                return "true" if (active is None or id(st) in active) else "false"
            return "both"

        sx = SymExec(ab.node, policy=policy, call_hook=hook, is_param_dict=is_param_dict(dict_ab))
        res = sx.run()
        return sx, res, ce

    sx, results, ce = execute(None)
    distinct = {p.key(): p for p in ce}
    ctx.require(len(distinct) == 1, f"{ab.qualname}: expected exactly one complex_exponential(...) of one phase, found "
                                    f"{len(distinct)}")
    phase = next(iter(distinct.values()))
    # the ensemble weights (second element of the pair returned by _unpack_distributions) belong onto the phase
    # factor, not into the phase: exp(-i w (2 pi/lambda) chi) is another function than w exp(-i (2 pi/lambda) chi)
    wat = sorted(a for a in phase.atoms() if _WEIGHTS_ATOM.match(a))
    if wat:
        ctx.violation("R-NAMING", f"{ab.qualname}:phase", ab.where,
                      "the argument of complex_exponential contains the ensemble weights returned by "
                      "_unpack_distributions: for a coefficient distribution with non-unit weights member i evaluates "
                      "exp(-i w_i (2 pi/wavelength) chi) instead of (w_i times) exp(-i (2 pi/wavelength) chi)",
                      key_detail="weights-in-phase")
        phase = phase.subst({a: Poly.const(1) for a in wat})
    found_syms: dict[str, int] = {}
    for mono, coef in sorted(phase.terms.items(), key=lambda kv: str(kv[0])):
        d = decompose(mono, coef, sx.trig, alpha)
        r = check_term(ctx, "R-NAMING", ab.where, ab.qualname, d, sx.trig, phi, table="chi")
        if r:
            found_syms[r[0]] = found_syms.get(r[0], 0) + 1
    ctx.require(bool(found_syms), f"{ab.qualname}: no aberration terms recognised in the phase")
    for sym, k in sorted(found_syms.items()):
        if k != 1:
            ctx.violation("R-NAMING", f"{ab.qualname}:{sym}", ab.where,
                          f"{sym} occurs in {k} different terms of the phase; the expansion has exactly one term per "
                          "magnitude", key_detail="dupterm")
    # returns
    n_main = 0
    for r in results:
        ctx.require(r.value is not None, f"{ab.qualname}: return without value")
        has_factor = any(a == "⟦phase-factor⟧" for a in r.value.atoms())
        if has_factor:
            n_main += 1
            pure = r.value == Poly.atom("⟦phase-factor⟧")
            lin = all(dict(m).get("⟦phase-factor⟧") == 1 for m in r.value.terms) and r.value.is_monomial()
            if pure:
                continue
            if lin:
                continue  # multiplied by distribution weights: listed as undecided
            ctx.violation("R-NAMING", f"{ab.qualname}:return", ab.loc(r.stmt),
                          f"returned value {r.value.key()[:80]} is not the phase factor (times ensemble weights)",
                          key_detail="return")
        else:
            noab = cond_matches(r.conds, _has_aberrations_pred)
            good = r.value == Poly.const(1) and noab is False
            ctx.check(good, "R-NAMING", f"{ab.qualname}:early-return", ab.loc(r.stmt),
                      "returns ones only when no aberration is set",
                      f"a path returns {r.value.key()[:60]} without applying the phase although "
                      f"{'aberrations may be set' if noab is not False else 'the value is not identically one'}",
                      key_detail="early")
    ctx.require(n_main >= 1, f"{ab.qualname}: no return of the phase factor found")
    ctx.ok("R-NAMING", f"{ab.qualname}:phase-factor", ab.where,
           f"complex_exponential(-(2 pi/wavelength) * chi) with {len(found_syms)} magnitude terms returned on {n_main} paths")

    # symbols read == table
    read = set()
    for a in phase.atoms():
        if a.startswith("§"):
            read.add(a[1:])
        if a in sx.trig:
            read |= {x[1:] for x in sx.trig[a][1].atoms() if x.startswith("§")}
    ctx.check(read == symset, "R-SYMBOLS", f"{ab.qualname}:symbols-read", ab.where,
              f"{len(read)} symbols read = keys of polar_symbols",
              f"the phase reads {len(read)} symbols; not read: {sorted(symset - read)}; read but not in polar_symbols: "
              f"{sorted(read - symset)}", key_detail="read")

    # guards, one at a time
    ctx.require(len(guards) >= 1, f"{ab.qualname}: no _nonzero_coefficients guard found")
    for st, listed in guards:
        sxg, _, ceg = execute({id(st)})
        dg = {p.key(): p for p in ceg}
        ctx.require(len(dg) == 1, f"{ab.qualname}: guard {listed}: phase not recognised")
        pg = next(iter(dg.values()))
        used = set()
        for a in pg.atoms():
            if a.startswith("§"):
                used.add(a[1:])
            if a in sxg.trig:
                used |= {x[1:] for x in sxg.trig[a][1].atoms() if x.startswith("§")}
        ctx.require(bool(used), f"{ab.qualname}: guard {listed} contributes no coefficient to the phase")
        unl = sorted(used - set(listed))
        ctx.check(not unl, "R-GUARDCOVER", f"{ab.qualname}:guard({','.join(sorted(used))})", ab.loc(st),
                  f"guard lists {len(listed)} symbols ⊇ {len(used)} used",
                  f"the block guarded by _nonzero_coefficients({listed}) also depends on {unl}: setting only "
                  f"{unl} leaves the guard false and the term is silently dropped", key_detail="cover")
        unk = sorted(set(listed) - symset)
        ctx.check(not unk, "R-GUARDCOVER", f"{ab.qualname}:guard-names({','.join(sorted(used))})", ab.loc(st),
                  "all guard names are polar symbols",
                  f"guard tuple names {unk} which are not keys of the coefficient storage (KeyError at evaluation)",
                  key_detail="names")
    # unguarded execution must not depend on anything (otherwise fine) – informational
    _, _, ce0 = execute(set())
    if ce0 and any(a.startswith("§") for p in ce0 for a in p.atoms()):
        ctx.info("R-GUARDCOVER", f"{ab.qualname}:unguarded", ab.where, "some coefficients are applied unconditionally")

    nzc = repo.method(MOD, "_HasAberrations", "_nonzero_coefficients")
    _check_nonzero(ctx, nzc)
    _check_has_aberrations(ctx, repo.method(MOD, "_HasAberrations", "_has_aberrations"))

    # ---------------- R-DERIV
    _check_spatial(ctx, se, symset, dict_se)

    # ---------------- R-DEFOCUS
    _check_defocus(ctx, repo, aliases)


# ---------------------------------------------------------------------------------------------
def _check_nonzero(ctx, f) -> None:
    ps = f.positional_params
    ctx.require(len(ps) == 2, f"{f.qualname}: expected (self, symbols)")
    loops = [n for n in f.body if isinstance(n, ast.For)]
    comp = [n for n in walk_no_nested(f.node) if isinstance(n, (ast.GeneratorExp, ast.ListComp))]
    if len(loops) == 1 and not comp:
        lp = loops[0]
        whole = isinstance(lp.iter, ast.Name) and lp.iter.id == ps[1]
        var = lp.target.id if isinstance(lp.target, ast.Name) else None
        early_false = [r for r in ast.walk(lp) if isinstance(r, ast.Return) and not (
            isinstance(r.value, ast.Constant) and r.value.value is True)]
        breaks = [b for b in ast.walk(lp) if isinstance(b, (ast.Break,))]
        reads_var = any(isinstance(s, ast.Subscript) and dotted(s.value) == "self._aberration_coefficients"
                        and isinstance(s.slice, ast.Name) and s.slice.id == var for s in ast.walk(lp))
        tail = [s for s in f.body if s is not lp]
        tail_false = bool(tail) and isinstance(tail[-1], ast.Return) and isinstance(tail[-1].value, ast.Constant) and \
            tail[-1].value.value is False
        good = whole and reads_var and not early_false and not breaks and tail_false
        ctx.check(good, "R-GUARDCOVER", f"{f.qualname}:scan", f.where,
                  "every listed symbol is inspected; False only after the whole tuple",
                  f"_nonzero_coefficients does not inspect every symbol of its argument (iterates "
                  f"`{norm_text(lp.iter)}`, early non-True returns {len(early_false)}, breaks {len(breaks)}): a "
                  "coefficient listed late in a guard tuple is ignored and its term dropped", key_detail="scan")
        return
    if len(comp) == 1 and not loops:
        g = comp[0].generators
        whole = len(g) == 1 and isinstance(g[0].iter, ast.Name) and g[0].iter.id == ps[1] and not g[0].ifs
        ctx.check(whole, "R-GUARDCOVER", f"{f.qualname}:scan", f.where, "any(...) over the whole tuple",
                  "_nonzero_coefficients does not inspect every symbol of its argument", key_detail="scan")
        return
    raise AnalysisError(f"{f.qualname}: shape not recognised")


def _check_has_aberrations(ctx, f) -> None:
    """False may be returned only when every stored coefficient compares equal to zero."""
    comps = [n for n in walk_no_nested(f.node) if isinstance(n, (ast.GeneratorExp, ast.ListComp))]
    ctx.require(len(comps) == 1, f"{f.qualname}: expected one comprehension over the stored coefficients")
    c = comps[0]
    g = c.generators
    it = g[0].iter if len(g) == 1 else None
    whole = (isinstance(it, ast.Call) and isinstance(it.func, ast.Attribute) and it.func.attr in ("values", "items")
             and dotted(it.func.value) in ("self._aberration_coefficients", "self.aberration_coefficients")
             and not g[0].ifs)
    cmp_zero = any(isinstance(n, ast.Compare) and len(n.ops) == 1 and isinstance(n.ops[0], (ast.Eq, ast.NotEq))
                   and any(isinstance(x, ast.Constant) and x.value == 0 and not isinstance(x.value, bool)
                           for x in [n.left, n.comparators[0]]) for n in ast.walk(c.elt))
    ctx.check(whole and cmp_zero, "R-NAMING", f"{f.qualname}:all-zero-test", f.where,
              "'no aberrations' means every stored coefficient equals zero",
              f"_has_aberrations does not test every stored coefficient against zero "
              f"(iterates `{norm_text(it) if it is not None else '?'}`): the identity shortcut would be taken although "
              "an aberration is set", key_detail="allzero")


# ---------------------------------------------------------------------------------------------
def _check_spatial(ctx, se, symset, dict_stmt) -> None:
    params = se.positional_params
    alpha, phi = params[1], params[2]
    tables: dict[str, Poly] = {}
    exps: list[Poly] = []

    def after_bind(name, v):
        amps = [[a for a, e in m if a.startswith("§C")] for m in v.terms]
        if v.terms and all(len(x) == 1 for x in amps) and len(v.terms) >= 2:
            tables[name] = v
            return Poly.atom(f"⟦T:{name}⟧")
        return None

    def hook(nz, call):
        if last_attr(call) == "exp" and len(call.args) == 1:
            exps.append(nz.norm(call.args[0]))
            return Poly.atom("⟦envelope⟧")
        return None

    is_pd = lambda value, env: value is dict_stmt.value
    sx = SymExec(se.node, call_hook=hook, is_param_dict=is_pd, after_bind=after_bind)
    sx.run()
    ctx.require(len({p.key() for p in exps}) == 1, f"{se.qualname}: expected one exp(...) envelope")
    arg = exps[0]
    used_tables = sorted({a for a in arg.atoms() if a.startswith("⟦T:")})
    ctx.require(len(used_tables) == 2, f"{se.qualname}: the envelope exponent does not combine two derivative tables "
                                       f"(found {used_tables})")
    kinds = {}
    for ta in used_tables:
        name = ta[3:-1]
        poly = tables[name]
        signs = set()
        syms = {}
        tkinds = set()
        for mono, coef in sorted(poly.terms.items(), key=lambda kv: str(kv[0])):
            d = decompose(mono, coef, sx.trig, alpha)
            kind_here = {sx.trig[t][0] for t, _ in d["trigs"]}
            tkinds |= kind_here
        table = "azimuthal" if tkinds == {"sin"} else "radial"
        if tkinds not in ({"sin"}, {"cos"}):
            raise AnalysisError(f"{se.qualname}: table `{name}` mixes sine and cosine terms")
        for mono, coef in sorted(poly.terms.items(), key=lambda kv: str(kv[0])):
            d = decompose(mono, coef, sx.trig, alpha)
            r = check_term(ctx, "R-DERIV", se.where, f"{se.qualname}:{name}", d, sx.trig, phi, table=table)
            if r:
                syms[r[0]] = syms.get(r[0], 0) + 1
                signs.add(r[1])
        kinds[table] = name
        want = {s for s in symset if s.startswith("C") and (table == "radial" or nm(s)[2] > 0)}
        miss = sorted(want - set(syms))
        dup = sorted(s for s, k in syms.items() if k > 1)
        ctx.check(not miss and not dup, "R-DERIV", f"{se.qualname}:{name}:coverage", se.where,
                  f"{table} table has one term for each of {len(want)} magnitudes",
                  f"{table} derivative table `{name}`: magnitudes without a term {miss}; with several terms {dup}",
                  key_detail="coverage")
        ctx.check(len(signs) <= 1, "R-DERIV", f"{se.qualname}:{name}:common-sign", se.where,
                  "all terms share one sign",
                  f"terms of `{name}` do not share a common sign: the table is not a derivative of the expansion",
                  key_detail="sign")
    ctx.require(set(kinds) == {"radial", "azimuthal"}, f"{se.qualname}: need one radial and one azimuthal table")
    # equal weights of the two squares
    weights = {}
    okshape = True
    for mono, coef in arg.terms.items():
        ts = [(a, e) for a, e in mono if a.startswith("⟦T:")]
        if len(ts) != 1 or ts[0][1] != 2:
            okshape = False
            continue
        rest = tuple((a, e) for a, e in mono if not a.startswith("⟦T:"))
        weights.setdefault(ts[0][0], Poly())
        weights[ts[0][0]] = weights[ts[0][0]] + Poly({rest: coef})
    good = okshape and len(weights) == 2 and len({w.key() for w in weights.values()}) == 1
    ctx.check(good, "R-DERIV", f"{se.qualname}:gradient-norm", se.where,
              "exponent = w * (radial**2 + azimuthal**2)",
              f"the envelope exponent {arg.key()[:100]} is not one weight times the sum of the squares of the two "
              "derivative tables", key_detail="norm")


# ---------------------------------------------------------------------------------------------
class _C10Norm(Normalizer):
    def norm(self, n):
        if _is_c10(n):
            return Poly.atom("C10")
        return super().norm(n)


def _c10_term(expr: ast.expr, value_param=None):
    """Sign with which `expr` depends on C10 (reads) or on the setter parameter: +1 / -1 / None."""
    p = _C10Norm(identity_calls={"validate_distribution"}).norm(expr)
    atom = "C10" if value_param is None else value_param
    for sign in (1, -1):
        if p == Poly.atom(atom) * Poly.const(sign):
            return sign
    return None


def _is_c10(e: ast.expr) -> bool:
    if dotted(e) == "self.C10":
        return True
    if isinstance(e, ast.Subscript) and dotted(e.value) in ("self._aberration_coefficients",) and isinstance(
            e.slice, ast.Constant) and e.slice.value == "C10":
        return True
    if isinstance(e, ast.Call) and isinstance(e.func, ast.Attribute) and e.func.attr == "get" and dotted(
            e.func.value) == "self._aberration_coefficients" and e.args and isinstance(e.args[0], ast.Constant) and \
            e.args[0].value == "C10":
        return True
    return False


def _check_defocus(ctx, repo, aliases) -> None:
    mod = repo.module(MOD)
    n = 0
    for c in mod.classes.values():
        g, s = c.own_method("defocus", "getter"), c.own_method("defocus", "setter")
        if g is None and s is None:
            continue
        if not (c.is_subclass_of("_HasAberrations")):
            continue
        n += 1
        if g is not None:
            rets = [r for r in walk_no_nested(g.node) if isinstance(r, ast.Return) and r.value is not None]
            ctx.require(len(rets) == 1, f"{g.qualname}: expected one return")
            sg = _c10_term(rets[0].value)
            ctx.require(sg is not None, f"{g.qualname}: return value `{norm_text(rets[0].value)}` is not +-C10")
            ctx.check(sg == -1, "R-DEFOCUS", f"{g.qualname}:getter", g.where, "returns -C10",
                      f"defocus getter returns `{norm_text(rets[0].value)}` = +C10; defocus is the negative of C10",
                      key_detail="getter")
        if s is not None:
            vp = s.positional_params[1]
            asg = [a for a in walk_no_nested(s.node) if isinstance(a, ast.Assign) and any(_is_c10(t) for t in a.targets)]
            ctx.require(len(asg) == 1, f"{s.qualname}: expected one store into C10")
            ss = _c10_term(asg[0].value, vp)
            ctx.require(ss is not None, f"{s.qualname}: stored value `{norm_text(asg[0].value)}` is not +-{vp}")
            ctx.check(ss == -1, "R-DEFOCUS", f"{s.qualname}:setter", s.where, "stores C10 = -value",
                      f"defocus setter stores `{norm_text(asg[0])}`: C10 = +value; defocus is the negative of C10",
                      key_detail="setter")
        ctx.check(g is not None and s is not None, "R-DEFOCUS", f"{c.qualname}.defocus:pair", c.where,
                  "getter and setter defined together",
                  f"{c.name} overrides only the defocus {'getter' if g else 'setter'}: a property re-declared in a "
                  "subclass without the other accessor replaces the inherited one with nothing", key_detail="pair")
    ctx.require(n >= 1, "no defocus property found on a _HasAberrations class")

    # alias resolution in __getattr__ / __setattr__
    for mname in ("__getattr__", "__setattr__"):
        f = repo.method(MOD, "_HasAberrations", mname)
        namep = f.positional_params[1]
        df = DataFlow(f.node)
        acc = []
        for node in df.cfg.nodes:
            st = node.ast
            if st is None or node.kind not in ("stmt",):
                continue
            for x in walk_no_nested(st):
                key = None
                if isinstance(x, ast.Subscript) and dotted(x.value) == "self._aberration_coefficients":
                    key = x.slice
                elif isinstance(x, ast.Call) and isinstance(x.func, ast.Attribute) and x.func.attr in (
                        "get", "__getitem__", "__setitem__", "setdefault") and dotted(
                        x.func.value) == "self._aberration_coefficients" and x.args:
                    key = x.args[0]
                if key is not None:
                    acc.append((node, st, key))
        ctx.require(len(acc) >= 1, f"{f.qualname}: no access to the coefficient storage found")
        for node, st, key in acc:
            good = False
            if isinstance(key, ast.Name):
                d = df.single_def(node.idx, key.id)
                if d is not None and d.kind == "assign" and isinstance(d.value, ast.Call) and \
                        call_name(d.value) == "polar_aliases.get" and len(d.value.args) == 2 and \
                        all(isinstance(a, ast.Name) and a.id == namep for a in d.value.args):
                    # the arguments must be the incoming name, not an earlier rebinding
                    rd = df.reaching(d.node, namep)
                    good = len(rd) == 1 and rd[0].kind == "param"
            ctx.check(good, "R-DEFOCUS", f"{f.qualname}:alias-resolution", f.loc(st),
                      "storage key = polar_aliases.get(name, name)",
                      f"`{norm_text(st)[:70]}` accesses the coefficient storage with a key that is not the "
                      "alias-resolved attribute name: aliases and symbols would address different entries",
                      key_detail="resolve")
        if mname == "__setattr__" and aliases.get("defocus") == "C10":
            cfg = df.cfg

            def polarity(node, label):
                st = node.ast
                if not isinstance(st, ast.If):
                    return None
                t = st.test
                if isinstance(t, ast.Compare) and len(t.ops) == 1 and isinstance(t.ops[0], (ast.Eq, ast.NotEq)):
                    a, b = t.left, t.comparators[0]
                    for x, y in ((a, b), (b, a)):
                        if isinstance(x, ast.Name) and x.id == namep and isinstance(y, ast.Constant) and \
                                y.value == "defocus":
                            if len(df.reaching(node.idx, namep)) == 1 and df.reaching(node.idx, namep)[0].kind == "param":
                                eq = isinstance(t.ops[0], ast.Eq)
                                return "is" if (label == "T") == eq else "isnot"
                return None

            def transfer(node, state, label, succ):
                if node.kind == "test":
                    p = polarity(node, label)
                    if p is not None:
                        return p
                return state

            at = forward_states(cfg, "unknown", transfer)
            for node, st, key in acc:
                states = at[node.idx]
                ctx.check(states <= {"isnot"}, "R-DEFOCUS", f"{f.qualname}:defocus-diverted", f.loc(st),
                          "the alias store is unreachable for name == 'defocus'",
                          "a path reaches the alias-resolved store with name == 'defocus' possible: `obj.defocus = v` "
                          "would store C10 = +v through the alias table instead of C10 = -v through the property",
                          key_detail="divert")
            # the diverted branch must delegate to the normal attribute protocol
            div = [n.ast for n in cfg.nodes if n.kind == "test" and polarity(n, "T") == "is"]
            for t in div:
                calls = [c for s in t.body for c in ast.walk(s) if isinstance(c, ast.Call) and isinstance(
                    c.func, ast.Attribute) and c.func.attr == "__setattr__"]
                ctx.check(bool(calls), "R-DEFOCUS", f"{f.qualname}:defocus-delegated", f.loc(t),
                          "name == 'defocus' is delegated to the property setter",
                          "the 'defocus' branch does not call the inherited __setattr__: the property setter "
                          "(C10 = -value) never runs", key_detail="delegate")


# ---- added after the seeded change C21-r3seed6: coefficients are stored as given
_inner_run_c21 = run


def run(ctx) -> None:  # noqa: F811
    import ast as _ast

    from ..cfg import DataFlow as _DF
    from ..model import call_name as _cn, dotted as _dotted, norm_text as _nt, walk_no_nested as _walk

    ctx.rule("R-STOREDASGIVEN", "`_HasAberrations.__setattr__` stores the value it is given under the canonical symbol "
             "unchanged — every reaching definition of the stored expression is the `value` parameter, possibly "
             "through validate_distribution — and `__getattr__` returns the stored entry unchanged.  The phase is "
             "chi(alpha, phi) *for the given coefficients*: a setter that rewrites an angle (wrapping it with a period "
             "taken from the wrong digit of the symbol) evaluates a different aberration than the one that was set")
    repo = ctx.repo
    k = repo.cls("abtem.transfer", "_HasAberrations")
    f = k.own_method("__setattr__")
    ctx.require(f is not None and len(f.positional_params) == 3, "_HasAberrations.__setattr__(self, name, value) not found")
    vparam = f.positional_params[2]
    df = _DF(f.node)
    stores = [st for st in _walk(f.node) if isinstance(st, _ast.Assign) and isinstance(st.targets[0], _ast.Subscript)
              and (_dotted(st.targets[0].value) or "").endswith("_aberration_coefficients")]
    ctx.require(len(stores) >= 1, f"{f.qualname}: store into _aberration_coefficients not found")

    def origins(e, at, depth=0):
        """set of 'param' / text of non-identity expressions the value can come from"""
        if depth > 8:
            return {"<deep>"}
        while isinstance(e, _ast.Call) and (_cn(e) or "").split(".")[-1] in ("validate_distribution",) and e.args:
            e = e.args[0]
        if isinstance(e, _ast.Name):
            out = set()
            for d in df.reaching(at, e.id):
                if d.kind == "param":
                    out.add("param" if e.id == vparam else f"<param {e.id}>")
                elif d.kind == "assign" and d.value is not None:
                    out |= origins(d.value, d.node, depth + 1)
                else:
                    out.add(f"<{d.kind}>")
            return out or {f"<{e.id}>"}
        return {_nt(e)[:60]}

    for st in stores:
        got = origins(st.value, df.cfg.node_of(st).idx)
        ctx.check(got == {"param"}, "R-STOREDASGIVEN", f"{f.qualname}:stored value", f.loc(st),
                  "the stored coefficient is the given value (through validate_distribution only)",
                  f"the stored coefficient can be `{sorted(got - {'param'})[0] if got - {'param'} else ''}` instead of the "
                  "given value: the object then evaluates chi for other coefficients than the ones that were set",
                  key_detail="stored")
    _inner_run_c21(ctx)


# ---- added after the mutation sweep: the polar angle and the azimuth reach the expansion in their own places
_inner_run_c21b = run

_EVAL = "_evaluate_from_angular_grid"
_POLAR, _AZIMUTH = "polar angle", "azimuth"
_RESHAPE_CALLS = {"array", "asarray", "asanyarray", "ascontiguousarray", "astype", "expand_dims", "squeeze", "copy",
                  "float32", "float64", "broadcast_to", "reshape"}


class _AngleRoles:
    """Role (polar angle / azimuth / unknown) of an expression, by the origin of its value.

    Origins: position 1 / 2 of any `_evaluate_from_angular_grid` definition (the interface fixed by the abstract
    method of BaseTransferFunction), a magnitude `sqrt(..)` / `hypot(..)` resp. an `arctan2(..)`, and the i-th
    element of the pair returned by a function of the package whose returned elements have such a role.
    Scaling (x * c, x / c, x *= c), casts and reshapes keep the role."""

    def __init__(self, repo):
        self.repo = repo
        self._ret: dict[str, list] = {}
        self._df: dict[int, DataFlow] = {}

    def df(self, f) -> DataFlow:
        if id(f.node) not in self._df:
            self._df[id(f.node)] = DataFlow(f.node)
        return self._df[id(f.node)]

    def callee(self, f, call: ast.Call):
        fn = call.func
        if isinstance(fn, ast.Attribute) and isinstance(fn.value, ast.Name) and fn.value.id == "self" and f.cls is not None:
            return f.cls.find_method(fn.attr)
        name = dotted(fn)
        if name and "." not in name:
            try:
                t = self.repo.resolve_name(f.module, name)
            except Exception:
                return None
            return t if hasattr(t, "positional_params") else None
        return None

    def returned(self, f) -> list:
        """roles of the elements of the tuple `f` returns (empty list when f does not return one fixed-length tuple)"""
        q = f.qualname
        if q in self._ret:
            return self._ret[q]
        self._ret[q] = []  # recursion guard
        rets = [r for r in walk_no_nested(f.node) if isinstance(r, ast.Return) and r.value is not None]
        out: list = []
        if rets and all(isinstance(r.value, ast.Tuple) for r in rets) and len({len(r.value.elts) for r in rets}) == 1:
            df = self.df(f)
            cols = []
            for i in range(len(rets[0].value.elts)):
                rs = {self.role(f, df.cfg.node_of(r).idx, r.value.elts[i]) for r in rets}
                cols.append(rs.pop() if len(rs) == 1 else None)
            out = cols
        self._ret[q] = out
        return out

    def role(self, f, at: int, e: ast.expr, depth: int = 0):
        if depth > 10:
            return None
        if isinstance(e, ast.Call):
            s = last_attr(e)
            if s in ("sqrt", "hypot"):
                return _POLAR
            if s == "arctan2":
                return _AZIMUTH
            if s in _RESHAPE_CALLS:
                if e.args:
                    return self.role(f, at, e.args[0], depth + 1)
                if isinstance(e.func, ast.Attribute):
                    return self.role(f, at, e.func.value, depth + 1)
            return None
        if isinstance(e, ast.Subscript):
            items = e.slice.elts if isinstance(e.slice, ast.Tuple) else [e.slice]
            if all(isinstance(i, ast.Slice) or (isinstance(i, ast.Constant) and i.value in (None, Ellipsis)) for i in items):
                return self.role(f, at, e.value, depth + 1)
            return None
        if isinstance(e, ast.BinOp) and isinstance(e.op, (ast.Mult, ast.Div)):
            l, r = self.role(f, at, e.left, depth + 1), self.role(f, at, e.right, depth + 1)
            if isinstance(e.op, ast.Div):
                return l if r is None else None
            return l if r is None else (r if l is None else None)
        if isinstance(e, ast.Name):
            df = self.df(f)
            roles = set()
            for d in df.reaching(at, e.id):
                if d.kind == "aug":
                    st = df.cfg.nodes[d.node].ast
                    if isinstance(st, ast.AugAssign) and isinstance(st.op, (ast.Mult, ast.Div)) and \
                            self.role(f, d.node, st.value, depth + 1) is None:
                        continue  # scaling: the role is that of the definitions it updates
                    return None
                if d.kind == "param":
                    pp = f.positional_params
                    if f.name == _EVAL and e.id in pp and pp.index(e.id) in (1, 2):
                        roles.add(_POLAR if pp.index(e.id) == 1 else _AZIMUTH)
                    else:
                        roles.add(None)
                    continue
                if d.kind != "assign" or d.value is None:
                    roles.add(None)
                    continue
                st = df.cfg.nodes[d.node].ast
                tg = st.targets[0] if isinstance(st, ast.Assign) and len(st.targets) == 1 else None
                if isinstance(tg, (ast.Tuple, ast.List)) and not isinstance(st.value, (ast.Tuple, ast.List)):
                    idx = [i for i, t in enumerate(tg.elts) if isinstance(t, ast.Name) and t.id == e.id]
                    r = None
                    src = st.value
                    hops = 0
                    while isinstance(src, ast.Name) and hops < 4:  # pair kept in a temporary before it is unpacked
                        sd = df.single_def(d.node, src.id)
                        src = sd.value if sd is not None and sd.kind == "assign" else None
                        hops += 1
                    if len(idx) == 1 and isinstance(src, ast.Call):
                        g = self.callee(f, src)
                        if g is not None:
                            rr = self.returned(g)
                            if len(rr) == len(tg.elts):
                                r = rr[idx[0]]
                    roles.add(r)
                else:
                    roles.add(self.role(f, d.node, d.value, depth + 1))
            return roles.pop() if len(roles) == 1 else None
        return None


def _angle_forwarding(ctx) -> None:
    repo = ctx.repo
    mod = repo.module(MOD)
    base = repo.method(MOD, "BaseTransferFunction", _EVAL)
    formal = base.positional_params
    ctx.require(len(formal) >= 3, f"{base.qualname}: expected (self, polar angle, azimuth)")
    R = _AngleRoles(repo)
    # the provider of the angular grid must be readable, otherwise the chain has no root
    psf = repo.function("abtem.core.grid", "polar_spatial_frequencies")
    ctx.require(R.returned(psf) == [_POLAR, _AZIMUTH],
                f"{psf.qualname}: does not visibly return (magnitude, arctan2) — roles {R.returned(psf)}")
    funcs = list(mod.functions.values()) + [f for c in mod.classes.values() for defs in c.methods.values() for f in defs]
    n_rooted = 0
    for f in funcs:
        calls = [c for c in walk_no_nested(f.node) if isinstance(c, ast.Call) and isinstance(c.func, ast.Attribute)
                 and c.func.attr == _EVAL]
        if not calls:
            continue
        df = R.df(f)
        seen: dict[str, int] = {}
        for c in sorted(calls, key=lambda c: (c.lineno, c.col_offset)):
            recv = dotted(c.func.value) or ""
            label = recv if recv == "self" or recv.startswith("self.") else "<component>"
            seen[label] = seen.get(label, 0) + 1
            construct = f"{f.qualname}:{label}.{_EVAL}" + (f"#{seen[label]}" if seen[label] > 1 else "")
            if any(isinstance(a, ast.Starred) for a in c.args) or any(k.arg is None for k in c.keywords):
                raise AnalysisError(f"{f.qualname}: call of {_EVAL} with */** arguments is not modelled")
            bound: dict[int, ast.expr] = {i + 1: a for i, a in enumerate(c.args)}
            for k in c.keywords:
                if k.arg in formal:
                    bound[formal.index(k.arg)] = k.value
            ctx.require(1 in bound and 2 in bound, f"{f.qualname}: call of {_EVAL} does not pass both angles")
            at = None
            for nd in df.cfg.nodes:
                if nd.ast is not None and nd.kind not in ("entry", "exit") and any(x is c for x in ast.walk(
                        nd.ast.test if isinstance(nd.ast, (ast.If, ast.While)) else
                        nd.ast.iter if isinstance(nd.ast, ast.For) else nd.ast)):
                    at = nd.idx
                    break
            ctx.require(at is not None, f"{f.qualname}: call of {_EVAL} has no CFG node")
            got = {pos: R.role(f, at, bound[pos]) for pos in (1, 2)}
            want = {1: _POLAR, 2: _AZIMUTH}
            if got[1] is None and got[2] is None:
                ctx.info("R-ANGLEFWD", construct, f.loc(c), "angles of unknown origin (user-supplied samples)")
                continue
            n_rooted += 1
            bad = [pos for pos in (1, 2) if got[pos] is not None and got[pos] != want[pos]]
            ctx.check(not bad, "R-ANGLEFWD", construct, f.loc(c),
                      "polar angle -> position 1, azimuth -> position 2",
                      "; ".join(f"the {got[p]} is passed in the place of the {want[p]}" for p in bad) +
                      ": the expansion is evaluated as chi(phi, alpha)", key_detail="roles")
    ctx.require(n_rooted >= 3, f"R-ANGLEFWD rooted only {n_rooted} calls of {_EVAL}")
    # the grid method that feeds _evaluate_kernel
    ag = repo.method(MOD, "BaseTransferFunction", "_angular_grid")
    rr = R.returned(ag)
    ctx.require(len(rr) == 2 and None not in rr, f"{ag.qualname}: returned pair not traced to the polar grid ({rr})")
    ctx.check(rr == [_POLAR, _AZIMUTH], "R-ANGLEFWD", f"{ag.qualname}:returned pair", ag.where,
              "returns (polar angle, azimuth)", f"returns ({rr[0]}, {rr[1]}): every caller unpacks (alpha, phi)",
              key_detail="grid")


def run(ctx) -> None:  # noqa: F811
    ctx.rule("R-ANGLEFWD", "origin tracking of the two angles through abtem/transfer.py: the polar angle (a magnitude "
             "sqrt/hypot of the frequencies, scaled by the wavelength; position 1 of every "
             "_evaluate_from_angular_grid) and the azimuth (arctan2; position 2) are handed on in their own places "
             "at every call of _evaluate_from_angular_grid — from _angular_grid through _evaluate_kernel and from "
             "the CTF to its components.  chi(alpha, phi) evaluated with the two exchanged is another function")
    _angle_forwarding(ctx)
    _inner_run_c21b(ctx)


# ---- added after the seeded change C21-r7seed3: `defocus = -C10` member by member also for distributions
_inner_run_c21_r7 = run


def run(ctx) -> None:  # noqa: F811
    from ..model import AnalysisError as _AE
    from . import c36

    ctx.rule("R-NEG", "(shared with C36; the rule lives in c36) the defocus alias is stored as C10 = -defocus and read "
             "back as -C10.  For a defocus given as a distribution the unary minus is DistributionFromValues.__neg__ / "
             "MultidimensionalDistribution.__neg__: the result must hold values = -values in the same order, with the "
             "receiver's weights and ensemble_mean (term normal forms of the constructor arguments; a reversal or "
             "re-ordering such as `values[::-1]` is a different term).  Otherwise member i of the aberration function "
             "is evaluated with the defocus of another member")
    pending = None
    try:
        repo = ctx.repo
        cls = repo.cls(c36.MOD, c36.DFV)
        neg = repo.method(c36.MOD, c36.DFV, "__neg__")
        n = 0
        for detail, ok, good, bad, node in c36.operator_contract(repo, cls, neg):
            n += 1
            ctx.check(ok, "R-NEG", f"{neg.qualname}:{detail}", neg.loc(node), good, bad, key_detail=detail)
        ctx.require(n >= 3, f"R-NEG examined only {n} constructor fields")
        c36._check_multi_neg(ctx, repo, repo.cls(c36.MOD, c36.MULTI))
    except _AE as e:
        pending = e
    _inner_run_c21_r7(ctx)
    if pending is not None:
        raise pending
