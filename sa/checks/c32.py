"""C32 — API calls do not modify caller-owned inputs (ownership / effect analysis)."""
from __future__ import annotations

import ast

from ..cfg import DataFlow
from ..model import FuncInfo, dotted, norm_text, walk_no_nested
from ..rules import own as ownmod

# direct mutation sites that are accepted, one line of reason each: (function qualname) -> reason
EXCEPTIONS = {
    "abtem.magnetism.utils.set_magnetic_moments":
        "setter by contract: its purpose is to attach magnetic moments to the given atoms and return them",
    "abtem.inelastic.phonons._safe_read_atoms":
        "GPAW-only helper that detaches calculator/constraints from atoms taken out of a GPAW calculator; not one "
        "of the API entry points the property lists and not exercisable without GPAW",
    "abtem.potentials.gpaw.GPAWPotential.__init__":
        "GPAW-only: detaches the calculator from the frozen phonons' atoms; not one of the API entry points the "
        "property lists",
}

# receiver-state writers of array objects that are in-place by contract
RECEIVER_WRITERS_ALLOWED = {
    "abtem.array.ArrayObject.__init__": "constructor",
    "abtem.array.ArrayObject.array": "the array setter is the documented way to replace the data",
    "abtem.array.ArrayObject.set_ensemble_axes_metadata": "in-place by contract (sets one axis entry, returns self)",
    "abtem.waves.Waves.metadata": "idempotent refresh of the derived keys energy/reciprocal_space on read",
}
RECV = ("self.metadata", "self._metadata", "self.array", "self._array", "self._ensemble_axes_metadata",
        "self.ensemble_axes_metadata", "self.axes_metadata", "self._eager_array", "self._lazy_array")
DICT_LIST_MUTATORS = {"update", "pop", "setdefault", "clear", "append", "insert", "extend", "__setitem__", "fill",
                      "popitem", "remove", "sort", "reverse", "itemset", "put", "resize"}


def receiver_writes(f: FuncInfo):
    """Statements of method `f` that write the receiver's array / metadata / axes metadata, directly or
    through a local alias of them."""
    df = DataFlow(f.node)

    def aliases_receiver(name: str, at: int, seen=()) -> bool:
        for d in df.reaching(at, name):
            if d.kind == "assign" and d.value is not None:
                v = d.value
                if dotted(v) in RECV:
                    return True
                if isinstance(v, ast.Name) and v.id not in seen and aliases_receiver(v.id, d.node, seen + (name,)):
                    return True
        return False

    out = []
    for node in df.cfg.nodes:
        st = node.ast
        if st is None or node.kind != "stmt":
            continue
        tgts = []
        if isinstance(st, ast.Assign):
            tgts = st.targets
        elif isinstance(st, ast.AugAssign):
            tgts = [st.target]
        elif isinstance(st, ast.Delete):
            tgts = st.targets
        for t in tgts:
            base = t
            while isinstance(base, ast.Subscript):
                base = base.value
            d = dotted(base)
            if d in RECV:
                out.append(st)
            elif isinstance(base, ast.Name) and (t is not base or isinstance(st, ast.AugAssign)) and \
                    aliases_receiver(base.id, node.idx):
                out.append(st)
        for c in walk_no_nested(st):
            if isinstance(c, ast.Call) and isinstance(c.func, ast.Attribute) and c.func.attr in DICT_LIST_MUTATORS:
                b = c.func.value
                while isinstance(b, ast.Subscript):
                    b = b.value
                if dotted(b) in RECV or (isinstance(b, ast.Name) and aliases_receiver(b.id, node.idx)):
                    out.append(st)
            if isinstance(c, ast.Call):
                for k in c.keywords:
                    if k.arg == "out" and (dotted(k.value) in RECV or (
                            isinstance(k.value, ast.Name) and aliases_receiver(k.value.id, node.idx))):
                        out.append(st)
    return out


def run(ctx) -> None:
    repo = ctx.repo
    ctx.rule("R-OWN-ATOMS", ownmod.__doc__.split("\n\n", 1)[1] + " A mutation site whose receiver may be borrowed from an "
             "Atoms-typed parameter, from Atoms stored without a copy by a constructor, or from `<obj>.atoms` / "
             "`<obj>.trajectory` of another object is a violation; a public function whose summary mutates an "
             "Atoms-typed parameter (through any chain of package calls) is a violation.")
    ctx.rule("R-OWN-RECEIVER", "methods of measurement classes, Waves and ArrayObject do not write the receiver's "
             "array, metadata or axes metadata (directly, through a local alias, through dict/list mutators or "
             "`out=`), except the constructor, the array setter, set_ensemble_axes_metadata and the idempotent "
             "Waves.metadata refresh")
    ctx.assume("ase.Atoms.__getitem__, .copy(), .repeat() and arithmetic return new objects; atoms.positions/.cell/"
               ".numbers are views of the object's storage")
    ctx.undecided("mutation through objects the analysis cannot resolve (third-party callees); aliasing between "
                  "different caller inputs")

    o = ownmod.Ownership(repo)
    rounds = o.solve()
    ctx.extra["ownership_fixpoint_rounds"] = rounds
    ctx.extra["functions_summarised"] = len(o.funcs)

    # caller-owned storage per class
    owned_attr: set[tuple[str, str]] = set()
    for c in repo.all_classes():
        for a in o.caller_owned_attrs(c):
            for k in c.mro():
                owned_attr.add((k.name, a))
            for k in repo.subclasses(c):
                owned_attr.add((k.name, a))

    def atoms_roots(f: FuncInfo, roots) -> list:
        out = []
        for r in roots:
            if r[0] == "param" and ownmod.is_atoms_param(f, r[2]):
                out.append(r)
            elif r[0] == "stored":
                out.append(r)
            elif r[0] == "attr" and (r[1], r[2]) in owned_attr:
                out.append(r)
        return out

    n_sites = 0
    n_funcs_with_atoms = 0
    for f in o.funcs:
        s = o.summ[id(f)]
        atoms_params = [p for p in f.params if ownmod.is_atoms_param(f, p)]
        if atoms_params:
            n_funcs_with_atoms += 1
        direct = [(node, what, roots) for node, what, roots in s.sites if "(callee " not in what]
        flagged = False
        for node, what, roots in direct:
            ar = atoms_roots(f, roots)
            if not ar:
                continue
            n_sites += 1
            if f.qualname in EXCEPTIONS:
                ctx.info("R-OWN-ATOMS", f"{f.qualname}:{what}", f.loc(node), "excepted: " + EXCEPTIONS[f.qualname])
                continue
            flagged = True
            origin = "; ".join(_describe(r) for r in ar)
            ctx.violation("R-OWN-ATOMS", f"{f.qualname}:{what}", f.loc(node),
                          f"`{what}` modifies in place an object that may be {origin} (no dominating copy)",
                          key_detail="")
        # API-level: public functions must not mutate Atoms parameters through callees either
        public = not f.name.startswith("_") or f.name == "__init__"
        if atoms_params and public and f.qualname not in EXCEPTIONS:
            mp = [r for r in s.mutates if r[0] == "param" and r[2] in atoms_params]
            via = [(node, what) for node, what, roots in s.sites if "(callee " in what
                   and any(r in roots for r in mp)]
            if mp and not flagged:
                node, what = via[0] if via else (f.node, "?")
                ctx.violation("R-OWN-ATOMS", f"{f.qualname}:param {mp[0][2]}", f.loc(node),
                              f"{f.short} passes its caller's `{mp[0][2]}` to a callee that modifies it: {what}",
                              key_detail="via-callee")
            elif not mp:
                ctx.ok("R-OWN-ATOMS", f"{f.qualname}:param {','.join(atoms_params)}", f.where,
                       "no path modifies the caller's Atoms argument")
    ctx.require(n_funcs_with_atoms >= 25, f"only {n_funcs_with_atoms} functions with Atoms parameters found")
    ctx.extra["atoms_mutation_sites_examined"] = n_sites
    # positive control: the analysis must see a mutation of a borrowed parameter in a tiny example
    ctrl_src = "def f(atoms):\n    cell = atoms.cell\n    cell[0] = 0\n    atoms.wrap()\n    b = atoms.copy()\n    b.wrap()\n"
    from ..model import ModuleInfo
    from pathlib import Path
    tree = ast.parse(ctrl_src)
    cm = ModuleInfo(name="control", path=Path("control.py"), relpath="control.py", tree=tree, source=ctrl_src)
    cf = FuncInfo(cm, tree.body[0])
    o.funcs.append(cf)
    o.summ[id(cf)] = ownmod.Summary()
    o.analyse(cf)
    got = sorted(w for _, w, r in o.summ[id(cf)].sites)
    ctx.require(len(got) == 2 and all("control.f" in str(r) for _, _, rs in o.summ[id(cf)].sites for r in rs),
                f"R-OWN-ATOMS positive control failed: {got}")

    # ---------------- R-OWN-RECEIVER
    ao = repo.cls("abtem.array", "ArrayObject")
    bm = repo.cls("abtem.measurements", "BaseMeasurements")
    wv = repo.cls("abtem.waves", "Waves")
    classes = [c for c in repo.all_classes() if bm in c.mro() or c in (ao, wv)]
    ctx.require(len(classes) >= 9, "measurement classes not found")
    nmeth = 0
    for c in classes:
        for name, defs in c.methods.items():
            for f in defs:
                nmeth += 1
                ws = receiver_writes(f)
                if not ws:
                    continue
                key = f.qualname
                if key in RECEIVER_WRITERS_ALLOWED or f.is_setter and f"{key}" in RECEIVER_WRITERS_ALLOWED:
                    ctx.ok("R-OWN-RECEIVER", key, f.where, "allowed in-place writer: " + RECEIVER_WRITERS_ALLOWED[key])
                    continue
                for st in ws:
                    ctx.violation("R-OWN-RECEIVER", f"{key}:{norm_text(st)[:60]}", f.loc(st),
                                  f"`{norm_text(st)[:80]}` writes the receiver's state: calling {f.short}() changes "
                                  "the measurement it was called on", key_detail="")
    ctx.ok("R-OWN-RECEIVER", "scan", ao.where, f"{nmeth} methods of {len(classes)} array-object classes scanned")
    # positive control
    ctrl = ast.parse("def m(self):\n    a = self.array\n    a[0] = 1\n    self.metadata['x'] = 1\n    b = self.array.copy()\n    b[0] = 2\n")
    cfun = FuncInfo(cm, ctrl.body[0])
    ctx.require(len(receiver_writes(cfun)) == 2, "R-OWN-RECEIVER positive control failed")


def _describe(r) -> str:
    if r[0] == "param":
        return f"the caller's argument `{r[2]}`"
    if r[0] == "stored":
        return f"the Atoms another object holds under `.{r[1]}` (stored without a copy)"
    return f"the caller-owned Atoms stored in self.{r[2]}"


# ---- added after the seeded change C32-r3seed6: in-place FFTs never run on the receiver's own array
_inner_run_c32 = run


def run(ctx) -> None:  # noqa: F811
    from . import c38

    ctx.rule("R-OWN", "(the rule of C38, kept for the measurement classes) a measurement method that requests an "
             "in-place FFT — a literal overwrite_x=True, directly or through functions that hand their parameter on, "
             "including through astype(..., copy=False), which returns the array itself when the dtype matches — "
             "passes an array that is fresh in the method, never the receiver's own `self.array`: otherwise "
             "images.interpolate(...) leaves the receiver holding its Fourier transform")
    from ..report import OnlyConstructs

    c38._own(OnlyConstructs(ctx, ("abtem.measurements.",)), ctx.repo)
    _inner_run_c32(ctx)


# ---- added after the mutation sweep: what a method writes into its result is not the receiver's metadata
_inner_run_c32_sweep = run

_OPERATOR_METHODS = {ast.Sub: "__sub__", ast.Add: "__add__", ast.Mult: "__mul__", ast.Div: "__truediv__",
                     ast.Pow: "__pow__"}
_META = ("metadata", "_metadata")


def _meta_expr_fresh(f: FuncInfo, df: DataFlow, at: int, e: ast.expr, depth: int = 0):
    """True: a new dict; False: the receiver's own dict; None: not decided."""
    if depth > 6:
        return None
    d = dotted(e)
    if d in ("self.metadata", "self._metadata"):
        return False
    if isinstance(e, (ast.Dict, ast.DictComp)):
        return True
    if isinstance(e, ast.Constant) and e.value is None:
        return True  # the constructor then creates an empty dict
    if isinstance(e, ast.Call):
        cn = (dotted(e.func) or "")
        if cn.split(".")[-1] in ("deepcopy", "dict") or (cn.split(".")[-1] == "copy" and (e.args or isinstance(
                e.func, ast.Attribute))):
            return True
        return None
    if isinstance(e, ast.Name):
        res = []
        for dd in df.reaching(at, e.id):
            if dd.kind != "assign" or dd.value is None:
                return None
            res.append(_meta_expr_fresh(f, df, dd.node, dd.value, depth + 1))
        if False in res:
            return False
        return True if res and all(r is True for r in res) else None
    return None


def _result_metadata(cls, m: FuncInfo, depth: int = 0):
    """Does the object returned by method `m` carry a metadata dict of its own?  (True / False / None=undecided, text)"""
    if depth > 4:
        return None, "delegation too deep"
    df = DataFlow(m.node)
    rets = [r for r in walk_no_nested(m.node) if isinstance(r, ast.Return) and r.value is not None]
    if not rets:
        return None, "no return value"
    verdicts = []
    for r in rets:
        at = df.cfg.node_of(r).idx
        v = r.value
        hops = 0
        while isinstance(v, ast.Name) and hops < 4:
            d = df.single_def(at, v.id)
            if d is None or d.value is None:
                break
            v, at, hops = d.value, d.node, hops + 1
        if dotted(v) == "self":
            verdicts.append((False, "returns the receiver itself"))
            continue
        if not isinstance(v, ast.Call):
            verdicts.append((None, f"returns `{norm_text(v)[:40]}`"))
            continue
        fn = dotted(v.func) or ""
        is_ctor = fn in ("self.__class__", "cls") or (isinstance(v.func, ast.Call) and dotted(v.func.func) == "type") or (
            fn and fn[0].isupper() and "." not in fn)
        if not is_ctor:
            if fn.startswith("self.") and fn.count(".") == 1:
                callee = cls.find_method(fn[5:])
                if callee is not None and callee.node is not m.node:
                    verdicts.append(_result_metadata(cls, callee, depth + 1))
                    continue
            verdicts.append((None, f"returns `{norm_text(v)[:40]}`"))
            continue
        # constructor call: explicit metadata=..., or **kwargs built from _copy_kwargs
        explicit = next((k.value for k in v.keywords if k.arg == "metadata"), None)
        if explicit is not None:
            verdicts.append((_meta_expr_fresh(m, df, at, explicit), f"metadata={norm_text(explicit)[:40]}"))
            continue
        stars = [k.value for k in v.keywords if k.arg is None]
        if len(stars) != 1 or not isinstance(stars[0], ast.Name):
            verdicts.append((None, f"constructor call `{norm_text(v)[:50]}`"))
            continue
        kwname = stars[0].id
        base = None  # the dict comes from self._copy_kwargs(...): deep copies of every constructor argument
        for d in df.reaching(at, kwname):
            if d.kind == "assign" and d.strong and isinstance(d.value, ast.Call) and (dotted(d.value.func) or "").endswith(
                    "._copy_kwargs") and (dotted(d.value.func) or "").startswith("self."):
                base = True if base in (None, True) else base
            elif d.kind in ("store", "call"):
                continue
            else:
                base = False
        stores = []
        for st in walk_no_nested(m.node):
            if isinstance(st, ast.Assign) and isinstance(st.targets[0], ast.Subscript) and dotted(
                    st.targets[0].value) == kwname and isinstance(st.targets[0].slice, ast.Constant) and \
                    st.targets[0].slice.value == "metadata":
                stores.append(st)
            if isinstance(st, ast.Expr) and isinstance(st.value, ast.Call) and isinstance(st.value.func, ast.Attribute) \
                    and st.value.func.attr == "update" and dotted(st.value.func.value) == kwname:
                verdicts.append((None, f"`{norm_text(st)[:40]}`"))
        if stores:
            res = [_meta_expr_fresh(m, df, df.cfg.node_of(st).idx, st.value) for st in stores]
            verdicts.append((False if False in res else (True if all(x is True for x in res) else None),
                             f"{kwname}['metadata'] = {norm_text(stores[0].value)[:40]}"))
        elif base:
            verdicts.append((True, "constructor arguments are the deep copies made by _copy_kwargs"))
        else:
            verdicts.append((None, f"origin of **{kwname} not recognised"))
    if any(v is False for v, _ in verdicts):
        return False, next(t for v, t in verdicts if v is False)
    if all(v is True for v, _ in verdicts):
        return True, verdicts[0][1]
    return None, next(t for v, t in verdicts if v is None)


def _fresh_result(ctx) -> None:
    from ..model import AnalysisError

    repo = ctx.repo
    ao = repo.cls("abtem.array", "ArrayObject")
    bm = repo.cls("abtem.measurements", "BaseMeasurements")
    wv = repo.cls("abtem.waves", "Waves")
    classes = [c for c in repo.all_classes() if bm in c.mro() or c in (ao, wv)]
    n = 0
    done: set[str] = set()
    _copy_kwargs_deep(ctx, ao)
    for c in classes:
        for name, defs in c.methods.items():
            for f in defs:
                df = None
                for st in walk_no_nested(f.node):
                    recv = None
                    if isinstance(st, (ast.Assign, ast.AugAssign)):
                        t = st.targets[0] if isinstance(st, ast.Assign) else st.target
                        if isinstance(t, ast.Subscript) and isinstance(t.value, ast.Attribute) and t.value.attr in _META:
                            recv = t.value.value
                    elif isinstance(st, ast.Expr) and isinstance(st.value, ast.Call) and isinstance(
                            st.value.func, ast.Attribute) and st.value.func.attr in DICT_LIST_MUTATORS and isinstance(
                            st.value.func.value, ast.Attribute) and st.value.func.value.attr in _META:
                        recv = st.value.func.value.value
                    if not isinstance(recv, ast.Name) or recv.id in ("self", "cls"):
                        continue
                    df = df or DataFlow(f.node)
                    at = df.cfg.node_of(st).idx
                    for d in df.reaching(at, recv.id):
                        v = d.value
                        callee = None
                        if d.kind == "assign" and isinstance(v, ast.Call) and (dotted(v.func) or "").startswith("self.") \
                                and (dotted(v.func) or "").count(".") == 1:
                            callee = c.find_method(dotted(v.func)[5:])
                        elif d.kind == "assign" and isinstance(v, ast.BinOp) and dotted(v.left) == "self" and \
                                type(v.op) in _OPERATOR_METHODS:
                            callee = c.find_method(_OPERATOR_METHODS[type(v.op)])
                        elif d.kind == "param":
                            continue  # an argument object: R-OWN-RECEIVER / the caller's business
                        if callee is None:
                            continue  # objects built otherwise (constructors, functions) are not the receiver's
                        verdict, why = _result_metadata(c, callee)
                        if verdict is None:
                            raise AnalysisError(f"{f.qualname}: cannot decide whether the result of {callee.short}() has "
                                                f"its own metadata ({why})")
                        construct = f"{f.qualname}:metadata of the result of {callee.name}"
                        if construct in done:
                            continue
                        done.add(construct)
                        n += 1
                        ctx.check(verdict, "R-FRESH-RESULT", construct,
                                  f.loc(st), f"written into a dict of its own ({why})",
                                  f"`{norm_text(st)[:60]}` writes into the metadata of the object returned by "
                                  f"{callee.short}(), which is the receiver's own dict ({why}): calling {f.short}() changes "
                                  "the metadata of the measurement it was called on", key_detail="shared")
    ctx.require(n >= 1, f"R-FRESH-RESULT matched only {n} methods writing into the metadata of a derived measurement")


def _copy_kwargs_deep(ctx, ao) -> None:
    """Premise of the above: the dict returned by _copy_kwargs holds copies, not the receiver's own attribute values."""
    ck = ao.find_method("_copy_kwargs")
    ctx.require(ck is not None, "ArrayObject has no _copy_kwargs")
    df = DataFlow(ck.node)
    rets = [r for r in walk_no_nested(ck.node) if isinstance(r, ast.Return) and r.value is not None]
    ctx.require(rets, f"{ck.qualname}: no return value")
    for r in rets:
        v, at = r.value, df.cfg.node_of(r).idx
        if isinstance(v, ast.Name):
            d = df.single_def(at, v.id)
            ctx.require(d is not None and d.value is not None, f"{ck.qualname}: returned dict has several definitions")
            v = d.value
        ctx.require(isinstance(v, ast.DictComp), f"{ck.qualname}: the returned value is not a dict comprehension")
        val = v.value
        copied = isinstance(val, ast.Call) and (dotted(val.func) or "").split(".")[-1] in ("deepcopy",) and val.args and \
            isinstance(val.args[0], ast.Call) and dotted(val.args[0].func) == "getattr"
        ctx.check(copied, "R-FRESH-RESULT", f"{ck.qualname}:values", ck.loc(r),
                  "every value is deepcopy(getattr(self, key))",
                  f"the values of the returned dict are `{norm_text(val)[:60]}`, not deep copies: objects built from them "
                  "share metadata / axes metadata with the receiver, and the methods that relabel their result relabel "
                  "the receiver", key_detail="deepcopy")


def run(ctx) -> None:  # noqa: F811
    ctx.rule("R-FRESH-RESULT", "a measurement method that derives a new object from the receiver (new = self.m(...) or "
             "self <op> other) and then writes into new.metadata must get, from m, an object whose metadata dict is not "
             "the receiver's: m returns cls(**kwargs) with kwargs from self._copy_kwargs (deep copies) and no "
             "kwargs['metadata'] = self.metadata, or an explicit metadata=<copy / new dict>.  Otherwise real(), imag(), "
             "phase(), abs(), intensity(), relative_difference() relabel the measurement they were called on")
    _fresh_result(ctx)
    _inner_run_c32_sweep(ctx)
