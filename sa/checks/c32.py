"""C32 — API calls do not modify caller-owned inputs (ownership / effect analysis)."""
from __future__ import annotations

import ast

from ..cfg import DataFlow
from ..model import FuncInfo, dotted, norm_text, walk_no_nested
from ..rules import own as ownmod

# direct mutation sites that are accepted, one line of reason each: (function qualname) -> reason
EXCEPTIONS = {
    "abtem.magnetism.utils.set_magnetic_moments":
        "setter by contract: its purpose is to attach magnetic moments to the given atoms and return them",
    "abtem.inelastic.phonons._safe_read_atoms":
        "GPAW-only helper that detaches calculator/constraints from atoms taken out of a GPAW calculator; not one "
        "of the API entry points the property lists and not exercisable without GPAW",
    "abtem.potentials.gpaw.GPAWPotential.__init__":
        "GPAW-only: detaches the calculator from the frozen phonons' atoms; not one of the API entry points the "
        "property lists",
}

# receiver-state writers of array objects that are in-place by contract
RECEIVER_WRITERS_ALLOWED = {
    "abtem.array.ArrayObject.__init__": "constructor",
    "abtem.array.ArrayObject.array": "the array setter is the documented way to replace the data",
    "abtem.array.ArrayObject.set_ensemble_axes_metadata": "in-place by contract (sets one axis entry, returns self)",
    "abtem.waves.Waves.metadata": "idempotent refresh of the derived keys energy/reciprocal_space on read",
}
RECV = ("self.metadata", "self._metadata", "self.array", "self._array", "self._ensemble_axes_metadata",
        "self.ensemble_axes_metadata", "self.axes_metadata", "self._eager_array", "self._lazy_array")
DICT_LIST_MUTATORS = {"update", "pop", "setdefault", "clear", "append", "insert", "extend", "__setitem__", "fill",
                      "popitem", "remove", "sort", "reverse", "itemset", "put", "resize"}


def receiver_writes(f: FuncInfo):
    """Statements of method `f` that write the receiver's array / metadata / axes metadata, directly or
    through a local alias of them."""
    df = DataFlow(f.node)

    def aliases_receiver(name: str, at: int, seen=()) -> bool:
        for d in df.reaching(at, name):
            if d.kind == "assign" and d.value is not None:
                v = d.value
                if dotted(v) in RECV:
                    return True
                if isinstance(v, ast.Name) and v.id not in seen and aliases_receiver(v.id, d.node, seen + (name,)):
                    return True
        return False

    out = []
    for node in df.cfg.nodes:
        st = node.ast
        if st is None or node.kind != "stmt":
            continue
        tgts = []
        if isinstance(st, ast.Assign):
            tgts = st.targets
        elif isinstance(st, ast.AugAssign):
            tgts = [st.target]
        elif isinstance(st, ast.Delete):
            tgts = st.targets
        for t in tgts:
            base = t
            while isinstance(base, ast.Subscript):
                base = base.value
            d = dotted(base)
            if d in RECV:
                out.append(st)
            elif isinstance(base, ast.Name) and (t is not base or isinstance(st, ast.AugAssign)) and \
                    aliases_receiver(base.id, node.idx):
                out.append(st)
        for c in walk_no_nested(st):
            if isinstance(c, ast.Call) and isinstance(c.func, ast.Attribute) and c.func.attr in DICT_LIST_MUTATORS:
                b = c.func.value
                while isinstance(b, ast.Subscript):
                    b = b.value
                if dotted(b) in RECV or (isinstance(b, ast.Name) and aliases_receiver(b.id, node.idx)):
                    out.append(st)
            if isinstance(c, ast.Call):
                for k in c.keywords:
                    if k.arg == "out" and (dotted(k.value) in RECV or (
                            isinstance(k.value, ast.Name) and aliases_receiver(k.value.id, node.idx))):
                        out.append(st)
    return out


def run(ctx) -> None:
    repo = ctx.repo
    ctx.rule("R-OWN-ATOMS", ownmod.__doc__.split("\n\n", 1)[1] + " A mutation site whose receiver may be borrowed from an "
             "Atoms-typed parameter, from Atoms stored without a copy by a constructor, or from `<obj>.atoms` / "
             "`<obj>.trajectory` of another object is a violation; a public function whose summary mutates an "
             "Atoms-typed parameter (through any chain of package calls) is a violation.")
    ctx.rule("R-OWN-RECEIVER", "methods of measurement classes, Waves and ArrayObject do not write the receiver's "
             "array, metadata or axes metadata (directly, through a local alias, through dict/list mutators or "
             "`out=`), except the constructor, the array setter, set_ensemble_axes_metadata and the idempotent "
             "Waves.metadata refresh")
    ctx.assume("ase.Atoms.__getitem__, .copy(), .repeat() and arithmetic return new objects; atoms.positions/.cell/"
               ".numbers are views of the object's storage")
    ctx.undecided("mutation through objects the analysis cannot resolve (third-party callees); aliasing between "
                  "different caller inputs")

    o = ownmod.Ownership(repo)
    rounds = o.solve()
    ctx.extra["ownership_fixpoint_rounds"] = rounds
    ctx.extra["functions_summarised"] = len(o.funcs)

    # caller-owned storage per class
    owned_attr: set[tuple[str, str]] = set()
    for c in repo.all_classes():
        for a in o.caller_owned_attrs(c):
            for k in c.mro():
                owned_attr.add((k.name, a))
            for k in repo.subclasses(c):
                owned_attr.add((k.name, a))

    def atoms_roots(f: FuncInfo, roots) -> list:
        out = []
        for r in roots:
            if r[0] == "param" and ownmod.is_atoms_param(f, r[2]):
                out.append(r)
            elif r[0] == "stored":
                out.append(r)
            elif r[0] == "attr" and (r[1], r[2]) in owned_attr:
                out.append(r)
        return out

    n_sites = 0
    n_funcs_with_atoms = 0
    for f in o.funcs:
        s = o.summ[id(f)]
        atoms_params = [p for p in f.params if ownmod.is_atoms_param(f, p)]
        if atoms_params:
            n_funcs_with_atoms += 1
        direct = [(node, what, roots) for node, what, roots in s.sites if "(callee " not in what]
        flagged = False
        for node, what, roots in direct:
            ar = atoms_roots(f, roots)
            if not ar:
                continue
            n_sites += 1
            if f.qualname in EXCEPTIONS:
                ctx.info("R-OWN-ATOMS", f"{f.qualname}:{what}", f.loc(node), "excepted: " + EXCEPTIONS[f.qualname])
                continue
            flagged = True
            origin = "; ".join(_describe(r) for r in ar)
            ctx.violation("R-OWN-ATOMS", f"{f.qualname}:{what}", f.loc(node),
                          f"`{what}` modifies in place an object that may be {origin} (no dominating copy)",
                          key_detail="")
        # API-level: public functions must not mutate Atoms parameters through callees either
        public = not f.name.startswith("_") or f.name == "__init__"
        if atoms_params and public and f.qualname not in EXCEPTIONS:
            mp = [r for r in s.mutates if r[0] == "param" and r[2] in atoms_params]
            via = [(node, what) for node, what, roots in s.sites if "(callee " in what
                   and any(r in roots for r in mp)]
            if mp and not flagged:
                node, what = via[0] if via else (f.node, "?")
                ctx.violation("R-OWN-ATOMS", f"{f.qualname}:param {mp[0][2]}", f.loc(node),
                              f"{f.short} passes its caller's `{mp[0][2]}` to a callee that modifies it: {what}",
                              key_detail="via-callee")
            elif not mp:
                ctx.ok("R-OWN-ATOMS", f"{f.qualname}:param {','.join(atoms_params)}", f.where,
                       "no path modifies the caller's Atoms argument")
    ctx.require(n_funcs_with_atoms >= 25, f"only {n_funcs_with_atoms} functions with Atoms parameters found")
    ctx.extra["atoms_mutation_sites_examined"] = n_sites
    # positive control: the analysis must see a mutation of a borrowed parameter in a tiny example
    ctrl_src = "def f(atoms):\n    cell = atoms.cell\n    cell[0] = 0\n    atoms.wrap()\n    b = atoms.copy()\n    b.wrap()\n"
    from ..model import ModuleInfo
    from pathlib import Path
    tree = ast.parse(ctrl_src)
    cm = ModuleInfo(name="control", path=Path("control.py"), relpath="control.py", tree=tree, source=ctrl_src)
    cf = FuncInfo(cm, tree.body[0])
    o.funcs.append(cf)
    o.summ[id(cf)] = ownmod.Summary()
    o.analyse(cf)
    got = sorted(w for _, w, r in o.summ[id(cf)].sites)
    ctx.require(len(got) == 2 and all("control.f" in str(r) for _, _, rs in o.summ[id(cf)].sites for r in rs),
                f"R-OWN-ATOMS positive control failed: {got}")

    # ---------------- R-OWN-RECEIVER
    ao = repo.cls("abtem.array", "ArrayObject")
    bm = repo.cls("abtem.measurements", "BaseMeasurements")
    wv = repo.cls("abtem.waves", "Waves")
    classes = [c for c in repo.all_classes() if bm in c.mro() or c in (ao, wv)]
    ctx.require(len(classes) >= 9, "measurement classes not found")
    nmeth = 0
    for c in classes:
        for name, defs in c.methods.items():
            for f in defs:
                nmeth += 1
                ws = receiver_writes(f)
                if not ws:
                    continue
                key = f.qualname
                if key in RECEIVER_WRITERS_ALLOWED or f.is_setter and f"{key}" in RECEIVER_WRITERS_ALLOWED:
                    ctx.ok("R-OWN-RECEIVER", key, f.where, "allowed in-place writer: " + RECEIVER_WRITERS_ALLOWED[key])
                    continue
                for st in ws:
                    ctx.violation("R-OWN-RECEIVER", f"{key}:{norm_text(st)[:60]}", f.loc(st),
                                  f"`{norm_text(st)[:80]}` writes the receiver's state: calling {f.short}() changes "
                                  "the measurement it was called on", key_detail="")
    ctx.ok("R-OWN-RECEIVER", "scan", ao.where, f"{nmeth} methods of {len(classes)} array-object classes scanned")
    # positive control
    ctrl = ast.parse("def m(self):\n    a = self.array\n    a[0] = 1\n    self.metadata['x'] = 1\n    b = self.array.copy()\n    b[0] = 2\n")
    cfun = FuncInfo(cm, ctrl.body[0])
    ctx.require(len(receiver_writes(cfun)) == 2, "R-OWN-RECEIVER positive control failed")


def _describe(r) -> str:
    if r[0] == "param":
        return f"the caller's argument `{r[2]}`"
    if r[0] == "stored":
        return f"the Atoms another object holds under `.{r[1]}` (stored without a copy)"
    return f"the caller-owned Atoms stored in self.{r[2]}"


# ---- added after the seeded change C32-r3seed6: in-place FFTs never run on the receiver's own array
_inner_run_c32 = run


def run(ctx) -> None:  # noqa: F811
    from . import c38

    ctx.rule("R-OWN", "(the rule of C38, kept for the measurement classes) a measurement method that requests an "
             "in-place FFT — a literal overwrite_x=True, directly or through functions that hand their parameter on, "
             "including through astype(..., copy=False), which returns the array itself when the dtype matches — "
             "passes an array that is fresh in the method, never the receiver's own `self.array`: otherwise "
             "images.interpolate(...) leaves the receiver holding its Fourier transform")
    from ..report import OnlyConstructs

    c38._own(OnlyConstructs(ctx, ("abtem.measurements.",)), ctx.repo)
    _inner_run_c32(ctx)
