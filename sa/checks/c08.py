"""C08 — potentials are covariant under pixel translations and supercell repetition.

Decided structurally: periodic wrap of every scatter index (R-WRAP), partition of unity of the bilinear
sub-pixel weights (R-PARTITION-OF-UNITY), axis agreement of FieldArray.tile (R-TILE-AXES) and axis
agreement between per-axis grid quantities and repetition components in CrystalPotential / tile
(R-AXISPAIR).
"""
from __future__ import annotations

import ast
from typing import Optional

from ..cfg import DataFlow
from ..model import AnalysisError, FuncInfo, call_name, dotted, last_attr, norm_text, walk_no_nested
from ..terms import FlowNormalizer, Poly
from ..rules.flowdeps import Deps, enclosing_loops

INTEGRALS = "abtem.integrals"
IAM = "abtem.potentials.iam"

ARRAY_CTORS = {"array", "asarray", "stack", "concatenate", "vstack", "hstack", "asanyarray"}
MOD_FUNCS = {"mod", "remainder"}
NONWRAP_FUNCS = {"minimum", "maximum", "clip", "abs", "where", "floor", "round", "rint", "ceil", "int32", "int64"}


def _stmt_containing(func: ast.AST, expr: ast.AST) -> ast.stmt:
    best = None
    for st in ast.walk(func):
        if isinstance(st, ast.stmt) and not isinstance(st, (ast.FunctionDef, ast.ClassDef, ast.If, ast.For, ast.While,
                                                            ast.With, ast.Try)):
            if any(n is expr for n in ast.walk(st)):
                best = st
    if best is None:
        raise AnalysisError("expression is not inside a simple statement")
    return best


# ----------------------------------------------------------------------------------------- R-WRAP
class _WrapAnalysis:
    """Is every element of an index expression reduced modulo the length of a given axis of `array`?"""

    def __init__(self, f: FuncInfo, df: DataFlow, array_name: str):
        self.f, self.df, self.array = f, df, array_name
        self.problems: list[str] = []
        self._memo: dict = {}

    def axis_len(self, e: ast.AST, at: int) -> Optional[int]:
        """`shape[k]` / `array.shape[k]` / a name unpacked from `array.shape` / len(array) -> k."""
        if isinstance(e, ast.Call) and call_name(e) == "len" and len(e.args) == 1 and dotted(e.args[0]) == self.array:
            return 0
        if isinstance(e, ast.Call) and call_name(e) in ("int",) and len(e.args) == 1:
            return self.axis_len(e.args[0], at)
        if isinstance(e, ast.Subscript) and isinstance(e.slice, ast.Constant) and isinstance(e.slice.value, int):
            if self.is_shape(e.value, at):
                k = e.slice.value
                return k if k >= 0 else None
            return None
        if isinstance(e, ast.Name):
            d = self.df.single_def(at, e.id)
            if d is None or d.value is None or d.kind != "assign":
                return None
            st = self.df.cfg.nodes[d.node].ast
            if isinstance(st, ast.Assign) and len(st.targets) == 1:
                t = st.targets[0]
                if isinstance(t, ast.Name):
                    return self.axis_len(d.value, d.node)
                if isinstance(t, (ast.Tuple, ast.List)) and not isinstance(st.value, (ast.Tuple, ast.List)):
                    if self.is_shape(st.value, d.node):
                        for k, el in enumerate(t.elts):
                            if isinstance(el, ast.Name) and el.id == e.id:
                                return k
                if isinstance(t, (ast.Tuple, ast.List)) and isinstance(st.value, (ast.Tuple, ast.List)):
                    return self.axis_len(d.value, d.node)
        return None

    def is_shape(self, e: ast.AST, at: int) -> bool:
        if dotted(e) == f"{self.array}.shape":
            # the array must still be the scatter target (parameter, never rebound)
            return all(d.kind == "param" or not d.strong for d in self.df.reaching(at, self.array))
        if isinstance(e, ast.Name):
            d = self.df.single_def(at, e.id)
            if d is not None and d.kind == "assign" and d.value is not None:
                return self.is_shape(d.value, d.node)
        return False

    def axes(self, e: ast.AST, at: int, seen: Optional[set] = None) -> set:
        """Set of axes whose length the elements of `e` are reduced by; 'RAW' marks an unreduced element."""
        seen = seen if seen is not None else set()
        if isinstance(e, ast.BinOp) and isinstance(e.op, ast.Mod):
            k = self.axis_len(e.right, at)
            if k is None:
                self.problems.append(f"`{norm_text(e)}` is reduced modulo `{norm_text(e.right)}`, which is not an axis "
                                     f"length of `{self.array}`")
                return {"RAW"}
            return {k}
        if isinstance(e, ast.Call):
            la = last_attr(e)
            if la in MOD_FUNCS and len(e.args) == 2:
                k = self.axis_len(e.args[1], at)
                if k is None:
                    self.problems.append(f"`{norm_text(e)}`: modulus is not an axis length of `{self.array}`")
                    return {"RAW"}
                return {k}
            if la in ARRAY_CTORS and e.args:
                return self.axes(e.args[0], at, seen)
            if la in ("astype", "copy", "ravel", "flatten", "reshape") and isinstance(e.func, ast.Attribute):
                return self.axes(e.func.value, at, seen)
        if isinstance(e, ast.Subscript):
            parts = e.slice.elts if isinstance(e.slice, ast.Tuple) else [e.slice]
            reshaping = all(
                (isinstance(p, ast.Constant) and (p.value is None or p.value is Ellipsis))
                or (isinstance(p, ast.Slice) and p.lower is None and p.upper is None and p.step is None)
                or dotted(p) in ("np.newaxis", "xp.newaxis", "None") for p in parts)
            if reshaping:
                return self.axes(e.value, at, seen)
        if isinstance(e, (ast.List, ast.Tuple)):
            out = set()
            for el in e.elts:
                out |= self.axes(el, at, seen)
            return out or {"RAW"}
        if isinstance(e, ast.BinOp) and isinstance(e.op, ast.Mult):
            for seq, n in ((e.left, e.right), (e.right, e.left)):
                if isinstance(seq, (ast.List, ast.Tuple)) and isinstance(n, ast.Constant) and isinstance(n.value, int):
                    return self.axes(seq, at, seen)
        if isinstance(e, ast.BinOp) and isinstance(e.op, ast.Add) and all(
                self._is_seq(x) for x in (e.left, e.right)):
            return self.axes(e.left, at, seen) | self.axes(e.right, at, seen)
        if isinstance(e, ast.Name):
            rd = self.df.reaching(at, e.id)
            out = set()
            for d in rd:
                key = (d.node, e.id)
                if key in self._memo:
                    out |= self._memo[key]
                    continue
                if key in seen:  # cyclic definition chain: contributes nothing new
                    continue
                seen.add(key)
                if d.kind == "param":
                    self.problems.append(f"`{e.id}` is a raw parameter")
                    out.add("RAW")
                    continue
                if d.kind != "assign" or d.value is None or not d.strong:
                    raise AnalysisError(f"{self.f.qualname}: index variable `{e.id}` has a {d.kind} definition "
                                        "(in-place update / loop variable) the wrap analysis does not model")
                st = self.df.cfg.nodes[d.node].ast
                if isinstance(st, ast.Assign) and isinstance(st.targets[0], (ast.Tuple, ast.List)) and not isinstance(
                        st.value, (ast.Tuple, ast.List)):
                    if isinstance(st.value, ast.Call):
                        raise AnalysisError(f"{self.f.qualname}: `{e.id}` is unpacked from the call "
                                            f"`{norm_text(st.value)[:50]}`")
                    self.problems.append(f"`{e.id}` is unpacked from `{norm_text(st.value)[:50]}`")
                    out.add("RAW")
                    continue
                r = self.axes(d.value, d.node, seen)
                self._memo[key] = r
                out |= r
            return out or {"RAW"}
        if isinstance(e, ast.Call) and last_attr(e) not in NONWRAP_FUNCS:
            raise AnalysisError(f"{self.f.qualname}: index element `{norm_text(e)[:70]}` is produced by a call the "
                                "analyser cannot see through")
        self.problems.append(f"`{norm_text(e)[:70]}` is not reduced modulo an axis length")
        return {"RAW"}

    @staticmethod
    def _is_seq(x: ast.AST) -> bool:
        if isinstance(x, (ast.List, ast.Tuple)):
            return True
        if isinstance(x, ast.BinOp) and isinstance(x.op, (ast.Mult, ast.Add)):
            return _WrapAnalysis._is_seq(x.left) or _WrapAnalysis._is_seq(x.right)
        return False


def _scatter_sinks(f: FuncInfo) -> list[ast.Call]:
    out = []
    for c in walk_no_nested(f.node):
        if isinstance(c, ast.Call):
            d = dotted(c.func) or ""
            if d.endswith("add.at") or d.endswith("scatter_add") or d.endswith("subtract.at"):
                out.append(c)
    return out


def _check_wrap(ctx, f: FuncInfo) -> tuple:
    rule = "R-WRAP"
    df = DataFlow(f.node)
    sinks = _scatter_sinks(f)
    if not sinks:
        if _check_wrap_flat(ctx, f, df):
            return df, []
    ctx.require(len(sinks) >= 1, f"{f.qualname}: no scatter-add sink (xp.add.at / scatter_add) found")
    for c in sinks:
        ctx.require(len(c.args) == 3, f"{f.qualname}: scatter call {norm_text(c)[:60]} does not have 3 arguments")
        arr, idx, val = c.args
        ctx.require(isinstance(arr, ast.Name), "scatter target is not a plain name")
        st = _stmt_containing(f.node, c)
        node = df.cfg.node_of(st)
        if isinstance(idx, ast.Name):
            d = df.single_def(node.idx, idx.id)
            ctx.require(d is not None and isinstance(d.value, ast.Tuple), "scatter index is not a tuple")
            idx = d.value
        ctx.require(isinstance(idx, ast.Tuple) and len(idx.elts) == 2,
                    f"{f.qualname}: scatter index {norm_text(idx)} is not a (row, column) pair")
        sink_name = dotted(c.func)
        for axis, comp in enumerate(idx.elts):
            wa = _WrapAnalysis(f, df, arr.id)
            got = wa.axes(comp, node.idx)
            ndefs = len(df.reaching(node.idx, comp.id)) if isinstance(comp, ast.Name) else 1
            construct = f"{f.qualname}:{sink_name}:index[{axis}]"
            if got == {axis}:
                ctx.ok(rule, construct, f.loc(c), f"`{norm_text(comp)}` is reduced modulo {arr.id}.shape[{axis}] on all "
                                                  f"{ndefs} reaching definitions")
            else:
                wrong = sorted(str(a) for a in got if a not in (axis, "RAW"))
                detail = (f"index component {axis} `{norm_text(comp)}` passed to {sink_name} must be reduced modulo "
                          f"{arr.id}.shape[{axis}] on every path; found "
                          + ("; ".join(dict.fromkeys(wa.problems)) if wa.problems else "")
                          + (f" reduction by the length of axis {', '.join(wrong)} instead" if wrong else "")
                          + ": an atom next to the cell edge is dropped / raises instead of wrapping periodically")
                ctx.violation(rule, construct, f.loc(c), detail, key_detail="wrap")
    return df, sinks


def _check_wrap_flat(ctx, f: FuncInfo, df: DataFlow) -> bool:
    """Flattened accumulation: array += bincount(FLAT.ravel(), weights=...).reshape(shape) with
    FLAT = (I * n_cols + J) [% size].  I and J must each be wrapped modulo their own axis *before* they are
    combined: a modulo on the flat index wraps a column overflow into the next row."""
    rule = "R-WRAP"
    bcs = [c for c in walk_no_nested(f.node) if isinstance(c, ast.Call) and (dotted(c.func) or "").endswith("bincount")]
    if not bcs:
        return False
    target = f.positional_params[1] if len(f.positional_params) > 1 else "array"
    for c in bcs:
        st = _stmt_containing(f.node, c)
        node = df.cfg.node_of(st)
        flat = c.args[0]
        flat_mod = False
        hops = 0
        while hops < 8:
            hops += 1
            if isinstance(flat, ast.Call) and isinstance(flat.func, ast.Attribute) and flat.func.attr in (
                    "ravel", "flatten", "astype", "reshape"):
                flat = flat.func.value
            elif isinstance(flat, ast.Name):
                d = df.single_def(node.idx, flat.id)
                if d is None or d.value is None:
                    break
                flat = d.value
            elif isinstance(flat, ast.BinOp) and isinstance(flat.op, ast.Mod):
                flat_mod = norm_text(flat.right) in (f"{target}.size", "array.size")
                flat = flat.left  # a modulo on the flat index wraps rows only, never columns
            else:
                break
        wa = _WrapAnalysis(f, df, target)
        ok_shape = isinstance(flat, ast.BinOp) and isinstance(flat.op, ast.Add)
        comps = None
        if ok_shape:
            for a, b in ((flat.left, flat.right), (flat.right, flat.left)):
                if isinstance(a, ast.BinOp) and isinstance(a.op, ast.Mult):
                    for i_, n_ in ((a.left, a.right), (a.right, a.left)):
                        if wa.axis_len(n_, node.idx) == 1:
                            comps = (i_, b)
        if comps is None:
            raise AnalysisError(f"{f.qualname}: flat scatter index `{norm_text(flat)[:60]}` is not rows * n_cols + cols")
        for axis, comp in enumerate(comps):
            wa = _WrapAnalysis(f, df, target)
            got = wa.axes(comp, node.idx)
            construct = f"{f.qualname}:bincount:index[{axis}]"
            if axis == 0 and flat_mod and got != {axis}:
                ctx.ok(rule, construct, f.loc(c), "row overflow is wrapped by the modulo on the flat index")
                continue
            if got == {axis}:
                ctx.ok(rule, construct, f.loc(c), f"`{norm_text(comp)}` is reduced modulo {target}.shape[{axis}] before "
                                                  "flattening")
            else:
                ctx.violation(rule, construct, f.loc(c),
                              f"index component {axis} `{norm_text(comp)}` of the flattened scatter index is not reduced "
                              f"modulo {target}.shape[{axis}] on every path ("
                              + "; ".join(dict.fromkeys(wa.problems))
                              + "); a modulo applied to the flat index wraps a column overflow into the next row instead "
                                "of the same row", key_detail="wrap")
    return True


# ----------------------------------------------------------------------------------------- R-PARTITION-OF-UNITY
def _check_partition(ctx, f: FuncInfo, df: DataFlow, sinks: list[ast.Call]) -> None:
    rule = "R-PARTITION-OF-UNITY"
    literal_defs: dict[int, tuple] = {}

    def collect(var: str, at: int, seen: set) -> None:
        for d in df.reaching(at, var):
            if (d.node, var) in seen:
                continue
            seen.add((d.node, var))
            if d.kind == "param":
                raise AnalysisError(f"{f.qualname}: scatter weights come straight from parameter `{var}`")
            if d.kind != "assign" or d.value is None:
                raise AnalysisError(f"{f.qualname}: weight variable `{var}` has a {d.kind} definition")
            v = d.value
            # scaling by per-atom weights: v = v * w / w * v
            if isinstance(v, ast.BinOp) and isinstance(v.op, ast.Mult):
                sides = [v.left, v.right]
                selfrefs = [s for s in sides if isinstance(s, ast.Name) and s.id == var]
                if len(selfrefs) == 1:
                    collect(var, d.node, seen)
                    continue
            lit = _array_literal(v)
            if lit is not None:
                literal_defs[d.node] = (lit, v)
                continue
            if isinstance(v, ast.Name):
                collect(v.id, d.node, seen)
                continue
            raise AnalysisError(f"{f.qualname}: cannot read the scatter weights from `{norm_text(v)[:70]}`")

    for c in sinks:
        val = c.args[2]
        ctx.require(isinstance(val, ast.Name), "scatter value is not a plain name")
        node = df.cfg.node_of(_stmt_containing(f.node, c))
        collect(val.id, node.idx, set())
    ctx.require(any(len(l.elts) >= 2 for l, _ in literal_defs.values()),
                f"{f.qualname}: no multi-point (sub-pixel) weight vector found")
    for nidx, (lit, v) in sorted(literal_defs.items()):
        nz = FlowNormalizer(df, nidx)
        total = Poly()
        for el in lit.elts:
            total = total + nz.norm(el)
        kind = "bilinear sub-pixel" if len(lit.elts) >= 2 else "rounded (single pixel)"
        ctx.check(total == Poly.const(1), rule, f"{f.qualname}:weights[{len(lit.elts)}]", f.loc(v),
                  f"the {len(lit.elts)} {kind} weights sum to the constant 1",
                  f"the {len(lit.elts)} {kind} weights `{norm_text(lit)[:80]}` sum to `{total.key()}`, not identically 1: "
                  "the deposited charge (hence the slice mean) depends on the sub-pixel position of the atom",
                  key_detail=f"sum-{len(lit.elts)}")


def _array_literal(v: ast.AST) -> Optional[ast.List]:
    while True:
        if isinstance(v, ast.Subscript):
            v = v.value
            continue
        if isinstance(v, ast.Call) and last_attr(v) in ("astype",) and isinstance(v.func, ast.Attribute):
            v = v.func.value
            continue
        break
    if isinstance(v, ast.Call) and last_attr(v) in ARRAY_CTORS and v.args and isinstance(v.args[0], (ast.List, ast.Tuple)):
        return v.args[0]
    return None


# ----------------------------------------------------------------------------------------- R-TILE-AXES
_alias_nodes: dict[int, ast.AST] = {}


def _check_tile(ctx, f: FuncInfo) -> None:
    rule = "R-TILE-AXES"
    df = DataFlow(f.node)
    tiles = [c for c in walk_no_nested(f.node) if isinstance(c, ast.Call) and last_attr(c) == "tile" and len(c.args) == 2
             and dotted(c.func) in ("np.tile", "xp.tile", "numpy.tile")]
    arr_t = [c for c in tiles if dotted(c.args[0]) in ("self.array", "self._array")]
    THK = ("self.slice_thickness", "self._slice_thickness")
    thk_t = [c for c in tiles if dotted(c.args[0]) in THK]
    # the thicknesses may be replicated by other operators: block-wise ones (sequence * n) are equivalent to
    # np.tile, element-wise ones (np.repeat) pair slice i with the thickness of another slice
    def _seq(e):
        while isinstance(e, ast.Call) and dotted(e.func) in ("tuple", "list") and len(e.args) == 1:
            e = e.args[0]
        return e
    if not thk_t:
        for c in walk_no_nested(f.node):
            if isinstance(c, ast.Call) and last_attr(c) == "repeat" and c.args and dotted(c.args[0]) in THK:
                ctx.violation(rule, f"{f.qualname}:thickness order", f.loc(c),
                              f"`{norm_text(c)[:70]}` repeats the slice thicknesses element-wise (a, a, b, b) while the "
                              "array's slice axis is tiled block-wise (a, b, a, b): slice i of the tiled potential is "
                              "paired with the thickness of another slice", key_detail="thickness-order")
                return
            if isinstance(c, ast.BinOp) and isinstance(c.op, ast.Mult):
                for seq, cnt in ((c.left, c.right), (c.right, c.left)):
                    if dotted(_seq(seq)) in THK and isinstance(seq, ast.Call):
                        # tuple(thickness) * n  ==  np.tile(thickness, n): present it in the tile form
                        thk_t.append(ast.copy_location(ast.Call(func=ast.Attribute(value=ast.Name(id="np", ctx=ast.Load()),
                                                                                   attr="tile", ctx=ast.Load()),
                                                                args=[_seq(seq), cnt], keywords=[]), c))
                        _alias_nodes[id(thk_t[-1])] = c
    ctx.require(len(arr_t) == 1 and len(thk_t) == 1,
                f"{f.qualname}: expected one np.tile of the array and one of the slice thicknesses "
                f"(found {len(arr_t)}/{len(thk_t)})")
    thk_site = _alias_nodes.get(id(thk_t[0]), thk_t[0])
    at_arr = df.cfg.node_of(_stmt_containing(f.node, arr_t[0])).idx
    at_thk = df.cfg.node_of(_stmt_containing(f.node, thk_site)).idx

    def inline_tuple(e: ast.AST, at: int) -> Optional[ast.Tuple]:
        for _ in range(4):
            if isinstance(e, ast.Name):
                d = df.single_def(at, e.id)
                if d is None or d.kind != "assign" or d.value is None:
                    return None
                e, at = d.value, d.node
            else:
                break
        return e if isinstance(e, (ast.Tuple, ast.List)) else None

    reps = inline_tuple(arr_t[0].args[1], at_arr)
    ctx.require(reps is not None and len(reps.elts) == 3,
                f"{f.qualname}: np.tile repetitions {norm_text(arr_t[0].args[1])} are not a 3-tuple (slices, x, y)")
    # constructor call that receives the tiled pieces
    ctors = [c for c in walk_no_nested(f.node) if isinstance(c, ast.Call) and
             (dotted(c.func) in ("self.__class__", "type(self)") or
              (isinstance(c.func, ast.Call) and call_name(c.func) == "type"))]
    ctx.require(len(ctors) == 1, f"{f.qualname}: expected one reconstruction call self.__class__(...)")
    ctor = ctors[0]
    at_ctor = df.cfg.node_of(_stmt_containing(f.node, ctor)).idx
    kws = {k.arg: k.value for k in ctor.keywords if k.arg}
    for need in ("array", "slice_thickness", "extent"):
        ctx.require(need in kws, f"{f.qualname}: reconstruction does not pass `{need}` by keyword")
    # the extent: the non-None definition must be a pair
    ext_pairs = []
    e = kws["extent"]
    if isinstance(e, ast.Name):
        for d in df.reaching(at_ctor, e.id):
            if d.value is not None and isinstance(d.value, (ast.Tuple, ast.List)) and len(d.value.elts) == 2:
                ext_pairs.append((d.value, d.node))
            elif d.value is not None and not (isinstance(d.value, ast.Constant) and d.value.value is None):
                raise AnalysisError(f"{f.qualname}: new extent `{norm_text(d.value)[:50]}` is not a pair")
    elif isinstance(e, (ast.Tuple, ast.List)) and len(e.elts) == 2:
        ext_pairs.append((e, at_ctor))
    ctx.require(len(ext_pairs) == 1, f"{f.qualname}: the new extent pair was not found")
    ext, at_ext = ext_pairs[0]

    # all repetition terms must refer to the same version of their names
    def versions(at: int, expr: ast.AST):
        return {n.id: tuple(sorted(d.node for d in df.reaching(at, n.id))) for n in ast.walk(expr)
                if isinstance(n, ast.Name) and n.id != "self"}

    factors = []
    for k in (0, 1):
        nz = FlowNormalizer(df, at_ext)
        p = nz.norm(ext.elts[k])
        own = nz.norm(ast.parse(f"self.extent[{k}]", mode="eval").body)
        fac = p * own.inverse()
        if any("extent" in a for a in fac.atoms()):
            ctx.violation(rule, f"{f.qualname}:extent[{k}]", f.loc(ext.elts[k]),
                          f"new extent component {k} `{norm_text(ext.elts[k])}` is not self.extent[{k}] times a "
                          f"repetition count (normal form {p.key()})", key_detail=f"extent-{k}")
            return
        factors.append(fac)
    nz_a = FlowNormalizer(df, at_arr)
    r_z, r_x, r_y = (nz_a.norm(x) for x in reps.elts)
    nz_t = FlowNormalizer(df, at_thk)
    t_z = nz_t.norm(thk_t[0].args[1])
    va, ve, vt = versions(at_arr, reps), versions(at_ext, ext), versions(at_thk, thk_t[0].args[1])
    for name in set(va) & set(ve) | set(va) & set(vt):
        vs = {v.get(name) for v in (va, ve, vt) if name in v}
        ctx.require(len(vs) == 1, f"{f.qualname}: `{name}` is redefined between the tiling statements")
    ctx.check(r_x == factors[0] and r_y == factors[1], rule, f"{f.qualname}:array-vs-extent", f.loc(arr_t[0]),
              f"array tiled ({r_x.key()}, {r_y.key()}) along (x, y) = extent factors",
              f"np.tile repeats the last two array axes by ({r_x.key()}, {r_y.key()}) but the extent is scaled by "
              f"({factors[0].key()}, {factors[1].key()}): the tiled array no longer matches its declared extent/sampling",
              key_detail="array-vs-extent")
    ctx.check(r_z == t_z, rule, f"{f.qualname}:array-vs-thickness", f.loc(thk_site),
              f"slice axis tiled {r_z.key()} times = slice_thickness tiled {t_z.key()} times",
              f"np.tile repeats the slice axis {r_z.key()} times but slice_thickness {t_z.key()} times: the number of "
              "slices and the number of thicknesses disagree", key_detail="array-vs-thickness")
    # the tiled pieces are what the new object is built from
    d_arr = Deps(df).deps(at_ctor, kws["array"])
    d_thk = Deps(df).deps(at_ctor, kws["slice_thickness"])
    thk_dep = any(c is thk_t[0] for c in d_thk.calls) or (thk_site is not thk_t[0] and at_thk in getattr(d_thk, "nodes", {at_thk}))
    ctx.check(any(c is arr_t[0] for c in d_arr.calls) and thk_dep, rule,
              f"{f.qualname}:reconstruction", f.loc(ctor), "the new object receives the tiled array and thicknesses",
              "the reconstruction does not receive the tiled array / tiled slice thicknesses", key_detail="reconstruction")


# ----------------------------------------------------------------------------------------- R-AXISPAIR
GRID_Q = {"gpts", "_valid_gpts", "extent", "_valid_extent", "sampling", "_valid_sampling"}
Z_Q = {"thickness", "slice_thickness", "_slice_thickness", "num_slices"}
REPS = {"repetitions", "_repetitions"}


def _tail(e: ast.AST) -> Optional[str]:
    if isinstance(e, ast.Attribute):
        return e.attr
    if isinstance(e, ast.Name):
        return e.id
    return None


def _const_index(e: ast.AST) -> Optional[tuple[str, int]]:
    """`X.q[k]` / `q[k]` with constant k -> (q, k)."""
    if isinstance(e, ast.Subscript) and isinstance(e.slice, ast.Constant) and isinstance(e.slice.value, int):
        t = _tail(e.value)
        if t:
            return t, e.slice.value
    return None


def _check_axispair(ctx, funcs: list[FuncInfo]) -> None:
    rule = "R-AXISPAIR"
    n = 0
    for f in funcs:
        seen_keys: dict[str, int] = {}
        for b in walk_no_nested(f.node):
            if not (isinstance(b, ast.BinOp) and isinstance(b.op, (ast.Mult, ast.FloorDiv, ast.Mod, ast.Div))):
                continue
            for q, r in ((b.left, b.right), (b.right, b.left)):
                ri = _const_index(r)
                if ri is None or ri[0] not in REPS:
                    continue
                qi = _const_index(q)
                opname = {ast.Mult: "*", ast.FloorDiv: "//", ast.Mod: "%", ast.Div: "/"}[type(b.op)]
                if qi is not None and qi[0] in GRID_Q:
                    want = qi[1]
                    what = f"{qi[0]}[{qi[1]}]"
                elif _tail(q) in Z_Q:
                    want = 2
                    what = _tail(q)
                else:
                    continue
                n += 1
                base = f"{f.qualname}:{what} {opname} repetitions"
                seen_keys[base] = seen_keys.get(base, 0) + 1
                construct = base if seen_keys[base] == 1 else f"{base}#{seen_keys[base]}"
                ctx.check(ri[1] == want, rule, construct, f.loc(b),
                          f"`{norm_text(b)}` pairs axis {want} with repetitions[{ri[1]}]",
                          f"`{norm_text(b)}` combines the axis-{want} quantity {what} with repetitions[{ri[1]}] "
                          f"(expected repetitions[{want}]): wrong for every supercell with unequal repetition counts",
                          key_detail="axis")
    ctx.require(n >= 8, f"R-AXISPAIR matched only {n} axis pairings (expected the CrystalPotential constructor, gpts "
                        "setter, num_slices and FieldArray.tile)")


def _check_crystal_generate(ctx, f: FuncInfo) -> None:
    """CrystalPotential.generate_slices: xy tiling by repetitions[:2], z repetition by repetitions[2]."""
    rule = "R-AXISPAIR"
    tiles = [c for c in walk_no_nested(f.node) if isinstance(c, ast.Call) and isinstance(c.func, ast.Attribute)
             and c.func.attr == "tile" and len(c.args) == 1 and dotted(c.func.value) not in ("np", "xp", "numpy")]
    ctx.require(len(tiles) == 1, f"{f.qualname}: expected one slice.tile(...) call")
    t = tiles[0]
    arg = t.args[0]
    ok = False
    desc = norm_text(arg)
    if isinstance(arg, ast.Subscript) and _tail(arg.value) in REPS and isinstance(arg.slice, ast.Slice):
        s = arg.slice
        ok = s.lower is None or (isinstance(s.lower, ast.Constant) and s.lower.value == 0)
        ok = ok and isinstance(s.upper, ast.Constant) and s.upper.value in (2, -1) and s.step is None
    elif isinstance(arg, (ast.Tuple, ast.List)) and len(arg.elts) in (2, 3):
        idx = [_const_index(e) for e in arg.elts[:2]]
        ok = all(i is not None and i[0] in REPS for i in idx) and [i[1] for i in idx] == [0, 1]
        if len(arg.elts) == 3:
            ok = ok and isinstance(arg.elts[2], ast.Constant) and arg.elts[2].value == 1
    else:
        raise AnalysisError(f"{f.qualname}: tile argument {desc} not understood")
    ctx.check(ok, rule, f"{f.qualname}:slice.tile", f.loc(t), f"each unit slice is tiled by {desc} = (x, y) repetitions",
              f"each unit slice is tiled by {desc}, which is not (repetitions[0], repetitions[1])", key_detail="xy-tile")
    yields = [y for y in walk_no_nested(f.node) if isinstance(y, ast.Yield)]
    ctx.require(bool(yields), f"{f.qualname} does not yield")
    st = _stmt_containing(f.node, yields[0])
    loops = enclosing_loops(f.node, st)
    zs = []
    for lp in loops:
        if isinstance(lp, ast.For) and isinstance(lp.iter, ast.Call) and call_name(lp.iter) == "range":
            for a in lp.iter.args:
                ci = _const_index(a)
                if ci is not None and ci[0] in REPS:
                    zs.append(ci[1])
    ctx.check(zs == [2], rule, f"{f.qualname}:z-repetition", f.loc(loops[0]) if loops else f.where,
              "the unit is repeated repetitions[2] times along z",
              f"the loop repeating the unit along z runs over repetitions{zs}, not repetitions[2]", key_detail="z-loop")


# ----------------------------------------------------------------------------------------- run
def run(ctx) -> None:
    repo = ctx.repo
    ctx.rule("R-WRAP", "every index component passed to xp.add.at / cupyx.scatter_add in superpose_deltas is, on every "
             "reaching definition (both the rounded and the sub-pixel arm, including the +1 neighbours), reduced "
             "modulo the length of the matching axis of the scatter target (component 0 by shape[0], component 1 by "
             "shape[1])")
    ctx.rule("R-PARTITION-OF-UNITY", "each weight vector scattered by superpose_deltas sums identically to 1 in the "
             "commutative-ring normal form (1+xy-y-x + x-xy + y-xy + xy == 1); optional per-atom weights only scale it")
    ctx.rule("R-TILE-AXES", "FieldArray.tile: the np.tile repetition of array axis x / y equals the factor applied to "
             "extent[0] / extent[1], and the repetition of the slice axis equals the tiling count of slice_thickness "
             "(term equality); the rebuilt object receives exactly those tiled pieces")
    ctx.rule("R-AXISPAIR", "in CrystalPotential and FieldArray.tile every product/quotient/remainder of a per-axis grid "
             "quantity q[k] (gpts, extent, sampling) with a component of the repetitions uses repetitions[k]; z "
             "quantities (thickness, slice_thickness, num_slices) pair with repetitions[2]; generate_slices tiles by "
             "repetitions[:2] and repeats repetitions[2] times")
    ctx.undecided("the covariance equalities themselves (numerical), finite projection (interpolate_radial_functions)")
    ctx.undecided("agreement of the first moments of the bilinear weights with the sub-pixel offset (not needed for the "
                  "mean-invariance clause)")

    sd = repo.function(INTEGRALS, "superpose_deltas")
    df, sinks = _check_wrap(ctx, sd)
    _check_partition(ctx, sd, df, sinks)

    _check_tile(ctx, repo.method(IAM, "FieldArray", "tile"))

    crystal = repo.cls(IAM, "CrystalPotential")
    funcs = [d for defs in crystal.methods.values() for d in defs] + [repo.method(IAM, "FieldArray", "tile")]
    _check_axispair(ctx, funcs)
    _check_crystal_generate(ctx, repo.method(IAM, "CrystalPotential", "generate_slices"))


# ---- added after the seeded change C08-r3seed3: per-axis components pair up inside the projection kernels
_inner_run_c08b = run


def run(ctx) -> None:  # noqa: F811
    import re as _re

    from ..terms import FlowNormalizer as _FN

    ctx.rule("R-COMPONENT", "in the projection kernels of abtem/integrals.py (superpose_deltas, "
             "interpolate_radial_functions and the other functions that take per-axis vectors) every product or "
             "quotient pairs like components: after inlining temporaries, a monomial that contains the coordinate "
             "component positions[.., a] (or a pixel offset disk_indices[.., a], a shape/gpts/extent component) and a "
             "sampling / gpts / shape component [b] has a == b.  A y coordinate divided by the x sampling places an "
             "atom's footprint at the wrong pixel as soon as the sampling is anisotropic — translation and tiling "
             "covariance then fail")
    repo = ctx.repo
    mod = repo.modules[INTEGRALS]
    COORD = ("positions", "position", "disk_indices", "indices")
    GRIDV = ("sampling", "gpts", "shape", "extent", "inverse_sampling")
    n = 0
    for f in mod.functions.values():
        params = set(f.params)
        if not (params & set(COORD)) or not (params & set(GRIDV)):
            continue
        df = DataFlow(f.node)
        bad = []
        n_mono = 0
        for node in df.cfg.nodes:
            st = node.ast
            if st is None or node.kind != "stmt" or not isinstance(st, (ast.Assign, ast.AugAssign)):
                continue
            nz = _FN(df, node.idx, identity_calls={"int", "round", "float", "floor", "ceil", "rint", "abs"})
            exprs = [st.value] + [a_ for c_ in ast.walk(st.value) if isinstance(c_, ast.Call) for a_ in c_.args]
            monos = []
            for e_ in exprs:
                try:
                    monos += list(nz.norm(e_).terms)
                except Exception:  # noqa: BLE001
                    continue
            for mono in monos:
                comps_c, comps_g = set(), set()
                for a, _e in mono:
                    # plain indexed atoms only: name[.., k]; composite atoms (sqrt(...), calls) are analysed
                    # through their own arguments above
                    m_ = _re.fullmatch(r"(?:1\*)?(\w+)\[(?:[^\[\]]*,)?(?:1\*)?(\d)\]", a)
                    if m_:
                        nm, k = m_.group(1), int(m_.group(2))
                        if nm in COORD:
                            comps_c.add((nm, k))
                        elif nm in GRIDV:
                            comps_g.add((nm, k))
                if comps_c and comps_g:
                    n_mono += 1
                    ks = {k for _, k in comps_c} | {k for _, k in comps_g}
                    if len(ks) > 1:
                        bad.append((st, sorted(comps_c), sorted(comps_g)))
        if n_mono == 0:
            continue
        n += 1
        ctx.check(not bad, "R-COMPONENT", f"{f.qualname}:components pair up", f.loc(bad[0][0]) if bad else f.where,
                  f"{n_mono} monomial(s) combine a coordinate component with the grid component of the same axis",
                  f"`{norm_text(bad[0][0])[:70]}` combines {bad[0][1]} with {bad[0][2]} (after inlining temporaries): a "
                  "coordinate of one axis is scaled by the grid quantity of the other axis" if bad else "",
                  key_detail="component")
    ctx.require(n >= 1, f"R-COMPONENT matched no kernel in {INTEGRALS}")
    _inner_run_c08b(ctx)


# ---- added after the mutation sweep: whole-pixel translation of the atoms, decided on terms
_inner_run_c08c = run


def _index_elements(f: FuncInfo, df: DataFlow, at: int, e: ast.AST, seen: Optional[set] = None, depth: int = 0):
    """(expression, cfg node) of every element of a scatter index component, with the periodic reduction removed."""
    seen = seen if seen is not None else set()
    if depth > 12:
        raise AnalysisError(f"{f.qualname}: scatter index built too deeply to enumerate")
    if isinstance(e, ast.BinOp) and isinstance(e.op, ast.Mod):
        yield e.left, at
    elif isinstance(e, ast.Call) and last_attr(e) in MOD_FUNCS and len(e.args) == 2:
        yield e.args[0], at
    elif isinstance(e, ast.Call) and last_attr(e) in ARRAY_CTORS and e.args:
        yield from _index_elements(f, df, at, e.args[0], seen, depth + 1)
    elif isinstance(e, ast.Call) and last_attr(e) in ("astype", "copy", "ravel", "flatten", "reshape") and \
            isinstance(e.func, ast.Attribute):
        yield from _index_elements(f, df, at, e.func.value, seen, depth + 1)
    elif isinstance(e, (ast.List, ast.Tuple)):
        for el in e.elts:
            yield from _index_elements(f, df, at, el, seen, depth + 1)
    elif isinstance(e, ast.BinOp) and isinstance(e.op, ast.Mult) and any(
            isinstance(x, ast.Constant) and isinstance(x.value, int) for x in (e.left, e.right)):
        seq = e.right if isinstance(e.left, ast.Constant) else e.left
        yield from _index_elements(f, df, at, seq, seen, depth + 1)
    elif isinstance(e, ast.BinOp) and isinstance(e.op, ast.Add) and all(_WrapAnalysis._is_seq(x) for x in (e.left, e.right)):
        yield from _index_elements(f, df, at, e.left, seen, depth + 1)
        yield from _index_elements(f, df, at, e.right, seen, depth + 1)
    elif isinstance(e, ast.Subscript) and not isinstance(e.slice, (ast.Slice,)) and all(
            (isinstance(p, ast.Constant) and p.value is None) or
            (isinstance(p, ast.Slice) and p.lower is None and p.upper is None and p.step is None)
            for p in (e.slice.elts if isinstance(e.slice, ast.Tuple) else [e.slice])):
        yield from _index_elements(f, df, at, e.value, seen, depth + 1)
    elif isinstance(e, ast.Name):
        rd = [d for d in df.reaching(at, e.id)]
        if not rd or any(d.kind != "assign" or d.value is None for d in rd):
            yield e, at
            return
        for d in rd:
            if (d.node, e.id) in seen:
                continue
            seen.add((d.node, e.id))
            st = df.cfg.nodes[d.node].ast
            if isinstance(st, ast.Assign) and isinstance(st.targets[0], (ast.Tuple, ast.List)) and \
                    not isinstance(st.value, (ast.Tuple, ast.List)):
                yield e, at
                continue
            yield from _index_elements(f, df, d.node, d.value, seen, depth + 1)
    else:
        yield e, at


def _weight_elements(f: FuncInfo, df: DataFlow, at: int, var: str, seen: Optional[set] = None):
    seen = seen if seen is not None else set()
    for d in df.reaching(at, var):
        if (d.node, var) in seen or d.kind != "assign" or d.value is None:
            continue
        seen.add((d.node, var))
        v = d.value
        if isinstance(v, ast.BinOp) and isinstance(v.op, ast.Mult) and any(
                isinstance(s, ast.Name) and s.id == var for s in (v.left, v.right)):
            yield from _weight_elements(f, df, d.node, var, seen)
            continue
        lit = _array_literal(v)
        if lit is not None:
            for el in lit.elts:
                yield el, d.node
        elif isinstance(v, ast.Name):
            yield from _weight_elements(f, df, d.node, v.id, seen)


def _check_equivariant(ctx) -> None:
    from ..rules import equivariant as eq

    rule = "R-EQUIVARIANT"
    repo = ctx.repo
    mod = repo.modules[INTEGRALS]
    n_idx = n_val = 0

    def judge(f, what, site, before, after, want_shift, kind):
        nonlocal n_idx, n_val
        want = before + want_shift
        if kind == "index":
            n_idx += 1
        else:
            n_val += 1
        ctx.check(after == want, rule, f"{f.qualname}:{what}", f.loc(site),
                  ("moves with the atoms by the same whole pixels" if kind == "index" else
                   "unchanged when the atoms move by whole pixels") + f" ({eq.show(before)})",
                  (f"after translating every atom by N whole pixels the {what} becomes {eq.show(after)} instead of "
                   f"{eq.show(want)}: " +
                   ("the footprint of an atom does not move by the same pixels as the atom" if kind == "index" else
                    "the value deposited for an atom depends on which pixel the atom sits in, not only on its "
                    "sub-pixel offset / its distance to the pixel")), key_detail=kind)

    # (A) the delta superposition works in pixel coordinates
    sd = repo.function(INTEGRALS, "superpose_deltas")
    coord = [p for p in sd.positional_params if p in ("positions", "position")]
    ctx.require(len(coord) == 1, f"{sd.qualname}: coordinate parameter not found")
    df = DataFlow(sd.node)
    sinks = _scatter_sinks(sd)
    if not sinks:
        ctx.info(rule, f"{sd.qualname}:scatter", sd.where, "no ufunc.at / scatter_add sink (flattened accumulation, see R-WRAP)")
    for c in sinks[:1]:
        if len(c.args) != 3:
            continue
        arr, idx, val = c.args
        at = df.cfg.node_of(_stmt_containing(sd.node, c)).idx
        if isinstance(idx, ast.Name):
            d = df.single_def(at, idx.id)
            if d is not None and isinstance(d.value, ast.Tuple):
                idx, at_i = d.value, d.node
            else:
                at_i = at
        else:
            at_i = at
        if not (isinstance(idx, ast.Tuple) and len(idx.elts) == 2):
            continue
        for axis, comp in enumerate(idx.elts):
            seen_keys = set()
            k = 0
            for el, at_el in _index_elements(sd, df, at_i, comp):
                tr = eq.Translate({coord[0]}, set(), None)
                before, after, hits = eq.translated_pair(df, at_el, el, tr)
                if before.key() in seen_keys:
                    continue
                seen_keys.add(before.key())
                k += 1
                judge(sd, f"pixel index[{axis}] element {k}", c, before, after, eq.n_atom(axis), "index")
        if isinstance(val, ast.Name):
            k = 0
            for el, at_el in _weight_elements(sd, df, at, val.id):
                tr = eq.Translate({coord[0]}, set(), None)
                before, after, hits = eq.translated_pair(df, at_el, el, tr)
                k += 1
                judge(sd, f"weight {k}", el, before, after, Poly(), "value")

    # (B) kernels that place every atom's footprint themselves (Å coordinates and a sampling vector)
    for f in mod.functions.values():
        ps = set(f.params)
        coord = [p for p in f.positional_params if p in ("positions", "position")]
        if len(coord) != 1 or "sampling" not in ps:
            continue
        dff = DataFlow(f.node)
        k = 0
        for node in dff.cfg.nodes:
            st = node.ast
            if node.kind != "stmt" or not isinstance(st, (ast.AugAssign, ast.Assign)):
                continue
            tgt = st.target if isinstance(st, ast.AugAssign) else st.targets[0]
            if not (isinstance(tgt, ast.Subscript) and isinstance(tgt.value, ast.Name) and tgt.value.id in ps
                    and isinstance(tgt.slice, ast.Tuple) and len(tgt.slice.elts) == 2):
                continue
            k += 1
            for axis, comp in enumerate(tgt.slice.elts):
                tr = eq.Translate({coord[0]}, set(), "sampling")
                before, after, hits = eq.translated_pair(dff, node.idx, comp, tr)
                judge(f, f"store #{k} pixel index[{axis}]", st, before, after, eq.n_atom(axis), "index")
            tr = eq.Translate({coord[0]}, set(), "sampling")
            before, after, hits = eq.translated_pair(dff, node.idx, st.value, tr)
            judge(f, f"store #{k} value", st, before, after, Poly(), "value")

    # (C) callers of the delta superposition convert Å to pixels
    for f in repo.all_functions():
        if f.module.name != INTEGRALS:
            continue
        calls = [c for c in walk_no_nested(f.node) if isinstance(c, ast.Call) and call_name(c) == sd.name and c.args]
        if not calls or "sampling" not in f.params or not ({"atoms", "positions"} & set(f.params)):
            continue
        dff = DataFlow(f.node)
        for k, c in enumerate(calls):
            at = dff.cfg.node_of(_stmt_containing(f.node, c)).idx
            tr = eq.Translate({"positions"} & set(f.params), {"atoms.positions"} if "atoms" in f.params else set(),
                              "sampling")
            before, after, hits = eq.translated_pair(dff, at, c.args[0], tr)
            ctx.require(hits >= 1, f"{f.qualname}: the pixel coordinates handed to {sd.name} do not read the atomic "
                                   "positions in a form the analyser can translate")
            judge(f, f"pixel coordinates passed to {sd.name}" + (f"#{k + 1}" if k else ""), c, before, after,
                  Poly.atom(eq.NV), "index")
    ctx.require(n_idx >= 8 and n_val >= 3, f"R-EQUIVARIANT examined only {n_idx} pixel indices / {n_val} deposited values")


def run(ctx) -> None:  # noqa: F811
    ctx.rule("R-EQUIVARIANT", "symbolic translation of every atom by N whole pixels (sa/rules/equivariant.py: full "
             "inlining, P[.., k] -> P[.., k] + N_k (* sampling[k] for Å coordinates), floor/round commute with integer "
             "shifts, term normal form): every pixel index at which superpose_deltas / interpolate_radial_functions "
             "deposit becomes index + N_k (before the periodic reduction), every deposited value (bilinear weights, "
             "interpolated radial function) is unchanged, and the pixel coordinates that integrate_on_grid hands to "
             "superpose_deltas become coordinates + N.  Otherwise the slice of the translated structure is not the "
             "translated slice")
    from ..rules import deferred

    deferred.run(ctx, lambda: _check_equivariant(ctx), _inner_run_c08c)


# ---- added after the mutation sweep: kernels that do not wrap guard their stores with the bounds of the same axis
_inner_run_c08d = run

_CMP = {ast.Lt: "<", ast.LtE: "<=", ast.Gt: ">", ast.GtE: ">="}
_NEG = {"<": ">=", "<=": ">", ">": "<=", ">=": "<"}


def _facts(test: ast.AST, truth: bool) -> list[tuple[ast.AST, str, ast.AST]]:
    """Order comparisons known to hold when `test` evaluates to `truth` (parts that are not understood add nothing)."""
    if isinstance(test, ast.UnaryOp) and isinstance(test.op, ast.Not):
        return _facts(test.operand, not truth)
    parts, conj = None, None
    if isinstance(test, ast.BoolOp):
        parts, conj = test.values, isinstance(test.op, ast.And)
    elif isinstance(test, ast.BinOp) and isinstance(test.op, (ast.BitAnd, ast.BitOr)):
        parts, conj = [test.left, test.right], isinstance(test.op, ast.BitAnd)
    if parts is not None:
        if conj == truth:
            return [x for p in parts for x in _facts(p, truth)]
        return []
    if isinstance(test, ast.Compare) and all(type(o) in _CMP for o in test.ops):
        sides = [test.left] + list(test.comparators)
        pairs = [(sides[i], _CMP[type(test.ops[i])], sides[i + 1]) for i in range(len(test.ops))]
        if truth:
            return pairs
        if len(pairs) == 1:
            l, o, r = pairs[0]
            return [(l, _NEG[o], r)]
    return []


def _check_bounds(ctx) -> None:
    rule = "R-BOUNDS"
    repo = ctx.repo
    mod = repo.modules[INTEGRALS]
    n = 0
    for f in mod.functions.values():
        ps = set(f.params)
        if not (ps & {"positions", "position"}) or "sampling" not in ps:
            continue
        df = DataFlow(f.node)
        cfg = df.cfg
        k = 0
        for node in cfg.nodes:
            st = node.ast
            if node.kind != "stmt" or not isinstance(st, (ast.AugAssign, ast.Assign)):
                continue
            tgt = st.target if isinstance(st, ast.AugAssign) else st.targets[0]
            if not (isinstance(tgt, ast.Subscript) and isinstance(tgt.value, ast.Name) and tgt.value.id in ps
                    and isinstance(tgt.slice, ast.Tuple) and len(tgt.slice.elts) == 2):
                continue
            k += 1
            arr = tgt.value.id
            wa = _WrapAnalysis(f, df, arr)
            # facts established by the tests that dominate the store
            facts = []
            for t in cfg.nodes:
                if t.kind != "test" or not isinstance(t.ast, ast.If) or not cfg.dominates(t.idx, node.idx):
                    continue
                arms = {cfg.elabel.get((t.idx, s)): s for s in t.succ}
                if set(arms) != {"T", "F"}:
                    continue

                def reach(src):
                    seen, stack = set(), [src]
                    while stack:
                        x = stack.pop()
                        if x == node.idx:
                            return True
                        if x in seen or x == t.idx:
                            continue
                        seen.add(x)
                        stack.extend(cfg.nodes[x].succ)
                    return False

                rt, rf = reach(arms["T"]), reach(arms["F"])
                if rt != rf:
                    facts += [(l, o, r, t.idx) for l, o, r in _facts(t.ast.test, rt)]
            for axis, comp in enumerate(tgt.slice.elts):
                if isinstance(comp, ast.BinOp) and isinstance(comp.op, ast.Mod):
                    continue  # periodic store: R-WRAP's business
                p = FlowNormalizer(df, node.idx).norm(comp)
                lows, ups, notes = [], [], []
                for l, o, r, at in facts:
                    pl, pr = FlowNormalizer(df, at).norm(l), FlowNormalizer(df, at).norm(r)
                    if pl == p and pr != p:
                        other, po, op = r, pr, o
                    elif pr == p and pl != p:
                        other, po, op = l, pl, {"<": ">", "<=": ">=", ">": "<", ">=": "<="}[o]
                    else:
                        continue
                    # now:  index  op  other
                    if op in (">", ">="):
                        c = po.const_value()
                        if c is None:
                            raise AnalysisError(f"{f.qualname}: lower bound `{norm_text(other)[:40]}` of a pixel index is not "
                                                "a constant")
                        lows.append(int(c) + (1 if op == ">" else 0))
                    else:
                        strict = op == "<"
                        e = other
                        if not strict and isinstance(e, ast.BinOp) and isinstance(e.op, ast.Sub) and \
                                isinstance(e.right, ast.Constant) and e.right.value == 1:
                            e, strict = e.left, True
                        ax = wa.axis_len(e, at)
                        if ax is None:
                            raise AnalysisError(f"{f.qualname}: upper bound `{norm_text(other)[:40]}` of a pixel index is not "
                                                f"an axis length of `{arr}`")
                        ups.append((ax, strict))
                n += 1
                lo_ok = bool(lows) and max(lows) == 0
                up_ok = bool(ups) and all(ax == axis for ax, _ in ups) and any(s for _, s in ups) and \
                    all(s for ax, s in ups)
                why = []
                if not lows:
                    why.append("no test keeps the index >= 0")
                elif max(lows) != 0:
                    why.append(f"the index is only stored for values >= {max(lows)}" if max(lows) > 0 else
                               f"indices down to {max(lows)} are stored")
                if not ups:
                    why.append(f"no test keeps the index below {arr}.shape[{axis}]")
                else:
                    if any(ax != axis for ax, _ in ups):
                        why.append(f"the index of axis {axis} is compared with the length of axis "
                                   f"{[ax for ax, _ in ups if ax != axis][0]}")
                    if any(not s for _, s in ups):
                        why.append(f"the index may equal {arr}.shape[{axis}]")
                ctx.check(lo_ok and up_ok, rule, f"{f.qualname}:store #{k} index[{axis}]", f.loc(st),
                          f"stored only for 0 <= index < {arr}.shape[{axis}]",
                          f"the pixel index `{norm_text(comp)}` of axis {axis} is not confined to exactly "
                          f"[0, {arr}.shape[{axis}]): " + "; ".join(why) + " — a footprint pixel inside the grid is dropped "
                          "or one outside it is written (to another row/column or out of bounds), so the slice of a "
                          "translated structure is not the translated slice", key_detail="bounds")
    ctx.require(n >= 4, f"R-BOUNDS examined only {n} guarded pixel indices")


def run(ctx) -> None:  # noqa: F811
    ctx.rule("R-BOUNDS", "a kernel that places footprints without periodic reduction (interpolate_radial_functions: the "
             "atoms are padded periodically beforehand) stores at array[k, m] only under tests that confine each index "
             "to exactly [0, array.shape[axis]) of its own axis (facts collected from the dominating tests on the arm that "
             "reaches the store, conjunctions / negated disjunctions, term equality of the compared index).  A looser "
             "bound writes outside the grid, a stricter one or the length of the other axis drops pixels of the "
             "footprint near one edge only — the potential then depends on where in the cell an atom sits")
    from ..rules import deferred

    deferred.run(ctx, lambda: _check_bounds(ctx), _inner_run_c08d)


# ---- added after the mutation sweep: normalisation of the repetitions in tile, atom loops, CrystalPotential window
_inner_run_c08e = run


def _guards_of(func: ast.AST, stmt: ast.AST) -> list[tuple[ast.If, bool]]:
    out: list[tuple[ast.If, bool]] = []

    def rec(body, stack) -> bool:
        for st in body:
            if st is stmt:
                out.extend(stack)
                return True
            if isinstance(st, ast.If):
                if rec(st.body, stack + [(st, True)]) or rec(st.orelse, stack + [(st, False)]):
                    return True
            elif isinstance(st, (ast.For, ast.While, ast.With, ast.Try)):
                for fld in ("body", "orelse", "finalbody"):
                    if rec(getattr(st, fld, []) or [], stack):
                        return True
                for h in getattr(st, "handlers", []):
                    if rec(h.body, stack):
                        return True
        return False

    rec(func.body, [])
    return out


def _check_tile_pad(ctx, f: FuncInfo) -> None:
    rule = "R-TILE-PAD"
    ctx.require(len(f.positional_params) >= 2, f"{f.qualname}: repetitions parameter not found")
    par = f.positional_params[1]
    df = DataFlow(f.node)
    n = 0
    for st in walk_no_nested(f.node):
        if not (isinstance(st, ast.Assign) and any(isinstance(t, ast.Name) and t.id == par for t in st.targets)):
            continue
        n += 1
        at = df.cfg.node_of(st).idx
        ctx.require(all(d.kind == "param" for d in df.reaching(at, par)),
                    f"{f.qualname}: `{par}` is reassigned more than once")
        v = st.value
        taken: Optional[list[int]] = None
        pad: list[ast.AST] = []
        if isinstance(v, (ast.Tuple, ast.List)):
            taken = []
            for el in v.elts:
                ci = _const_index(el)
                if ci is not None and ci[0] == par and not pad:
                    taken.append(ci[1])
                else:
                    pad.append(el)
        elif isinstance(v, ast.BinOp) and isinstance(v.op, ast.Add) and isinstance(v.right, (ast.Tuple, ast.List)):
            left = v.left
            while isinstance(left, ast.Call) and call_name(left) in ("tuple", "list") and len(left.args) == 1:
                left = left.args[0]
            if isinstance(left, ast.Name) and left.id == par:
                taken, pad = [], list(v.right.elts)  # the whole sequence, in order
        ctx.require(taken is not None, f"{f.qualname}: cannot read `{norm_text(st)[:70]}` as a padding of `{par}`")
        m_guard = None
        for g, arm in _guards_of(f.node, st):
            t = g.test
            if isinstance(t, ast.Compare) and len(t.ops) == 1 and isinstance(t.left, ast.Call) and \
                    call_name(t.left) == "len" and t.left.args and dotted(t.left.args[0]) == par and \
                    isinstance(t.comparators[0], ast.Constant) and isinstance(t.comparators[0].value, int):
                if (isinstance(t.ops[0], ast.Eq) and arm) or (isinstance(t.ops[0], ast.NotEq) and not arm):
                    m_guard = t.comparators[0].value
        order_ok = taken == list(range(len(taken)))
        ctx.check(order_ok, rule, f"{f.qualname}:components keep their axes", f.loc(st),
                  f"`{norm_text(v)[:60]}` keeps component k at position k",
                  f"`{norm_text(st)[:70]}` puts components {taken} of `{par}` at positions {list(range(len(taken)))}: the x "
                  "and y repetition counts are exchanged for a two-component argument", key_detail="order")
        ones = all(isinstance(e, ast.Constant) and e.value == 1 for e in pad)
        n_taken = len(taken) if isinstance(v, (ast.Tuple, ast.List)) else m_guard
        ok_len = m_guard is not None and n_taken == m_guard and ones and (m_guard + len(pad) == 3)
        ctx.check(ok_len, rule, f"{f.qualname}:padding applies to short arguments only", f.loc(st),
                  f"executed when len({par}) == {m_guard}; padded with {len(pad)} one(s) to (x, y, z)",
                  f"`{norm_text(st)[:70]}` " + (
                      f"is executed without the guarantee len({par}) == {n_taken}" if m_guard is None else
                      f"is executed when len({par}) == {m_guard} but rebuilds the tuple from {n_taken} component(s) and "
                      f"{len(pad)} padding value(s)") +
                  ": a three-component argument loses its z repetition / the padded components are not 1, so the tiled "
                  "array is not the requested supercell", key_detail="guard")
    if n == 0:
        ctx.ok(rule, f"{f.qualname}:repetitions used as given", f.where, f"`{par}` is never rebuilt")


def _check_atom_loops(ctx) -> None:
    rule = "R-ATOMLOOP"
    repo = ctx.repo
    mod = repo.modules[INTEGRALS]
    n = 0
    for f in mod.functions.values():
        coords = [p for p in f.params if p in ("positions", "position")]
        if not coords or "sampling" not in f.params:
            continue
        for lp in walk_no_nested(f.node):
            if not (isinstance(lp, ast.For) and isinstance(lp.target, ast.Name) and isinstance(lp.iter, ast.Call)
                    and call_name(lp.iter) in ("range", "prange", "numba.prange", "nb.prange") and len(lp.iter.args) == 1):
                continue
            b = lp.iter.args[0]
            arr, axis = None, None
            if isinstance(b, ast.Call) and call_name(b) == "len" and b.args and isinstance(b.args[0], ast.Name):
                arr, axis = b.args[0].id, 0
            elif isinstance(b, ast.Subscript) and isinstance(b.slice, ast.Constant) and isinstance(b.slice.value, int) \
                    and isinstance(b.value, ast.Attribute) and b.value.attr == "shape" and isinstance(b.value.value, ast.Name):
                arr, axis = b.value.value.id, b.slice.value
            if arr not in coords:
                continue
            used = set()
            for s in ast.walk(lp):
                if isinstance(s, ast.Subscript) and isinstance(s.value, ast.Name) and s.value.id == arr:
                    parts = s.slice.elts if isinstance(s.slice, ast.Tuple) else [s.slice]
                    for pos, p_ in enumerate(parts):
                        if isinstance(p_, ast.Name) and p_.id == lp.target.id:
                            used.add(pos)
            if not used:
                continue
            n += 1
            ctx.check(used == {axis}, rule, f"{f.qualname}:loop over the atoms", f.loc(lp),
                      f"the loop runs over axis {axis} of the coordinates and indexes that axis",
                      f"`for … in {norm_text(lp.iter)}` runs over the length of axis {axis} of the coordinate array but its "
                      f"index is used on axis {sorted(used)}: only the first {norm_text(b)} atoms are placed, so the potential "
                      "of a repeated cell is not the tiled potential of the unit", key_detail="axis")
    ctx.require(n >= 1, "R-ATOMLOOP found no loop over the atoms in the projection kernels")


def run(ctx) -> None:  # noqa: F811
    from . import c10

    ctx.rule("R-TILE-PAD", "FieldArray.tile may normalise a two-component repetitions argument to (x, y, 1): the rebuilt "
             "tuple keeps component k at position k, pads with ones up to three components, and is executed only on the "
             "arm where len(repetitions) equals the number of components it copies")
    ctx.rule("R-ATOMLOOP", "a loop `for i in range(positions.shape[a])` / `range(len(positions))` of a projection kernel "
             "uses i on axis a of the coordinate array: a loop over the length of the coordinate axis places only the "
             "first two or three atoms, which breaks the equality of a repeated cell with the tiled unit")
    ctx.rule("R-WINCOUNT", c10.WINCOUNT_TEXT + "  (rule of C10; CrystalPotential.build fills a pre-allocated array from "
             "this generator, so a skipped first slice makes the repeated potential differ from the tiled unit)")
    from ..rules import deferred, window

    def new():
        _check_tile_pad(ctx, ctx.repo.method(IAM, "FieldArray", "tile"))
        _check_atom_loops(ctx)
        f = ctx.repo.method(IAM, "CrystalPotential", "generate_slices")
        got = window.check_counter(ctx, "R-WINCOUNT", f)
        ctx.require(got >= 2, f"{f.qualname}: the slice counter tests were not found")

    deferred.run(ctx, new, _inner_run_c08e)


# ---- added after the seeded change C08-r4seed0: filters on the periodic potential grid wrap
_inner_run_c08f = run

FILTERWRAP_MODULES = ("abtem.integrals", "abtem.potentials.iam", "abtem.slicing")


def run(ctx) -> None:  # noqa: F811
    from ..rules import deferred, filterwrap

    ctx.rule("R-FILTERWRAP", filterwrap.__doc__.split("\n\n", 1)[1])

    def new():
        funcs = [f for f in ctx.repo.all_functions() if f.module.name in FILTERWRAP_MODULES]
        ctx.require(len(funcs) >= 40, "R-FILTERWRAP: the potential modules were not found")
        n = filterwrap.check(ctx, "R-FILTERWRAP", funcs, lambda f: f.module.imports)
        ctx.require(n >= 1, "R-FILTERWRAP: no ndimage filter found in the potential integrators (the thermal smearing "
                    "of the quadrature integrator moved)")

    deferred.run(ctx, new, _inner_run_c08f)


# ---- added after the seeded change C08-r6seed0: the padding margin bounds the cutoff of every species
_inner_run_c08g = run

MARGIN_SKIP_MODULES = ("abtem.visualize",)  # pad_atoms there only decorates a plot of the cell


def _check_own_cutoff(ctx, rule: str) -> int:
    """The table a finite-range integrator builds for one species extends to the cutoff of THAT species: the builder
    pads with `cutoff(symbol)` of the species present, so a table built with the cutoff of another (fixed) species can
    reach further than the margin."""
    n = 0
    for c in ctx.repo.all_classes():
        if c.module.name != INTEGRALS or c.find_method("cutoff") is None:
            continue
        for defs in c.methods.values():
            for f in defs:
                ps = f.positional_params
                if len(ps) < 2 or f.name == "cutoff":
                    continue
                df = None
                for call in walk_no_nested(f.node):
                    if not (isinstance(call, ast.Call) and isinstance(call.func, ast.Attribute) and call.func.attr == "cutoff"
                            and isinstance(call.func.value, ast.Name) and call.func.value.id == ps[0] and len(call.args) == 1):
                        continue
                    df = df or DataFlow(f.node)
                    at = df.cfg.node_of(_stmt_containing(f.node, call)).idx
                    a = call.args[0]
                    construct = f"{f.qualname}:cutoff of the species the table is built for"
                    if isinstance(a, ast.Constant):
                        n += 1
                        ctx.violation(rule, construct, f.loc(call),
                                      f"`{norm_text(call)}` takes the cutoff of the fixed species {a.value!r}, not of the "
                                      "species the table is built for: the footprint can reach further than the padding "
                                      "margin computed from the species present", key_detail="own-species")
                    elif isinstance(a, ast.Name) and a.id in ps[1:] and all(
                            d.kind == "param" for d in df.reaching(at, a.id)):
                        n += 1
                        ctx.ok(rule, construct, f.loc(call), f"`{norm_text(call)}` uses the method's own species parameter")
                    else:
                        ctx.info(rule, construct, f.loc(call), f"`{norm_text(call)}`: species argument not a plain parameter")
    return n


def run(ctx) -> None:  # noqa: F811
    from ..rules import deferred, marginall

    ctx.rule("R-MARGINALL", marginall.__doc__.split("\n\n", 1)[1].split("Abstract values:")[0] +
             "The margin must be the maximum (max / np.max / sorted[-1] / a running maximum) over a collection that holds "
             "one <integrator>.cutoff(species) for every species of the atoms — a comprehension / loop / dict over "
             "np.unique(numbers) or an equivalent, with no filter and no selection of species by number, position, mass "
             "or count.  A minimum, a mean, one element, the cutoff of one selected species, or the constant 0 where the "
             "integrator may be finite, is a violation; so is a table of a finite-range integrator built with the cutoff "
             "of a fixed species instead of its own")

    def new():
        repo = ctx.repo
        pad = repo.function("abtem.atoms", "pad_atoms")
        ctx.require("margins" in pad.params, "pad_atoms has no `margins` parameter any more")
        cut = repo.modules["abtem.atoms"].functions.get("cut_cell")
        sliced = repo.modules["abtem.slicing"].classes.get("SlicedAtoms") if "abtem.slicing" in repo.modules else None
        ctx.require(any(c.own_method("cutoff") is not None and c.own_method("finite") is not None
                        for c in repo.modules[INTEGRALS].classes.values()),
                    "no integrator base class with .cutoff(symbol) and .finite found in abtem.integrals")
        funcs = [f for f in repo.all_functions() if not f.module.name.startswith(MARGIN_SKIP_MODULES)
                 and f.module.name != "abtem.atoms"]
        n = marginall.check(ctx, "R-MARGINALL", funcs, pad, cut, sliced)
        ctx.require(n >= 1, "R-MARGINALL: no pad_atoms call that generates the in-plane periodic images was found")
        n2 = _check_own_cutoff(ctx, "R-MARGINALL")
        ctx.require(n2 >= 1, "R-MARGINALL: no integrator table built from self.cutoff(symbol) found")

    deferred.run(ctx, new, _inner_run_c08g)


# ---- added after the seeded change C08-r8seed1: the wrap tolerance does not leave atoms outside the crop tolerance
_inner_run_c08h = run


def run(ctx) -> None:  # noqa: F811
    from ..rules import deferred

    ctx.rule("R-WRAPEPS", "the periodic builder wraps the atoms into the cell (`atoms.wrap(eps=e)`: ASE maps scaled "
             "coordinates into [-e, 1-e)) and then crops with atoms_in_cell, which keeps scaled coordinates >= -margin - t "
             "(t read from the comparison in atoms_in_cell).  With margin 0 (infinite projection) every atom survives "
             "only if e <= t: an atom left in (-e, -t) by the wrap is outside the crop and silently dropped, so a "
             "translation that puts an atom a hair below a cell face loses it.  `wrap()` without eps uses ASE's default "
             "1e-7")

    def new():
        repo = ctx.repo
        f = repo.method(IAM, "_FieldBuilderFromAtoms", "_prepare_atoms")
        crop = repo.function("abtem.atoms", "atoms_in_cell")
        tols = []
        for n in walk_no_nested(crop.node):
            if isinstance(n, ast.BinOp) and isinstance(n.op, ast.Sub) and isinstance(n.right, ast.Constant) and isinstance(
                    n.right.value, float) and 0 < n.right.value < 1e-6:
                tols.append(n.right.value)
        ctx.require(len(set(tols)) == 1, f"{crop.qualname}: the lower crop tolerance was not identified ({tols})")
        t = tols[0]
        wraps = [c for c in walk_no_nested(f.node) if isinstance(c, ast.Call) and isinstance(c.func, ast.Attribute)
                 and c.func.attr == "wrap"]
        ctx.require(len(wraps) >= 1, f"{f.qualname}: no wrap of the atoms into the cell found")
        for c in wraps:
            eps = next((k.value for k in c.keywords if k.arg == "eps"), None)
            if eps is None and c.args:
                raise AnalysisError(f"{f.qualname}: positional arguments of wrap() are not read")
            if eps is None:
                val, shown = 1e-7, "ASE's default 1e-7 (no eps given)"
            elif isinstance(eps, ast.Constant) and isinstance(eps.value, (int, float)):
                val, shown = float(eps.value), repr(eps.value)
            else:
                raise AnalysisError(f"{f.qualname}: wrap tolerance `{norm_text(eps)}` is not a constant")
            ctx.check(0 <= val <= t, "R-WRAPEPS", f"{f.qualname}:wrap tolerance", f.loc(c),
                      f"wrap tolerance {shown} <= crop tolerance {t}",
                      f"`{norm_text(c)}` wraps with tolerance {shown}, larger than the tolerance {t} with which "
                      f"{crop.name} keeps atoms below the cell face: atoms with scaled coordinate in (-{val}, -{t}) are "
                      "left outside by the wrap and dropped by the crop (infinite projection: margin 0)",
                      key_detail="eps")

    deferred.run(ctx, new, _inner_run_c08h)
