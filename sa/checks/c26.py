"""C26 — Bloch-wave dynamical diffraction conserves intensity (abtem/bloch/dynamical.py).

  R-TERM      the eigen-decomposition path multiplies eigenvalue x thickness by the same scalar as the
              matrix-exponential path multiplies structure matrix x thickness  (i*pi*lambda).
  R-UNITARY   that scalar is purely imaginary (otherwise exp(...) of a Hermitian matrix is not unitary and
              the intensities do not sum to one).
  R-TWIN      StructureFactor.build, BlochWaves.calculate_structure_matrix and BlochWaves._calculate_array
              apply the same callee to the same arguments in their lazy and eager arms.
  R-EIGVEC    the eigenvector matrix of eigh is used with its conjugate transpose as inverse only if it
              has not been partially overwritten in between.
  R-WRITABLE  arrays that calculate_structure_matrix (and the other bloch functions) update in place are
              writable buffers, not read-only views handed out by pandas.
"""
from __future__ import annotations

import ast

from ..cfg import DataFlow
from ..model import AnalysisError, FuncInfo, bind_args, call_name, dotted, last_attr, norm_text, walk_no_nested
from ..rules import twins
from ..rules.arrayown import READONLY, Ownership
from ..rules.versioned import CanonNormalizer
from ..terms import Poly

MOD = "abtem.bloch.dynamical"
I_ATOM = "𝑖"


def _k(p: Poly) -> str:
    k = p.key()
    return k[2:] if k.startswith("1*") and " + " not in k else k


def _stmt_of(func: ast.FunctionDef, target: ast.AST) -> ast.stmt:
    best = None
    for st in walk_no_nested(func):
        if isinstance(st, ast.stmt) and not isinstance(st, (ast.If, ast.For, ast.While, ast.With, ast.Try,
                                                            ast.FunctionDef)):
            if any(n is target for n in ast.walk(st)):
                best = st
    if best is None:
        raise AnalysisError(f"{func.name}: statement of `{norm_text(target)[:40]}` not found")
    return best


def _caller_alias(repo, caller: FuncInfo, callee: FuncInfo) -> dict[str, str]:
    """Parameter of `callee` -> canonical name of what the BlochWaves method passes for it (`self.energy` ...).
    Makes the two paths comparable independently of how each function names its parameters."""
    calls = [c for c in walk_no_nested(caller.node) if isinstance(c, ast.Call) and call_name(c) == callee.name]
    # through map_blocks as well
    for c in walk_no_nested(caller.node):
        if isinstance(c, ast.Call) and last_attr(c) == "map_blocks" and c.args and dotted(c.args[0]) == callee.name:
            calls.append(c)
    out: dict[str, str] = {}
    for c in calls:
        b = bind_args(c, callee) if last_attr(c) != "map_blocks" else {k.arg: k.value for k in c.keywords if k.arg}
        for p, a in b.items():
            d = dotted(a)
            if d is not None and d.startswith("self.") and p in callee.params:
                if out.get(p, d) != d:
                    raise AnalysisError(f"{caller.qualname}: {callee.name} receives different values for `{p}`")
                out[p] = d
    return out


def _split(p: Poly, roles: dict[str, set[str]], what: str):
    """p must be a monomial; remove exactly one atom of every role (exponent 1) -> remaining scalar."""
    if len(p.terms) != 1:
        raise AnalysisError(f"{what}: the phase {_k(p)[:100]} is not a product")
    (mono, coef), = p.terms.items()
    rest = []
    found = {r: [] for r in roles}
    for a, e in mono:
        hit = [r for r, names in roles.items() if a in names]
        if hit:
            found[hit[0]].append((a, e))
        else:
            rest.append((a, e))
    return found, Poly({tuple(sorted(rest)): coef})


def run(ctx) -> None:
    repo = ctx.repo
    ctx.rule("R-TERM", "phase of the eigen path exp(s1 * thickness * eigenvalue) and of the matrix-exponential path "
             "expm(s2 * thickness * A): thickness and spectrum enter linearly and s1 == s2 as terms over the "
             "BlochWaves attributes (i*pi*wavelength(energy))")
    ctx.rule("R-UNITARY", "the scalar multiplying the Hermitian spectrum in the phase is an odd power of the imaginary "
             "unit times real factors")
    ctx.rule("R-TWIN", twins.__doc__.split("\n\n", 1)[1][:400])
    ctx.rule("R-EIGVEC", "between eigh and the propagation the eigenvector matrix is not partially overwritten in place "
             "(diagonal / slice store) while its conjugate transpose serves as its inverse: a unitary matrix with a "
             "rescaled diagonal is no longer unitary, so the eigen path loses sum(I)=1 and departs from the "
             "matrix-exponential path, which applies the similarity M S M^-1")
    ctx.rule("R-WRITABLE", "an array that a function of abtem.bloch updates in place (`x *= ..`, fill_diagonal(x, ..), "
             "x[..] = ..) is not a read-only view (`Series.to_numpy()` / `.values` without copy under pandas "
             "Copy-on-Write), followed through reshape/asarray views and package-internal calls")
    ctx.assume("pandas >= 3 (installed: 3.0.5, not pinned by the package) returns read-only arrays from "
               "Series.to_numpy() unless copy=True")
    ctx.undecided("sum of intensities == 1, the zero-thickness limit and the numerical agreement of expm with the "
                  "eigendecomposition (unitarity of a floating-point eigendecomposition)")

    eig = repo.function(MOD, "calculate_dynamical_scattering")
    exm = repo.function(MOD, "calculate_scattering_matrix")
    bw_arr = repo.method(MOD, "BlochWaves", "_calculate_array")
    bw_sm = repo.method(MOD, "BlochWaves", "calculate_scattering_matrix")

    # ---------------- R-TWIN
    for cls, meth in (("StructureFactor", "build"), ("BlochWaves", "calculate_structure_matrix"),
                      ("BlochWaves", "_calculate_array")):
        f = repo.method(MOD, cls, meth)
        sites = list(twins.find_twin_sites(f))
        ctx.require(len(sites) >= 1, f"{f.qualname}: no lazy/eager branch found")
        compared, untwinned = twins.check_function(ctx, f, "R-TWIN")
        if compared == 0:
            wrapped = [norm_text(c.args[0]) for _, lazy_arm, _ in sites for s in lazy_arm for c in ast.walk(s)
                       if isinstance(c, ast.Call) and last_attr(c) == "map_blocks" and c.args]
            if not wrapped:
                raise AnalysisError(f"{f.qualname}: the lazy arm no longer uses map_blocks")
            ctx.violation("R-TWIN", f"{f.qualname}:{wrapped[0]}", f.where,
                          f"the lazy arm maps `{wrapped[0]}` over the blocks but the eager arm never calls "
                          f"`{wrapped[0]}`: the two arms compute different things", key_detail="callee")

    # ---------------- R-TERM / R-UNITARY
    scalars = []
    # eigen path
    df = DataFlow(eig.node)
    alias = _caller_alias(repo, bw_arr, eig)
    eigh = [st for st in walk_no_nested(eig.node) if isinstance(st, ast.Assign) and isinstance(st.value, ast.Call)
            and last_attr(st.value) in ("eigh", "eig") and isinstance(st.targets[0], ast.Tuple)
            and len(st.targets[0].elts) == 2 and all(isinstance(e, ast.Name) for e in st.targets[0].elts)]
    ctx.require(len(eigh) == 1, f"{eig.qualname}: expected one `values, vectors = eigh(structure_matrix)`")
    ev_name, vec_name = (e.id for e in eigh[0].targets[0].elts)
    ctx.require(eigh[0].value.args and dotted(eigh[0].value.args[0]) == eig.positional_params[0],
                f"{eig.qualname}: eigh is not applied to the structure-matrix parameter")
    t_param = [p for p in eig.positional_params if p.startswith("thickness")]
    ctx.require(len(t_param) == 1, f"{eig.qualname}: thickness parameter not found")
    t_param = t_param[0]
    loop_vars = set()
    for n in walk_no_nested(eig.node):
        if isinstance(n, ast.For) and t_param in {x.id for x in ast.walk(n.iter) if isinstance(x, ast.Name)}:
            tg = n.target.elts[-1] if isinstance(n.target, ast.Tuple) and call_name(n.iter) == "enumerate" else n.target
            if isinstance(tg, ast.Name):
                loop_vars.add(tg.id)
    exps = [c for c in walk_no_nested(eig.node) if isinstance(c, ast.Call) and last_attr(c) == "exp" and c.args]
    ctx.require(len(exps) >= 1, f"{eig.qualname}: no exp(...) phase found")
    for c in exps:
        st = _stmt_of(eig.node, c)
        node = df.cfg.node_of(st).idx
        nz = CanonNormalizer(df, node, atom_alias=alias)
        p = nz.norm(c.args[0])
        t_atoms = {a for a in nz.norm(ast.Name(id=t_param, ctx=ast.Load())).atoms()} | \
            {a for v in loop_vars for a in nz.norm(ast.Name(id=v, ctx=ast.Load())).atoms()}
        e_atoms = set(nz.norm(ast.Name(id=ev_name, ctx=ast.Load())).atoms())
        found, rest = _split(p, {"thickness": t_atoms, "spectrum": e_atoms}, eig.qualname)
        arm = "loop over thicknesses" if df.cfg.node_of(st).loops else "scalar thickness"
        lin = all(len(v) == 1 and v[0][1] == 1 for v in found.values())
        ctx.check(lin, "R-TERM", f"{eig.qualname}:phase linear [{arm}]", eig.loc(c),
                  f"exp({_k(p)}) is linear in thickness and eigenvalue",
                  f"the phase exp({_k(p)}) is not linear in the thickness and in the eigenvalues of the structure "
                  "matrix", key_detail="linear")
        if lin:
            scalars.append((f"{eig.qualname}:{arm}", eig.loc(c), rest, eig))
    # matrix-exponential path
    dfx = DataFlow(exm.node)
    aliasx = _caller_alias(repo, bw_sm, exm)
    xcalls = [c for c in walk_no_nested(exm.node) if isinstance(c, ast.Call) and last_attr(c) == "expm" and c.args]
    ctx.require(len(xcalls) == 1, f"{exm.qualname}: expected one expm(...) call")
    xc = xcalls[0]
    xst = _stmt_of(exm.node, xc)
    nzx = CanonNormalizer(dfx, dfx.cfg.node_of(xst).idx, atom_alias=aliasx)
    px = nzx.norm(xc.args[0])
    a_param = exm.positional_params[0]
    z_param = [p for p in exm.positional_params if p in ("z", "thickness", "thicknesses")]
    ctx.require(len(z_param) == 1, f"{exm.qualname}: thickness parameter not found")
    a_atoms = set(nzx.norm(ast.Name(id=a_param, ctx=ast.Load())).atoms())
    z_atoms = set(nzx.norm(ast.Name(id=z_param[0], ctx=ast.Load())).atoms())
    foundx, restx = _split(px, {"thickness": z_atoms, "spectrum": a_atoms}, exm.qualname)
    linx = all(len(v) == 1 and v[0][1] == 1 for v in foundx.values())
    ctx.check(linx, "R-TERM", f"{exm.qualname}:phase linear", exm.loc(xc),
              f"expm({_k(px)}) is linear in thickness and structure matrix",
              f"the exponent expm({_k(px)}) is not linear in the thickness and the structure matrix", key_detail="linear")
    # the BlochWaves method hands its own structure matrix / thickness to the expm path
    bsm = [c for c in walk_no_nested(bw_sm.node) if isinstance(c, ast.Call) and call_name(c) == exm.name]
    ctx.require(len(bsm) == 1, f"{bw_sm.qualname}: expected one call of {exm.name}")
    if linx:
        for label, where, rest, fn in scalars:
            ctx.check(rest == restx, "R-TERM", f"{label}:scalar == expm scalar", where,
                      f"both paths use {_k(rest)}",
                      f"the eigen path multiplies thickness x eigenvalue by {_k(rest)} but the matrix-exponential path "
                      f"multiplies thickness x A by {_k(restx)}: the two paths describe different propagation "
                      "distances / wavelengths", key_detail="scalar")
        scalars.append((f"{exm.qualname}:expm", exm.loc(xc), restx, exm))
    for label, where, rest, fn in scalars:
        (mono, coef), = rest.terms.items()
        ipow = sum(e for a, e in mono if a == I_ATOM)
        other_complex = [a for a, _ in mono if "j" in a and a[0].isdigit()]
        ctx.check(ipow.denominator == 1 and ipow % 2 == 1 and not other_complex, "R-UNITARY", f"{label}:imaginary", where,
                  f"scalar {_k(rest)} is imaginary",
                  f"the scalar {_k(rest)} multiplying the Hermitian spectrum is not purely imaginary: exp(...) is not "
                  "unitary and the diffracted intensities do not sum to one", key_detail="imag")

    # ---------------- R-EIGVEC
    muts = []
    for st in walk_no_nested(eig.node):
        if isinstance(st, ast.Expr) and isinstance(st.value, ast.Call) and last_attr(st.value) == "fill_diagonal" \
                and st.value.args and dotted(st.value.args[0]) == vec_name:
            muts.append((st, "fill_diagonal"))
        elif isinstance(st, ast.Assign) and any(isinstance(t, ast.Subscript) and dotted(t.value) == vec_name
                                                for t in st.targets):
            muts.append((st, "store"))
        elif isinstance(st, ast.AugAssign) and isinstance(st.target, ast.Subscript) and \
                dotted(st.target.value) == vec_name:
            muts.append((st, "store"))
    adj = []
    for st in walk_no_nested(eig.node):
        if isinstance(st, ast.Assign) and st is not eigh[0]:
            v = st.value
            uses_t = any(isinstance(n, ast.Attribute) and n.attr in ("T", "H") and dotted(n.value) == vec_name
                         for n in ast.walk(v)) or any(
                isinstance(n, ast.Call) and last_attr(n) in ("transpose", "swapaxes") and any(
                    dotted(a) == vec_name for a in n.args) for n in ast.walk(v))
            inv = any(isinstance(n, ast.Call) and last_attr(n) in ("inv", "pinv", "solve") for n in ast.walk(v))
            if uses_t and not inv:
                adj.append(st)
    ctx.require(bool(adj) or not muts, f"{eig.qualname}: cannot see how the eigenvector matrix is inverted")
    if not muts:
        ctx.ok("R-EIGVEC", f"{eig.qualname}:eigenvector matrix", eig.loc(eigh[0]),
               f"`{vec_name}` is used as returned by eigh" + (f"; inverse `{norm_text(adj[0])}`" if adj else ""))
    for st, kind in muts:
        ctx.violation("R-EIGVEC", f"{eig.qualname}:eigenvector matrix", eig.loc(st),
                      f"`{norm_text(st)}` overwrites part of the unitary eigenvector matrix `{vec_name}` in place and "
                      f"`{norm_text(adj[0])}` then uses the conjugate transpose of the modified matrix as its inverse. "
                      "The matrix-exponential path applies the similarity M·S·M⁻¹ (rows scaled by Mii, columns by "
                      "1/Mii); rescaling only the diagonal is neither, so for reflections with g_z != 0 (HOLZ) the "
                      "eigen path and the expm path give different intensities", key_detail=kind)

    # ---------------- R-WRITABLE
    own = Ownership(repo)
    examined = 0
    for modname in ("abtem.bloch.dynamical", "abtem.bloch.utils"):
        m = repo.module(modname)
        funcs = list(m.functions.values()) + [f for c in m.classes.values() for d in c.methods.values() for f in d]
        for f in funcs:
            sites = []
            for st in walk_no_nested(f.node):
                if isinstance(st, ast.AugAssign) and isinstance(st.target, ast.Name):
                    sites.append((st, st.target.id, "aug"))
                elif isinstance(st, ast.AugAssign) and isinstance(st.target, ast.Subscript) and \
                        isinstance(st.target.value, ast.Name):
                    sites.append((st, st.target.value.id, "store"))
                elif isinstance(st, ast.Assign):
                    for t in st.targets:
                        if isinstance(t, ast.Subscript) and isinstance(t.value, ast.Name):
                            sites.append((st, t.value.id, "store"))
                elif isinstance(st, ast.Expr) and isinstance(st.value, ast.Call) and \
                        last_attr(st.value) == "fill_diagonal" and st.value.args and \
                        isinstance(st.value.args[0], ast.Name):
                    sites.append((st, st.value.args[0].id, "fill_diagonal"))
            if not sites:
                continue
            if any(isinstance(n, (ast.Match,)) for n in ast.walk(f.node)):
                continue
            try:
                df_f = own.df_of(f)
            except AnalysisError:
                continue
            for st, name, how in sites:
                try:
                    node = df_f.cfg.node_of(st).idx
                except AnalysisError:
                    continue
                cls = own.classify(f, node, name)
                examined += 1
                if READONLY in cls:
                    ctx.violation("R-WRITABLE", f"{f.qualname}:{name}", f.loc(st),
                                  f"`{norm_text(st)[:70]}` updates `{name}` in place, but `{name}` may be a read-only "
                                  "view returned by pandas `.to_numpy()` (reached through "
                                  f"{_provenance(own, f, node, name)}): numpy raises `ValueError: output array is "
                                  "read-only` / `assignment destination is read-only`, so the calculation fails for "
                                  "every input", key_detail=f"readonly-{how}")
                elif f.qualname.endswith("calculate_structure_matrix") or any(c != "FRESH" for c in cls):
                    ctx.ok("R-WRITABLE", f"{f.qualname}:{name}", f.loc(st),
                           f"`{norm_text(st)[:50]}`: {name} is {', '.join(sorted(cls))}", nontrivial="FRESH" not in cls)
    ctx.require(examined >= 5, f"R-WRITABLE examined only {examined} in-place updates in abtem.bloch")
    ctx.extra["inplace_updates_examined"] = examined


def _provenance(own: Ownership, f: FuncInfo, node: int, name: str) -> str:
    df = own.df_of(f)
    chain = []
    seen = set()
    cur, at = name, node
    for _ in range(6):
        d = df.single_def(at, cur)
        if d is None or d.value is None or (d.node, cur) in seen:
            break
        seen.add((d.node, cur))
        chain.append(norm_text(df.cfg.nodes[d.node].ast)[:60])
        nxt = None
        for n in ast.walk(d.value):
            if isinstance(n, ast.Name) and n.id == cur:
                nxt = cur
        if nxt is None:
            break
        at = d.node
    return " <- ".join(f"`{c}`" for c in chain) or f"`{name}`"


# ---- added: the eager loop over orientations scatters its results (found on the tree: BlochwaveEnsemble)
_inner_run_c26b = run


def run(ctx) -> None:  # noqa: F811
    from . import c10

    ctx.rule("R-SCATTER", "(the rule of C10, applied to abtem/bloch/dynamical.py) a loop `for i in np.ndindex(<ensemble "
             "shape>)` that fills a pre-allocated output stores at a position that contains i itself (array[i + (...)] or array[i][...]; data derived "
             "from i, such as a mask computed for member i, selects inside a member, not the member): "
             "`array[..., mask] = result_i` writes result_i into *every* orientation, so the eager ensemble returns "
             "the last orientation's intensities for all members while the lazy path (one orientation per block) is "
             "right")
    c10._check_scatter(ctx, modules={"abtem.bloch.dynamical"}, iters={"ndindex": 1}, floors=(1, 1), direct=True)
    _inner_run_c26b(ctx)


# ---- added after the seeded change C26-r3seed0: the expm path applies M S M^-1, rows by M and columns by 1/M
_inner_run_c26c = run


def run(ctx) -> None:  # noqa: F811
    import ast as _ast

    from ..cfg import DataFlow as _DF
    from ..model import call_name as _cn, norm_text as _nt, walk_no_nested as _walk

    ctx.rule("R-SIMILARITY", "calculate_scattering_matrix returns M·expm(…)·M⁻¹ with M = diag(calculate_M_matrix(…)): "
             "written as matrix products the left factor is diag(Mii) and the right factor diag(1/Mii); written with "
             "broadcasting, rows are scaled by Mii (Mii[:, None]) and columns by 1/Mii (Mii[None, :]) — "
             "(M S M⁻¹)_ij = M_i S_ij / M_j.  The transposed scaling is M⁻¹ S M: identical for ZOLZ-only beams "
             "(M == 1) and wrong, against the eigen-decomposition path, as soon as a beam has g_z != 0")
    repo = ctx.repo
    f = repo.function(MOD, "calculate_scattering_matrix")
    df = _DF(f.node)
    rets = [r for r in _walk(f.node) if isinstance(r, _ast.Return) and r.value is not None]
    ctx.require(len(rets) == 1, f"{f.qualname}: expected a single `return <S>`")
    if isinstance(rets[0].value, _ast.Name):
        d = df.single_def(df.cfg.node_of(rets[0]).idx, rets[0].value.id)
        ctx.require(d is not None and d.value is not None, f"{f.qualname}: the returned matrix has no single definition")
        e, at = d.value, d.node
    else:
        e, at = rets[0].value, df.cfg.node_of(rets[0]).idx
    mcalls = [c for c in _walk(f.node) if isinstance(c, _ast.Call) and _cn(c) == "calculate_M_matrix"]
    ctx.require(len(mcalls) == 1, f"{f.qualname}: calculate_M_matrix call not found")

    def derives_from_M(x: _ast.AST, node: int) -> bool:
        sl = df.backward_slice(node, x)
        return any(any(y is mcalls[0] for y in _ast.walk(df.cfg.nodes[n_].ast)) for n_ in sl.def_nodes
                   if df.cfg.nodes[n_].ast is not None) or any(y is mcalls[0] for y in _ast.walk(x))

    def is_inverse(x: _ast.AST, node: int, depth=0) -> bool:
        """does the factor hold 1/Mii (a reciprocal of the M entries)?"""
        if depth > 6:
            return False
        if isinstance(x, _ast.Name):
            dd = df.single_def(node, x.id)
            return dd is not None and dd.value is not None and is_inverse(dd.value, dd.node, depth + 1)
        if isinstance(x, _ast.Call) and x.args:
            return is_inverse(x.args[0], node, depth + 1)
        if isinstance(x, _ast.BinOp) and isinstance(x.op, _ast.Div):
            return derives_from_M(x.right, node) and not derives_from_M(x.left, node)
        if isinstance(x, _ast.BinOp) and isinstance(x.op, _ast.Pow):
            return isinstance(x.right, _ast.UnaryOp) and derives_from_M(x.left, node)
        if isinstance(x, _ast.Subscript):
            return is_inverse(x.value, node, depth + 1)
        return False

    verdict, shown = None, _nt(e)[:80]
    # (1) matrix products: flatten dot(A, dot(B, C)) / A @ B @ C
    def flatten(x):
        if isinstance(x, _ast.Call) and (_cn(x) or "").split(".")[-1] in ("dot", "matmul") and len(x.args) == 2:
            return flatten(x.args[0]) + flatten(x.args[1])
        if isinstance(x, _ast.BinOp) and isinstance(x.op, _ast.MatMult):
            return flatten(x.left) + flatten(x.right)
        return [x]
    ops = flatten(e)
    if len(ops) == 3:
        left, right = ops[0], ops[2]
        lm, rm = derives_from_M(left, at), derives_from_M(right, at)
        verdict = lm and rm and not is_inverse(left, at) and is_inverse(right, at)
    else:
        # (2) broadcasting: collect the factors that derive from M with their orientation and power
        rows, cols = 0, 0
        def walk_scale(x, power):
            nonlocal rows, cols
            if isinstance(x, _ast.BinOp) and isinstance(x.op, (_ast.Mult, _ast.Div)):
                walk_scale(x.left, power)
                walk_scale(x.right, power if isinstance(x.op, _ast.Mult) else -power)
                return
            if isinstance(x, _ast.Subscript) and derives_from_M(x, at):
                idx = x.slice.elts if isinstance(x.slice, _ast.Tuple) else [x.slice]
                kinds = ["none" if (isinstance(i_, _ast.Constant) and i_.value is None) else "full" for i_ in idx]
                p_ = -power if is_inverse(x.value, at) else power
                if kinds == ["full", "none"]:
                    rows += p_
                elif kinds == ["none", "full"]:
                    cols += p_
        walk_scale(e, 1)
        if rows or cols:
            verdict = rows == 1 and cols == -1
    ctx.require(verdict is not None, f"{f.qualname}: cannot read `{shown}` as M·S·M⁻¹ (matrix products or row/column "
                                     "broadcasting)")
    ctx.check(verdict, "R-SIMILARITY", f"{f.qualname}:M S M^-1", f.loc(e), f"`{shown}` scales rows by M and columns by 1/M",
              f"`{shown}` is not M·S·M⁻¹: rows must be scaled by M_i and columns by 1/M_j; the transposed scaling gives "
              "M⁻¹·S·M, which differs from the eigen-decomposition path for beams with g_z != 0", key_detail="similarity")
    _inner_run_c26c(ctx)


# ---- added after the mutation sweep: Hermitian structure matrix, linear propagation with the zero-thickness limit
_inner_run_c26d = run

_ROW, _COL = "@row", "@col"


class _BroadcastNorm:
    """Term normal form in which `X[None]` / `X[None, :]` (value varies with the column index j) and `X[:, None]` (varies
    with the row index i) are the atoms X@col and X@row; transposition of the matrix exchanges them."""

    def __init__(self, df, node_idx: int):
        from ..terms import FlowNormalizer

        outer = self
        self.seen_vectors: set[str] = set()

        class NZ(FlowNormalizer):
            def norm(self, n):  # noqa: ANN001
                if isinstance(n, ast.Subscript):
                    kind = outer.kind(n.slice)
                    if kind is not None:
                        base = super().norm(n.value)
                        if not (base.is_monomial() and len(base.atoms()) == 1 and base.key().startswith("1*")):
                            raise AnalysisError(f"broadcast of the composite term {base.key()[:50]} is not modelled")
                        a = next(iter(base.atoms()))
                        outer.seen_vectors.add(a)
                        return Poly.atom(a + kind)
                return super().norm(n)

            def _call(self, n):  # noqa: ANN001
                if isinstance(n.func, ast.Attribute) and n.func.attr in ("reshape", "copy", "astype") and \
                        not (isinstance(n.func.value, ast.Name) and n.func.value.id in ("np", "xp", "cp")):
                    return self.norm(n.func.value)
                return super()._call(n)

        self.nz = NZ(df, node_idx)

    @staticmethod
    def kind(s: ast.AST):
        parts = s.elts if isinstance(s, ast.Tuple) else [s]

        def none(p):
            return (isinstance(p, ast.Constant) and p.value is None) or dotted(p) in ("np.newaxis", "xp.newaxis")

        def full(p):
            return (isinstance(p, ast.Slice) and p.lower is None and p.upper is None and p.step is None) or (
                isinstance(p, ast.Constant) and p.value is Ellipsis)

        if not all(none(p) or full(p) for p in parts) or sum(1 for p in parts if none(p)) != 1:
            return None
        if none(parts[0]):
            return _COL  # X[None], X[None, :], X[None, ...]
        if len(parts) >= 2 and full(parts[0]) and none(parts[1]):
            return _ROW  # X[:, None], X[:, None, :]
        return None

    def norm(self, e: ast.AST) -> Poly:
        return self.nz.norm(e)


def _transpose(p: Poly, bare_vectors: set[str] = frozenset()) -> Poly:
    def sw(a: str) -> str:
        if a.endswith(_ROW):
            return a[:-len(_ROW)] + _COL
        if a.endswith(_COL):
            return a[:-len(_COL)] + _ROW
        return a

    return Poly({tuple(sorted((sw(a), e) for a, e in m)): c for m, c in p.terms.items()})


def _check_hermitian(ctx) -> None:
    rule = "R-HERMITIAN"
    repo = ctx.repo
    f = repo.function(MOD, "calculate_structure_matrix")
    df = DataFlow(f.node)
    callee = repo.function("abtem.bloch.utils", "retrieve_structure_factor_values")
    calls = [c for c in walk_no_nested(f.node) if isinstance(c, ast.Call) and call_name(c) == callee.name]
    ctx.require(len(calls) == 1, f"{f.qualname}: expected one call of {callee.name}")
    c = calls[0]
    b = bind_args(c, callee)
    ctx.require("hkl_destination" in b, f"{f.qualname}: cannot bind the destination indices of {callee.name}")
    st = _stmt_of(f.node, c)
    at = df.cfg.node_of(st).idx
    bn = _BroadcastNorm(df, at)
    p = bn.norm(b["hkl_destination"])
    ctx.require(any(a.endswith((_ROW, _COL)) for a in p.atoms()),
                f"{f.qualname}: the index table `{norm_text(b['hkl_destination'])}` handed to {callee.name} is not built by "
                "broadcasting a vector against itself ([None] / [:, None])")
    ctx.check(_transpose(p) == -p, rule, f"{f.qualname}:index table antisymmetric", f.loc(c),
              f"A[i, j] = F({_k(p)}): exchanging i and j negates the reflection",
              f"the structure matrix is filled with F({_k(p)}); exchanging row and column gives F({_k(_transpose(p))}), which "
              f"is not F(-({_k(p)})): A[j, i] is then not conj(A[i, j]) (F(-g) = conj F(g)), the matrix is not Hermitian and "
              "exp(i·pi·lambda·z·A) is not unitary — the intensities do not sum to one", key_detail="antisymmetric")
    # in-place scalings of the matrix between retrieval and return
    ctx.require(isinstance(st, ast.Assign) and isinstance(st.targets[0], ast.Name), f"{f.qualname}: the retrieved matrix is "
                "not bound to a name")
    mname = st.targets[0].id
    bare = set()
    for n_ in walk_no_nested(f.node):
        if isinstance(n_, ast.Subscript) and isinstance(n_.value, ast.Name) and _BroadcastNorm.kind(n_.slice) is not None:
            bare.add(n_.value.id)
    k = 0
    for node in df.cfg.nodes:
        s2 = node.ast
        if node.kind == "stmt" and isinstance(s2, ast.AugAssign) and isinstance(s2.target, ast.Name) and \
                s2.target.id == mname and isinstance(s2.op, (ast.Mult, ast.Div)):
            k += 1
            bn2 = _BroadcastNorm(df, node.idx)
            q = bn2.norm(s2.value)
            # a vector used without an explicit broadcast aligns with the last axis (columns)
            naked = sorted(a for a in q.atoms() if a in bare)
            if naked:
                q = q.subst({a: Poly.atom(a + _COL) for a in naked})
            ctx.check(_transpose(q) == q, rule, f"{f.qualname}:scaling #{k} symmetric", f.loc(s2),
                      f"the factor {_k(q)[:80]} is the same for (i, j) and (j, i)",
                      f"`{norm_text(s2)[:70]}` scales element (i, j) by {_k(q)[:80]} and element (j, i) by "
                      f"{_k(_transpose(q))[:80]}: a Hermitian matrix scaled by a non-symmetric real factor is not Hermitian "
                      "(as soon as a beam has g_z != 0 and M != 1), so the propagator is not unitary",
                      key_detail="symmetric")


def _check_linear(ctx) -> None:
    rule = "R-PROPAGATE"
    repo = ctx.repo
    f = repo.function(MOD, "calculate_dynamical_scattering")
    df = DataFlow(f.node)
    eigh = [st for st in walk_no_nested(f.node) if isinstance(st, ast.Assign) and isinstance(st.value, ast.Call)
            and last_attr(st.value) in ("eigh", "eig") and isinstance(st.targets[0], ast.Tuple)
            and len(st.targets[0].elts) == 2 and all(isinstance(e, ast.Name) for e in st.targets[0].elts)]
    ctx.require(len(eigh) == 1, f"{f.qualname}: expected one `values, vectors = eigh(structure_matrix)`")
    vec = eigh[0].targets[0].elts[1].id
    NONLINEAR = "nonlinear"

    class Unreadable(Exception):
        pass

    def inline(e, at, depth=0):
        while isinstance(e, ast.Name) and depth < 12:
            d = df.single_def(at, e.id)
            if d is None or d.kind != "assign" or d.value is None:
                break
            stt = df.cfg.nodes[d.node].ast
            if isinstance(stt, ast.Assign) and isinstance(stt.targets[0], (ast.Tuple, ast.List)) and \
                    not isinstance(stt.value, (ast.Tuple, ast.List)):
                break
            e, at, depth = d.value, d.node, depth + 1
        return e, at

    def is_psi0(e, at) -> bool:
        e, at = inline(e, at)
        while isinstance(e, ast.Call) and last_attr(e) in ("asarray", "array", "astype", "copy") and (e.args or
                isinstance(e.func, ast.Attribute)):
            e = e.args[0] if e.args and dotted(e.func) and dotted(e.func).split(".")[0] in ("np", "xp", "cp") else \
                e.func.value
            e, at = inline(e, at)
        return isinstance(e, ast.Call) and call_name(e) == "plane_wave_coefficients"

    def has_psi0(e, at, depth=0) -> bool:
        if depth > 12:
            return False
        if is_psi0(e, at):
            return True
        e2, at2 = inline(e, at)
        if e2 is not e:
            return has_psi0(e2, at2, depth + 1)
        return any(has_psi0(ch, at, depth + 1) for ch in ast.iter_child_nodes(e) if isinstance(ch, ast.expr))

    def matrix(e, at):
        """(name, inverted) of a square-matrix factor"""
        e, at = inline(e, at)
        if isinstance(e, ast.Name):
            return (e.id, False)
        txt = norm_text(e).replace(" ", "")
        adj = {f"xp.conjugate({vec}.T)", f"np.conjugate({vec}.T)", f"xp.conj({vec}.T)", f"np.conj({vec}.T)",
               f"{vec}.conj().T", f"{vec}.T.conj()", f"{vec}.conjugate().T", f"{vec}.T.conjugate()",
               f"xp.conjugate({vec}).T", f"np.conjugate({vec}).T", f"xp.conj({vec}).T", f"np.conj({vec}).T"}
        mods = {d_.var for d_ in df.defs if isinstance(d_.value, ast.Call) and (call_name(d_.value) or "").endswith(
            "get_array_module")}
        for m_ in mods:
            txt = txt.replace(f"{m_}.", "xp.")
        if txt in adj:
            return (vec, True)  # unitary eigenvector matrix: adjoint = inverse (R-EIGVEC guards its integrity)
        if isinstance(e, ast.Call) and last_attr(e) in ("inv", "pinv") and e.args:
            inner = matrix(e.args[0], at)
            return (inner[0], not inner[1])
        raise Unreadable(f"matrix factor `{norm_text(e)[:50]}`")

    def vecname(e, at) -> str:
        e, at = inline(e, at)
        while isinstance(e, ast.Call) and last_attr(e) in ("asarray", "array") and e.args:
            e, at = inline(e.args[0], at)
        if isinstance(e, ast.Call) and last_attr(e) == "exp":
            return "E"
        return "diag(" + norm_text(e)[:60] + ")"

    def chain(e, at, depth=0):
        """factors (name, inverted), left to right, acting on the initial wave; NONLINEAR when the wave is divided by"""
        if depth > 30:
            raise Unreadable("expression too deep")
        if is_psi0(e, at):
            return []
        e2, at2 = inline(e, at)
        if e2 is not e:
            return chain(e2, at2, depth + 1)
        if isinstance(e, ast.BinOp) and isinstance(e.op, ast.MatMult):
            rest = chain(e.right, at, depth + 1)
            return rest if rest == NONLINEAR else [matrix(e.left, at)] + rest
        if isinstance(e, ast.Call) and last_attr(e) in ("dot", "matmul") and len(e.args) == 2:
            rest = chain(e.args[1], at, depth + 1)
            return rest if rest == NONLINEAR else [matrix(e.args[0], at)] + rest
        if isinstance(e, ast.BinOp) and isinstance(e.op, ast.Mult):
            l, r = has_psi0(e.left, at), has_psi0(e.right, at)
            if l and r:
                return NONLINEAR
            v, w = (e.left, e.right) if r else (e.right, e.left)
            rest = chain(w, at, depth + 1)
            return rest if rest == NONLINEAR else [(vecname(v, at), False)] + rest
        if isinstance(e, ast.BinOp) and isinstance(e.op, ast.Div):
            if has_psi0(e.right, at):
                return NONLINEAR
            rest = chain(e.left, at, depth + 1)
            return rest if rest == NONLINEAR else [(vecname(e.right, at), True)] + rest
        raise Unreadable(f"`{norm_text(e)[:50]}`")

    def reduce_(fs):
        fs = [x for x in fs if x[0] != "E"]
        changed = True
        while changed:
            changed = False
            for i in range(len(fs) - 1):
                if fs[i][0] == fs[i + 1][0] and fs[i][1] != fs[i + 1][1]:
                    del fs[i:i + 2]
                    changed = True
                    break
        return fs

    rets = [r for r in walk_no_nested(f.node) if isinstance(r, ast.Return) and isinstance(r.value, ast.Name)]
    ctx.require(len(rets) == 1, f"{f.qualname}: expected one `return <array>`")
    results = []
    for d in df.reaching(df.cfg.node_of(rets[0]).idx, rets[0].value.id):
        st = df.cfg.nodes[d.node].ast
        if isinstance(st, ast.Assign) and has_psi0(st.value, d.node):
            results.append((st, d.node))
    ctx.require(len(results) >= 1, f"{f.qualname}: the returned array does not derive from the incident plane wave")
    for k, (st, at) in enumerate(results):
        arm = "loop over thicknesses" if df.cfg.nodes[at].loops else "scalar thickness"
        try:
            fs = chain(st.value, at)
        except Unreadable as e:
            raise AnalysisError(f"{f.qualname}: cannot read the propagation `{norm_text(st)[:60]}` as a product of matrices "
                                f"and element-wise factors applied to the incident wave ({e})")
        shown = norm_text(st.value)[:70]
        if fs == NONLINEAR:
            ctx.violation(rule, f"{f.qualname}:propagation [{arm}]", f.loc(st),
                          f"`{shown}` divides by (or squares) the propagated wave: the exit wave is not a linear image "
                          "M·C·exp(2πi·γ·t)·C⁻¹·M⁻¹·ψ0 of the incident wave, its intensities do not sum to one and at zero "
                          "thickness it is not the direct beam", key_detail="nonlinear")
            continue
        n_e = sum(1 for x in fs if x[0] == "E")
        # M = 1 for the direct beam (g = 0): diag(M)^±1 acting directly on the incident plane wave is the identity;
        # the canonical chain ends with the inverse of the leading M factor
        core = list(fs)
        while core and core[-1][0].startswith("diag("):
            core = core[:-1]
        lead_m = bool(core) and core[0][0].startswith("diag(") and "calculate_M_matrix" in core[0][0] and not core[0][1]
        if lead_m:
            core = core + [(core[0][0], True)]
        rest = reduce_(core)
        if not lead_m and not rest:
            rest = [("M (missing on the exit side)", False)]
        pretty = " · ".join(n_ + ("⁻¹" if inv else "") for n_, inv in fs) or "1"
        ctx.check(n_e == 1 and not rest, rule, f"{f.qualname}:propagation [{arm}]", f.loc(st),
                  f"ψ(t) = {pretty} · ψ0 reduces to ψ0 at t = 0",
                  f"ψ(t) = {pretty} · ψ0: with the phase factor E set to 1 (zero thickness) the factors "
                  f"{' · '.join(n_ + ('⁻¹' if inv else '') for n_, inv in rest) or '(none)'} remain"
                  + ("" if n_e == 1 else f" and the phase factor occurs {n_e} times") +
                  " — the zero-thickness result is not the undiffracted direct beam and the eigen path is not "
                  "M·exp(…)·M⁻¹ as the matrix-exponential path", key_detail="zero-thickness")


def run(ctx) -> None:  # noqa: F811
    ctx.rule("R-HERMITIAN", "calculate_structure_matrix fills A[i, j] = F(h_j - h_i): the index table handed to "
             "retrieve_structure_factor_values is antisymmetric under the exchange of the row and the column broadcast "
             "(X[None] <-> X[:, None], term normal form), and every later in-place scaling of the matrix is symmetric "
             "under that exchange.  With F(-g) = conj F(g) this is what makes A Hermitian, hence exp(i·pi·lambda·z·A) "
             "unitary and the intensities sum to one")
    ctx.rule("R-PROPAGATE", "the eigen path computes ψ(t) = M·C·E(t)·C⁻¹·M⁻¹·ψ0 — read as a chain of matrix factors, "
             "element-wise (diagonal) factors and their inverses applied to the incident plane wave: the wave enters "
             "linearly (never in a denominator), the phase factor occurs once, and with E = 1 the chain cancels to the "
             "identity (adjoint of the unitary eigenvector matrix = inverse; M = 1 on the direct beam), which is the "
             "zero-thickness clause and the agreement with M·expm(…)·M⁻¹")
    from ..rules import deferred

    def new():
        _check_hermitian(ctx)
        _check_linear(ctx)

    deferred.run(ctx, new, _inner_run_c26d)
