"""C24 — electron energy relations match relativistic kinematics (abtem/core/energy.py).

The closed forms returned by the energy helpers are compared, as terms, with the formulas of the
property; the comparison is a decision procedure for rational functions with square roots
(sa/rules/ratfunc.py), so algebraically equal rewritings are equal and only a different function
is a violation.
"""
from __future__ import annotations

import ast
from fractions import Fraction

from ..cfg import forward_states
from ..model import AnalysisError, FuncInfo, dotted, norm_text, walk_no_nested
from ..rules.ratfunc import (PI, RF, Radicals, TermEval, decide_equal, linear_in, reduce_radicals,
                             resolve_property_chain, sign_on_positive_orthant, subst_rf)

MOD = "abtem.core.energy"
U = "ase.units."
ELEM = "⟨elem⟩"
LAM = "λ"


def _ase_constants(te: TermEval, canon: str):
    """Structural definitions of ase.units (ase.units.create_units): eV = Å = 1, m = 1e10 Å,
    kg = 1/_amu, J = C = 1/_e, s = 1e10 sqrt(_e/_amu), _hbar = _hplanck/2π.  CODATA-independent."""
    if not canon.startswith(U):
        return None
    k = canon[len(U):]
    e, amu = RF.atom(U + "_e"), RF.atom(U + "_amu")
    if k in ("eV", "Ang", "Angstrom"):
        return RF.const(1)
    if k == "nm":
        return RF.const(10)
    if k == "m":
        return RF.const(10 ** 10)
    if k == "kg":
        return amu.inverse()
    if k in ("J", "C"):
        return e.inverse()
    if k == "kJ":
        return RF.const(1000) / e
    if k in ("s", "second"):
        return RF.const(10 ** 10) * te.rad.sqrt(e / amu)
    if k == "fs":
        return RF.const(Fraction(1, 10 ** 5)) * te.rad.sqrt(e / amu)
    if k == "_hbar":
        return RF.atom(U + "_hplanck") / (RF.const(2) * RF.atom(PI))
    return None


# ---------------------------------------------------------------------- the property's formulas
def _spec(te: TermEval, E: RF) -> dict[str, RF]:
    h, c, m, e = (RF.atom(U + n) for n in ("_hplanck", "_c", "_me", "_e"))
    two = RF.const(2)
    gamma = RF.const(1) + e * E / (m * c * c)
    mass = gamma * m
    lam = h * c / (e * te.rad.sqrt(E * (E + two * m * c * c / e))) * RF.const(10 ** 10)
    kg, C, s, J = (te.atom(U + n) for n in ("kg", "C", "s", "J"))
    sigma = two * RF.atom(PI) * mass * kg * e * C * lam / ((h * s * J).pow_int(2))
    return {"relativistic_mass_correction": gamma, "energy2mass": mass, "energy2wavelength": lam,
            "energy2sigma": sigma}


SPEC_TEXT = {
    "relativistic_mass_correction": "1 + e·E/(m·c²)",
    "energy2mass": "(1 + e·E/(m·c²))·m",
    "energy2wavelength": "h·c/(e·√(E·(E + 2·m·c²/e)))·10¹⁰",
    "energy2sigma": "2π·m_rel·kg·e·C·λ/(h·s·J)²",
}


# ---------------------------------------------------------------------- sign domain for the guard
FULL = frozenset("NZP")


def _is_param(e: ast.AST, param: str) -> bool:
    while isinstance(e, ast.Call) and dotted(e.func) in ("float", "np.asarray", "np.float64") and len(e.args) == 1:
        e = e.args[0]
    return isinstance(e, ast.Name) and e.id == param


def _is_zero(e: ast.AST) -> bool:
    if isinstance(e, ast.UnaryOp) and isinstance(e.op, (ast.USub, ast.UAdd)):
        e = e.operand
    return isinstance(e, ast.Constant) and not isinstance(e.value, bool) and isinstance(e.value, (int, float)) \
        and e.value == 0


_CMP = {  # param OP 0 -> signs for which the comparison is true
    ast.Lt: "N", ast.LtE: "NZ", ast.Gt: "P", ast.GtE: "ZP", ast.Eq: "Z", ast.NotEq: "NP",
}
_MIRROR = {ast.Lt: ast.Gt, ast.LtE: ast.GtE, ast.Gt: ast.Lt, ast.GtE: ast.LtE, ast.Eq: ast.Eq, ast.NotEq: ast.NotEq}


def _truth_sets(test: ast.expr, param: str, opaque: list):
    """(signs of `param` for which the test can be true, ... can be false)."""
    if isinstance(test, ast.UnaryOp) and isinstance(test.op, ast.Not):
        t, f = _truth_sets(test.operand, param, opaque)
        return f, t
    if isinstance(test, ast.BoolOp):
        parts = [_truth_sets(v, param, opaque) for v in test.values]
        ts, fs = [p[0] for p in parts], [p[1] for p in parts]
        if isinstance(test.op, ast.And):
            return frozenset.intersection(*ts), frozenset.union(*fs)
        return frozenset.union(*ts), frozenset.intersection(*fs)
    if isinstance(test, ast.Compare) and len(test.ops) == 1:
        a, b, op = test.left, test.comparators[0], type(test.ops[0])
        if _is_zero(a) and _is_param(b, param):
            a, b, op = b, a, _MIRROR.get(op, op)
        if _is_param(a, param) and _is_zero(b) and op in _CMP:
            t = frozenset(_CMP[op])
            return t, FULL - t
        if _is_param(a, param) and isinstance(b, ast.Constant) and b.value is None and op in (ast.Is, ast.IsNot):
            # a number is never None
            return (frozenset(), FULL) if op is ast.Is else (FULL, frozenset())
    if any(isinstance(n, ast.Name) and n.id == param for n in ast.walk(test)):
        opaque.append(test)
    return FULL, FULL


def _rejects_nonpositive(te: TermEval, f: FuncInfo, param: str, rejecting: dict[str, str]):
    """Signs of `param` with which the function can return normally.

    `rejecting` maps qualnames of functions already shown to raise for non-positive values of
    their parameter -> that parameter's name."""
    df = te.dataflow(f)
    cfg = df.cfg
    opaque: list = []
    for d in df.defs:
        if d.var == param and d.kind != "param":
            if not (d.kind == "assign" and d.value is not None and _is_param(d.value, param)):
                raise AnalysisError(f"{f.qualname}: `{param}` is reassigned; the positivity guard cannot be followed")
    fr = te.frame(f)
    calls_at: dict[int, bool] = {}
    for n in cfg.nodes:
        if n.ast is None or n.kind not in ("stmt", "test"):
            continue
        root = n.ast.test if isinstance(n.ast, ast.If) else n.ast
        for c in walk_no_nested(root):
            if isinstance(c, ast.Call):
                canon, tgt = te.call_target(c, fr, n.idx)
                if isinstance(tgt, FuncInfo) and tgt.qualname in rejecting:
                    bound = te.bind_exprs(c, tgt)
                    a = bound.get(rejecting[tgt.qualname])
                    if a is not None and _is_param(a, param):
                        calls_at[n.idx] = True

    def transfer(node, state, label, succ):
        if label == "X":
            return state
        if node.kind == "test":
            t, fset = _truth_sets(node.ast.test, param, opaque)
            state = state & (t if label == "T" else fset)
        if node.idx in calls_at and succ != cfg.rexit:
            state = state & frozenset("P")
        return state if state else None

    at = forward_states(cfg, FULL, transfer)
    reach = frozenset().union(*at[cfg.exit]) if at[cfg.exit] else frozenset()
    return reach, opaque, bool(calls_at)


# ---------------------------------------------------------------------- vectors (angular sampling)
def _vector(te: TermEval, fr, expr: ast.AST, at: int, depth: int = 0):
    """('map', source RF, body RF in ELEM) | ('tuple', [RF...]) | ('call', FuncInfo, Call)."""
    if depth > 8:
        raise AnalysisError("vector expression too deep")
    if isinstance(expr, ast.Name) and expr.id not in fr.bound:
        d = fr.df.single_def(at, expr.id)
        if d is not None and d.kind == "assign" and d.value is not None:
            return _vector(te, fr, d.value, d.node, depth + 1)
        raise AnalysisError(f"{fr.func.qualname}: `{expr.id}` is not a single vector term")
    if isinstance(expr, ast.Call):
        canon, tgt = te.call_target(expr, fr, at)
        if canon == "typing.cast" and len(expr.args) == 2:
            return _vector(te, fr, expr.args[1], at, depth + 1)
        if canon in ("tuple", "list") and len(expr.args) == 1 and not expr.keywords:
            return _vector(te, fr, expr.args[0], at, depth + 1)
        if isinstance(tgt, FuncInfo) and tgt.cls is None:
            return ("call", tgt, expr)
        raise AnalysisError(f"{fr.func.qualname}: `{norm_text(expr)[:60]}` is not a recognised vector term")
    if isinstance(expr, (ast.GeneratorExp, ast.ListComp)):
        if len(expr.generators) != 1 or expr.generators[0].ifs or not isinstance(expr.generators[0].target, ast.Name):
            raise AnalysisError(f"{fr.func.qualname}: comprehension shape not supported")
        g = expr.generators[0]
        src = te.ev(g.iter, fr, at)
        saved = dict(fr.bound)
        fr.bound[g.target.id] = RF.atom(ELEM)
        try:
            body = te.ev(expr.elt, fr, at)
        finally:
            fr.bound.clear()
            fr.bound.update(saved)
        return ("map", src, body)
    if isinstance(expr, (ast.Tuple, ast.List)):
        return ("tuple", [te.ev(e, fr, at) for e in expr.elts])
    raise AnalysisError(f"{fr.func.qualname}: `{norm_text(expr)[:60]}` is not a recognised vector term")


def _verdict(ctx, rule, construct, where, code: RF, spec: RF, rad: Radicals, what: str, spec_text: str, key: str):
    res = decide_equal(code, spec, rad)
    if res == "undecided":
        raise AnalysisError(f"{construct}: cannot decide whether {rad.describe(code)[:160]} equals {spec_text}")
    ctx.check(res == "equal", rule, construct, where,
              f"{what} ≡ {spec_text}  [normal form {rad.describe(reduce_radicals(code, rad))[:200]}]",
              f"{what} is {rad.describe(reduce_radicals(code, rad))[:260]}, which is not the function {spec_text}",
              key_detail=key)
    return res == "equal"


def run(ctx) -> None:
    repo = ctx.repo
    ctx.rule("R-TERM", "the closed form returned by energy2wavelength / relativistic_mass_correction / energy2mass / "
             "energy2sigma is, as a function of the energy and the constants _hplanck, _c, _me, _e (π, ase unit "
             "factors), identical to the property's formula; equality is decided for rational functions with square "
             "roots, so any algebraic rewriting is accepted and only a different function is reported")
    ctx.rule("R-POSITIVE", "wavelength and interaction parameter are positive for positive energy: the verified "
             "closed form has the sign + at generic positive points and its square equals the square of a positive "
             "formula")
    ctx.rule("R-GUARD", "energy2wavelength, and through it energy2sigma and "
             "reciprocal_space_sampling_to_angular_sampling, can return normally only when energy > 0: on the CFG "
             "every path to the normal exit passes a test (or a call of an already guarded helper on the same "
             "energy) that excludes energy <= 0")
    ctx.rule("R-ANGULAR", "every computed angular sampling is element i = (reciprocal sampling)[i] · λ · 10³ with λ "
             "the value of energy2wavelength (directly, or through the wavelength property chain that ends in "
             "energy2wavelength); all elements use the same λ and the element index equals its position")
    ctx.rule("R-ANGULAR-LINEAR", "every computed angular-sampling element is (its reciprocal-sampling component) × (a "
             "factor that does not depend on the sampling): 'reciprocal sampling times wavelength' is linear, f(2d) = "
             "2·f(d). Decided on normal forms: rational functions and square roots by the homogeneity identity, a term "
             "in which one elementary transcendental function of the sampling (arctan, tan, sin ...) survives is not "
             "linear because that function is transcendental over the rational functions")
    ctx.rule("R-ANGULAR-SIBLING", "sibling agreement of the conversions reciprocal sampling -> mrad found in the code "
             "(the helper reciprocal_space_sampling_to_angular_sampling and every computed `angular_sampling` "
             "property, each with its wavelength traced to energy2wavelength): after renaming the sampling component "
             "and the wavelength to common symbols the conversion factors have one and the same normal form; a site "
             "that converts differently from the others makes the library report two different angles for the same "
             "reciprocal sampling, so at most one of them can equal sampling × wavelength × 10³")
    ctx.assume("ase.units: eV = Å = 1, m = 1e10, kg = 1/_amu, J = C = 1/_e, s = 1e10·sqrt(_e/_amu) (structural "
               "definitions in ase.units.create_units, independent of the CODATA version); all physical constants "
               "are positive")
    ctx.undecided("strict monotonic decrease of the wavelength with energy (follows mathematically from the "
                  "verified closed form h c/sqrt(E(E+2mc²)); not machine-checked)")
    ctx.undecided("floating-point accuracy of the evaluation between 1 eV and 10 MeV")

    rad = Radicals()
    te = TermEval(repo, rad, constants=_ase_constants)
    mod = repo.module(MOD)

    # ---------------- R-TERM / R-POSITIVE
    E = RF.atom("energy")
    spec = _spec(te, E)
    allowed_atoms = {"energy", PI} | {U + n for n in ("_hplanck", "_c", "_me", "_e", "_amu")}
    for name in ("relativistic_mass_correction", "energy2mass", "energy2wavelength", "energy2sigma"):
        f = repo.function(MOD, name)
        ctx.require(len(f.positional_params) >= 1, f"{f.qualname} lost its energy parameter")
        p = f.positional_params[0]
        code = te.eval_function(f, {p: E})
        sq = reduce_radicals(code * code, rad)
        stray = {a for a in sq.atoms() if not rad.is_radical(a) and not rad.is_function(a)} - allowed_atoms
        for fa in rad.function_atoms(sq, deep=False):  # a function atom is judged by the comparison, its leaves here
            stray |= rad.deep_atoms(RF.atom(fa)) - allowed_atoms
        if stray:
            raise AnalysisError(f"{f.qualname}: the returned term contains atoms outside the formula language: "
                                f"{sorted(stray)}")
        ok = _verdict(ctx, "R-TERM", f"{f.qualname}:return", f.loc(te.single_return(f)), code, spec[name], rad,
                      f"{name}(E)", SPEC_TEXT[name], "formula")
        if name in ("energy2wavelength", "energy2sigma") and ok:
            s = sign_on_positive_orthant(reduce_radicals(code, rad), rad)
            ctx.check(s == 1, "R-POSITIVE", f"{f.qualname}:sign", f.where,
                      "closed form is positive for positive energy and constants",
                      "closed form is not positive on the positive orthant", key_detail="sign")

    # ---------------- R-GUARD
    e2w = repo.function(MOD, "energy2wavelength")
    rejecting: dict[str, str] = {}
    order = [(e2w, e2w.positional_params[0]),
             (repo.function(MOD, "energy2sigma"), repo.function(MOD, "energy2sigma").positional_params[0]),
             (repo.function(MOD, "reciprocal_space_sampling_to_angular_sampling"), None)]
    for f, param in order:
        if param is None:
            ctx.require("energy" in f.params, f"{f.qualname} lost its `energy` parameter")
            param = "energy"
        reach, opaque, via_call = _rejects_nonpositive(te, f, param, rejecting)
        good = bool(reach) and reach <= frozenset("P")
        if not good and opaque:
            raise AnalysisError(f"{f.qualname}: cannot interpret the test `{norm_text(opaque[0])}` on `{param}`")
        if not reach:
            raise AnalysisError(f"{f.qualname}: no path reaches the normal exit")
        names = {"N": "negative", "Z": "zero", "P": "positive"}
        ctx.check(good, "R-GUARD", f"{f.qualname}:rejects-nonpositive", f.where,
                  f"normal return only for {param} > 0" + (" (through a guarded helper called on the same energy)"
                                                           if via_call else " (own test dominates the return)"),
                  f"the function can return normally for {' / '.join(names[s] for s in 'NZ' if s in reach)} "
                  f"`{param}`: non-positive energies are not rejected", key_detail="guard")
        if good:
            rejecting[f.qualname] = param
    for name in ("relativistic_mass_correction", "energy2mass"):
        f = repo.function(MOD, name)
        ctx.info("R-GUARD", f"{f.qualname}", f.where, "accepts any energy (the property speaks about wavelength, "
                 "interaction parameter and angular sampling only)")

    # ---------------- R-ANGULAR
    te2 = TermEval(repo, rad, opaque={e2w.qualname}, constants=_ase_constants)
    helper = repo.function(MOD, "reciprocal_space_sampling_to_angular_sampling")
    ctx.require(len(helper.positional_params) == 2, f"{helper.qualname}: expected (sampling, energy) parameters")
    sp, ep = helper.positional_params
    ret = te2.single_return(helper)
    fr = te2.frame(helper)
    kind = _vector(te2, fr, ret.value, fr.df.cfg.node_of(ret).idx)
    lam_name = f"{e2w.qualname}({e2w.positional_params[0]}={ep})"
    lam_atom = RF.atom(lam_name)
    thousand = RF.const(1000)
    sites: list = []  # (construct, where, [conversion factor in the common symbols ELEM, LAM per element])

    def linear(construct: str, where: str, el: RF, comp: str, label: str, key: str) -> None:
        res = linear_in(el, comp, rad)
        if res == "undecided":
            raise AnalysisError(f"{construct}: cannot decide whether {rad.describe(el)[:160]} is linear in {comp}")
        ctx.check(res == "linear", "R-ANGULAR-LINEAR", f"{construct}:{label}", where,
                  f"{label} = {comp} × (factor independent of the sampling): doubling the reciprocal sampling doubles "
                  "the angular sampling",
                  f"{label} is {rad.describe(reduce_radicals(el, rad))[:200]}, which is not a multiple of {comp}: "
                  "the angular sampling is not proportional to the reciprocal sampling (f(2d) != 2 f(d))",
                  key_detail=key)

    def factor(el: RF, comp: str, lam: str) -> RF:
        return reduce_radicals(subst_rf(el, {comp: RF.atom(ELEM), lam: RF.atom(LAM)}, rad) / RF.atom(ELEM), rad)

    if kind[0] == "map":
        _, src, body = kind
        ctx.check(src.single_atom() == sp, "R-ANGULAR", f"{helper.qualname}:source", helper.loc(ret),
                  f"maps over `{sp}`", f"the result maps over {src.key()}, not over the sampling argument `{sp}`",
                  key_detail="source")
        linear(helper.qualname, helper.loc(ret), body, ELEM, "element", "linear")
        sites.append((helper.qualname, helper.loc(ret), [factor(body, ELEM, lam_name)]))
        _verdict(ctx, "R-ANGULAR", f"{helper.qualname}:element", helper.loc(ret), body,
                 RF.atom(ELEM) * lam_atom * thousand, rad, "element", "d·λ(energy)·10³", "element")
    elif kind[0] == "tuple":
        fs = []
        for i, el in enumerate(kind[1]):
            linear(helper.qualname, helper.loc(ret), el, f"{sp}[{i}]", f"element[{i}]", f"linear{i}")
            fs.append(factor(el, f"{sp}[{i}]", lam_name))
            _verdict(ctx, "R-ANGULAR", f"{helper.qualname}:element[{i}]", helper.loc(ret), el,
                     RF.atom(f"{sp}[{i}]") * lam_atom * thousand, rad, f"element {i}", f"{sp}[{i}]·λ(energy)·10³",
                     f"element{i}")
        sites.append((helper.qualname, helper.loc(ret), fs))
    else:
        raise AnalysisError(f"{helper.qualname}: result is not a recognised vector term")

    # methods named angular_sampling
    n_methods = 0
    for c in repo.all_classes():
        g = c.own_method("angular_sampling", "getter")
        if g is None:
            continue
        rets = [n for n in walk_no_nested(g.node) if isinstance(n, ast.Return) and n.value is not None]
        if len(rets) != 1:
            ctx.info("R-ANGULAR", g.qualname, g.where, "not a computed angular sampling (several returns / stored "
                     "value)")
            continue
        ret = rets[0]
        fr = te2.frame(g)
        at = fr.df.cfg.node_of(ret).idx
        try:
            kind = _vector(te2, fr, ret.value, at)
        except AnalysisError as exc:
            if c.name == "BaseWaves":
                raise
            ctx.info("R-ANGULAR", g.qualname, g.where, f"not analysed: {exc}")
            continue
        n_methods += 1
        if kind[0] == "call":
            _, tgt, call = kind
            ok = tgt.qualname == helper.qualname
            b = te2.bind_exprs(call, tgt) if ok else {}
            a_s, a_e = dotted(b.get(sp)) or "", dotted(b.get(ep)) or ""
            ok = ok and "reciprocal_space_sampling" in a_s and "energy" in a_e
            ctx.check(ok, "R-ANGULAR", f"{g.qualname}:delegates", g.loc(ret),
                      f"delegates to {helper.name}({a_s}, {a_e})",
                      f"`{norm_text(call)[:80]}` does not pass (reciprocal-space sampling, energy) to {helper.name}",
                      key_detail="delegate")
            continue
        if kind[0] == "map":
            # tuple(d * λ * 1e3 for d in <sampling>): one generic element
            src = kind[1].single_atom()
            if src is None:
                raise AnalysisError(f"{g.qualname}: the comprehension does not run over a sampling attribute")
            elems, first = [kind[2]], reduce_radicals(kind[2], rad)
            base, factor_atoms = src, [ELEM]
        elif kind[0] == "tuple" and len(kind[1]) >= 1:
            elems = kind[1]
            # base B and wavelength term L from element 0
            first = reduce_radicals(elems[0], rad)
            idx0 = sorted(a for a in rad.deep_atoms(first) if a.endswith("[0]"))
            if len(idx0) != 1:
                raise AnalysisError(f"{g.qualname}: cannot find the sampling factor of element 0 in {first.key()}")
            base = idx0[0][:-3]
            factor_atoms = [f"{base}[{i}]" for i in range(len(elems))]
        else:
            raise AnalysisError(f"{g.qualname}: result is not a tuple of products")
        L = first / (RF.atom(factor_atoms[0]) * thousand)
        la = L.single_atom()
        if la is None or rad.is_function(la) or rad.is_radical(la):
            # the element is not <component>·<one atom>·10³ (the wavelength sits inside a function, a quotient ...):
            # the only other leaf of the term is the wavelength candidate, the element comparison below decides
            others = rad.deep_atoms(first) - {factor_atoms[0], PI}
            if len(others) == 1:
                la = next(iter(others))
                L = RF.atom(la)
        lam_ok, lam_txt = False, rad.describe(L)
        if la is not None and la.startswith(e2w.qualname + "("):
            lam_ok, lam_txt = True, la
        elif la is not None and la.startswith("self."):
            try:
                getter, rexpr = resolve_property_chain(repo, c, la.split(".")[1:])
            except AnalysisError as exc:
                raise AnalysisError(f"{g.qualname}: cannot resolve `{la}`: {exc}")
            fr2 = te2.frame(getter)
            canon, tgt = (te2.call_target(rexpr, fr2, fr2.df.cfg.node_of(te2.single_return(getter)).idx)
                          if isinstance(rexpr, ast.Call) else (None, None))
            lam_ok = isinstance(tgt, FuncInfo) and tgt.qualname == e2w.qualname
            lam_txt = f"{la} -> {getter.qualname} returns {norm_text(rexpr)[:60]}"
        ctx.check(lam_ok, "R-ANGULAR", f"{g.qualname}:wavelength", g.loc(ret),
                  f"sampling is scaled by the wavelength ({lam_txt}) and 10³",
                  f"element 0 is {base}[0]·10³·({lam_txt}); the remaining factor is not the value of "
                  f"energy2wavelength", key_detail="lambda")
        if lam_ok:
            fs = []
            for i, el in enumerate(elems):
                lab = f"element[{i}]" if kind[0] == "tuple" else "element"
                linear(g.qualname, g.loc(ret), el, factor_atoms[i], lab, f"linear{i}")
                fs.append(factor(el, factor_atoms[i], la))
            sites.append((g.qualname, g.loc(ret), fs))
            for i, el in enumerate(elems):
                _verdict(ctx, "R-ANGULAR", f"{g.qualname}:element[{i}]", g.loc(ret), el,
                         RF.atom(factor_atoms[i]) * L * thousand, rad, f"element {i}",
                         f"{base}[{i if kind[0] == 'tuple' else 'i'}]·λ·10³", f"element{i}")
    ctx.require(n_methods >= 2, f"only {n_methods} angular_sampling properties could be analysed")

    # ---------------- R-ANGULAR-SIBLING: one conversion factor at every site
    groups: list = []  # [representative factor, [(construct, where)]]
    for construct, where, fs in sites:
        distinct: list = []
        for f_ in fs:
            if not any(f_.equals(d_) for d_ in distinct):
                distinct.append(f_)
        for f_ in distinct:
            for grp in groups:
                if grp[0].equals(f_):
                    grp[1].append((construct, where))
                    break
            else:
                groups.append([f_, [(construct, where)]])
    ctx.require(len(sites) >= 3, f"only {len(sites)} conversions reciprocal sampling -> mrad could be compared")
    groups.sort(key=lambda grp: -len(grp[1]))
    agreed = groups[0] if len(groups) == 1 or len(groups[0][1]) > len(groups[1][1]) else None
    for rep, members in groups:
        for construct, where in members:
            if agreed is not None and rep is agreed[0]:
                ctx.ok("R-ANGULAR-SIBLING", f"{construct}:factor", where,
                       f"converts with the factor {rad.describe(rep)[:80]}, like "
                       f"{len(agreed[1]) - 1} other conversion(s)")
            else:
                common = (f"{rad.describe(agreed[0])[:80]} used by " + ", ".join(c_ for c_, _ in agreed[1])
                          if agreed is not None else "the other sites (no common form: " +
                          "; ".join(rad.describe(r_)[:60] for r_, _ in groups) + ")")
                ctx.violation("R-ANGULAR-SIBLING", f"{construct}:factor", where,
                              f"converts reciprocal sampling to mrad with the factor {rad.describe(rep)[:160]} "
                              f"(per unit of sampling), not with {common}: the same reciprocal sampling gives "
                              "different angles depending on which conversion is used", key_detail="sibling")
    # the wavelength used by Accelerator (end of every wavelength property chain)
    acc = repo.method(MOD, "Accelerator", "wavelength")
    rexpr = te.single_return(acc).value
    fr3 = te.frame(acc)
    canon, tgt = te.call_target(rexpr, fr3) if isinstance(rexpr, ast.Call) else (None, None)
    arg_ok = isinstance(tgt, FuncInfo) and tgt.qualname == e2w.qualname and \
        dotted(te.bind_exprs(rexpr, tgt).get(e2w.positional_params[0])) in ("self.energy", "self._energy")
    ctx.check(arg_ok, "R-ANGULAR", f"{acc.qualname}:return", acc.where,
              "Accelerator.wavelength = energy2wavelength(self.energy)",
              f"Accelerator.wavelength returns {norm_text(rexpr)[:80]}, not energy2wavelength of its own energy",
              key_detail="accelerator")


# ---- added: package rule R-CACHEKEY (sa/rules/memo2.py) for the modules this property is anchored in
_inner_run = run


def run(ctx) -> None:  # noqa: F811
    from ..rules import memo2

    ctx.rule("R-CACHEKEY", memo2.__doc__.split("\n\n", 1)[1])
    memo2.positive_control(ctx)
    n = memo2.check(ctx, modules={"abtem.core.energy"})
    ctx.ok("R-CACHEKEY", "scan", "abtem/", f"{n} cache stores found in the anchored modules; positive control matched")
    _inner_run(ctx)


# ---- added after the seeded change C24-r2seed7: arithmetic width of the energy parameter
_inner_run_c24b = run


def run(ctx) -> None:  # noqa: F811
    import ast as _ast

    from ..cfg import DataFlow as _DF
    from ..model import call_name as _cn, dotted as _dotted, module_constants as _consts, norm_text as _nt, \
        walk_no_nested as _walk

    ctx.rule("R-WIDTH", "numeric-kind abstract interpretation of the functions of abtem/core/energy.py that take an "
             "`energy` parameter (kinds: F = certainly float64 / Python float, P = the caller's own numeric type, I = "
             "Python int literal; F absorbs in + - *, true division and sqrt/float() give F, P**F is F): no product "
             "P*P and no power P**k (k >= 2) is evaluated in kind P — such a term is quadratic in the energy and wraps "
             "silently for fixed-width NumPy integers (np.int32 overflows from 46341 eV), so the closed form would "
             "hold for Python numbers only, not 'for every positive energy'")
    repo = ctx.repo
    mod = repo.modules["abtem.core.energy"]
    uconst = _consts(repo.modules["abtem.core.units"])
    funcs = [f for f in mod.functions.values() if "energy" in f.positional_params]
    ctx.require(len(funcs) >= 4, f"R-WIDTH: only {len(funcs)} functions with an energy parameter found")

    def float_returning(fn) -> bool:
        rets = [r for r in _walk(fn.node) if isinstance(r, _ast.Return) and r.value is not None]
        return bool(rets) and all(isinstance(r.value, _ast.Call) and _cn(r.value) == "float" for r in rets)

    for f in funcs:
        df = _DF(f.node)
        bad: list = []

        def kind(e, at, depth=0) -> str:
            if depth > 30:
                return "U"
            if isinstance(e, _ast.Constant):
                return "F" if isinstance(e.value, float) else "I" if isinstance(e.value, int) and not isinstance(
                    e.value, bool) else "U"
            if isinstance(e, _ast.Name):
                if e.id == "energy" and all(d.kind == "param" for d in df.reaching(at, "energy")):
                    return "P"
                d = df.single_def(at, e.id)
                if d is not None and d.kind == "assign" and d.value is not None:
                    return kind(d.value, d.node, depth + 1)
                return "U"
            if isinstance(e, _ast.Attribute):
                d = _dotted(e) or ""
                if d.startswith("units.") and isinstance(uconst.get(d[6:]), float):
                    return "F"
                if e.attr in ("pi", "e") and isinstance(e.value, _ast.Name):
                    return "F"
                return "U"
            if isinstance(e, _ast.UnaryOp):
                return kind(e.operand, at, depth + 1)
            if isinstance(e, _ast.BinOp):
                a, b = kind(e.left, at, depth + 1), kind(e.right, at, depth + 1)
                if isinstance(e.op, _ast.Div):
                    return "F"
                if isinstance(e.op, _ast.Pow):
                    if a == "F" or (a in ("P", "I") and b == "F"):
                        return "F"
                    if a == "P":
                        k = e.right.value if isinstance(e.right, _ast.Constant) else None
                        if b in ("I", "P") and not (isinstance(k, int) and k < 2):
                            bad.append(e)
                        return "P"
                    return a
                if isinstance(e.op, (_ast.Add, _ast.Sub, _ast.Mult)):
                    if "F" in (a, b):
                        return "F"
                    if "U" in (a, b):
                        return "U"
                    if a == "P" and b == "P" and isinstance(e.op, _ast.Mult):
                        bad.append(e)
                    return "P" if "P" in (a, b) else "I"
                return "U"
            if isinstance(e, _ast.Call):
                name = (_cn(e) or "").split(".")[-1]
                for a_ in e.args:
                    kind(a_, at, depth + 1)  # visit the arguments for P*P terms
                if name in ("float", "sqrt", "float64", "exp", "log", "hypot"):
                    return "F"
                if name in ("abs", "asarray", "array", "int", "square"):
                    k = kind(e.args[0], at, depth + 1) if e.args else "U"
                    if name == "square" and k == "P":
                        bad.append(e)
                    return k
                tgt = mod.functions.get(name)
                if tgt is not None and float_returning(tgt):
                    return "F"
                return "U"
            return "U"

        n_expr = 0
        for node in df.cfg.nodes:
            st = node.ast
            if st is None or node.kind != "stmt":
                continue
            v = st.value if isinstance(st, (_ast.Return, _ast.Assign, _ast.AugAssign, _ast.Expr)) else None
            if v is not None:
                n_expr += 1
                kind(v, node.idx)
        ctx.check(not bad, "R-WIDTH", f"{f.qualname}:energy arithmetic", f.loc(bad[0]) if bad else f.where,
                  f"{n_expr} expression(s): no product or power of the energy evaluated in the caller's own numeric type",
                  f"`{_nt(bad[0])[:70]}` is evaluated in the numeric type of the `energy` argument (no float64 operand): for "
                  "a fixed-width integer energy (np.int32 >= 46341 eV) it wraps silently and the result is not "
                  "h c / sqrt(E (E + 2 m c^2))" if bad else "", key_detail="width")
    _inner_run_c24b(ctx)
