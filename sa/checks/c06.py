"""C06 — PRISM reduction reproduces conventional multislice probes (coefficient clauses)."""
from __future__ import annotations

import ast
import copy

from ..model import AnalysisError, call_name, dotted, norm_text, walk_no_nested
from ..rules import cnorm
from ..terms import PI, Normalizer, Poly

SM = "abtem.prism.s_matrix"


class _Comp(ast.NodeTransformer):
    """Strip broadcasting subscripts and name vector components: v[None, None, :, 0] -> v__0,
    v[:, 0][None] -> v__0, x[:, None, None] -> x."""

    def visit_Subscript(self, node: ast.Subscript):
        self.generic_visit(node)
        idx = node.slice.elts if isinstance(node.slice, ast.Tuple) else [node.slice]
        comp = None
        for i in idx:
            if isinstance(i, ast.Constant) and i.value is None:
                continue
            if isinstance(i, ast.Constant) and i.value is Ellipsis:
                continue
            if isinstance(i, ast.Slice) and i.lower is None and i.upper is None and i.step is None:
                continue
            if isinstance(i, ast.Constant) and isinstance(i.value, int) and comp is None:
                comp = i.value
                continue
            return node  # something else: leave alone
        base = node.value
        if comp is None:
            return base
        d = dotted(base)
        if d is None:
            return node
        base_name = d.split(".")[-1].lstrip("_")
        return ast.Name(id=base_name + f"__{comp}", ctx=ast.Load())


def _phase_terms(expr: ast.expr) -> Poly:
    e = _Comp().visit(copy.deepcopy(expr))
    ast.fix_missing_locations(e)
    return Normalizer().norm(e)


def run(ctx) -> None:
    repo = ctx.repo
    ctx.rule("R-CNORM", cnorm.__doc__.split("\n\n", 1)[1])
    ctx.rule("R-PHASE", "the position coefficients of the PRISM expansion are exp(-2 pi i (x kx + y ky)) in both the "
             "GridScan arm and the generic arm: every complex_exponential argument is a sum of terms -2*pi*p_i*k_i "
             "with the position component and the wave-vector component of the same axis")
    ctx.rule("R-ANGLES", "the CTF coefficients are evaluated at alpha = |k|*wavelength and phi = arctan2(k_y, k_x), the "
             "same convention as the real-space probe's angular grid (grid.polar_spatial_frequencies)")
    ctx.rule("R-FLATORDER", "batch_crop_2d flattens (batch axes..., positions) to one leading axis in C order, so the "
             "position index varies fastest: the per-position crop corners are extended to the flattened length by "
             "block-wise replication (np.tile(corners, (n_batch, 1)), broadcast_to + reshape, concatenation of whole "
             "copies) — an element-wise np.repeat(corners, n_batch, axis=0) pairs window k of batch b with the corner "
             "of another position whenever there is more than one batch member (several frozen-phonon configurations "
             "in one eager S-matrix)")
    ctx.rule("R-FRESHCOEFF", "inside the CTF / scan-position loops of _batch_reduce_to_measurements every in-place write "
             "(augmented assignment, subscript store, out=) other than the store into the output measurement goes to "
             "a buffer created in the same iteration (ownership class FRESH of sa/rules/arrayown.py): coefficients "
             "hoisted out of the CTF loop and multiplied in place would carry CTF member k into member k+1")
    ctx.rule("R-CONTRACT", "the reduction contracts the coefficient's last axis with the plane-wave axis (-3) of the "
             "S-matrix in both the cropped and the uncropped arm, and CTF and position coefficients are combined by "
             "multiplication along their last (plane-wave) axis")
    ctx.undecided("window cropping equality with interpolation; lazy reduction schemes; numerical agreement with "
                  "multislice")

    n = cnorm.check_package(ctx)
    ctx.require(n >= 4, f"R-CNORM matched only {n} normalisations in the package")
    # positive control for the taint domain
    from ..cfg import DataFlow
    src = "def f(a):\n    x = complex_exponential(a)\n    y = x / np.sqrt((x ** 2).sum())\n    w = np.exp(-a)\n    z = w / np.sqrt((w ** 2).sum())\n"
    fn = ast.parse(src).body[0]
    dfc = DataFlow(fn)
    t1 = cnorm.taint(dfc, dfc.cfg.node_of(fn.body[1]).idx, ast.Name(id="x", ctx=ast.Load()))
    t2 = cnorm.taint(dfc, dfc.cfg.node_of(fn.body[3]).idx, ast.Name(id="w", ctx=ast.Load()))
    ctx.require((t1, t2) == ("complex", "unknown") or (t1, t2) == ("complex", "real"), f"R-CNORM control failed {t1} {t2}")

    # ---------------- R-PHASE
    pc = repo.method(SM, "SMatrixArray", "_calculate_positions_coefficients")
    sw = [i for i in walk_no_nested(pc.node) if isinstance(i, ast.If) and "GridScan" in norm_text(i.test)]
    ctx.require(len(sw) == 1 and sw[0].orelse, "_calculate_positions_coefficients: GridScan switch not found")
    two_pi = Poly.const(-2) * Poly.atom(PI)
    for arm_name, arm in (("GridScan", sw[0].body), ("generic", sw[0].orelse)):
        assigns = {st.targets[0].id: st.value for st in arm if isinstance(st, ast.Assign) and isinstance(
            st.targets[0], ast.Name)}
        exps = [c for st in arm for c in ast.walk(st) if isinstance(c, ast.Call) and call_name(c) == "complex_exponential"]
        ctx.require(len(exps) >= 1, f"{arm_name} arm: no complex_exponential")
        # position coordinates: a local defined from scan._x_coordinates() is the x (axis 0) coordinate, etc.
        coord_axis = {}
        for nm, v in assigns.items():
            t = norm_text(v)
            if "_x_coordinates" in t:
                coord_axis[nm] = "0"
            elif "_y_coordinates" in t:
                coord_axis[nm] = "1"
        total = Poly()
        for c in exps:
            total = total + _phase_terms(c.args[0])
        monos = total.terms
        ok = len(monos) == 2
        axes_seen = set()
        detail = total.key()
        for m, coeff in monos.items():
            atoms = dict(m)
            comps = [a for a in atoms if a != PI]
            okm = coeff == -2 and atoms.get(PI) == 1 and len(comps) == 2 and all(atoms[a] == 1 for a in comps)
            if okm:
                kcomp = [a for a in comps if a.startswith("wave_vectors__")]
                pcomp = [a for a in comps if not a.startswith("wave_vectors__")]
                okm = len(kcomp) == 1 and len(pcomp) == 1
                if okm:
                    kax = kcomp[0].rsplit("__", 1)[1]
                    p = pcomp[0]
                    pax = p.rsplit("__", 1)[1] if "__" in p else coord_axis.get(p)
                    okm = pax == kax
                    axes_seen.add(kax)
            ok = ok and okm
        ok = ok and axes_seen == {"0", "1"}
        ctx.check(ok, "R-PHASE", f"{pc.qualname}:{arm_name}", pc.loc(exps[0]),
                  f"phase = {detail}",
                  f"the {arm_name} arm's phase normalises to `{detail}`, not -2*pi*(x*k_x + y*k_y)",
                  key_detail=arm_name)
        if arm_name == "GridScan":
            ctx.check(sorted(coord_axis.values()) == ["0", "1"], "R-PHASE", f"{pc.qualname}:GridScan coordinates",
                      pc.loc(arm[0]), "x from _x_coordinates(), y from _y_coordinates()",
                      f"the GridScan arm does not take one coordinate from _x_coordinates() and one from "
                      f"_y_coordinates() ({ {k: norm_text(v)[:40] for k, v in assigns.items()} })", key_detail="xy")

    # ---------------- R-ANGLES
    cc = repo.method(SM, "SMatrixArray", "_calculate_ctf_coefficients")
    assigns = {}
    for st in walk_no_nested(cc.node):
        if isinstance(st, ast.Assign) and isinstance(st.targets[0], ast.Name):
            assigns.setdefault(st.targets[0].id, st.value)
    ev = [c for c in walk_no_nested(cc.node) if isinstance(c, ast.Call) and isinstance(c.func, ast.Attribute)
          and c.func.attr == "_evaluate_from_angular_grid"]
    ctx.require(len(ev) == 1 and len(ev[0].args) == 2, "_calculate_ctf_coefficients: kernel evaluation not found")
    a_name, p_name = (dotted(x) for x in ev[0].args)
    ctx.require(a_name in assigns and p_name in assigns, "alpha/phi definitions not found")
    alias = {}

    class _Inline(ast.NodeTransformer):
        def __init__(self):
            self.stack = []

        def visit_Name(self, node):
            if isinstance(node.ctx, ast.Load) and node.id in assigns and node.id not in self.stack and not (
                    isinstance(assigns[node.id], ast.Call) and (call_name(assigns[node.id]) or "").endswith(
                        "get_array_module")):
                self.stack.append(node.id)
                try:
                    return self.visit(copy.deepcopy(assigns[node.id]))
                finally:
                    self.stack.pop()
            return node

    def canon(expr):
        e = _Inline().visit(copy.deepcopy(expr))
        e = _Comp().visit(e)
        ast.fix_missing_locations(e)
        return e
    alpha = Normalizer(atom_alias=alias).norm(canon(assigns[a_name]))
    kx, ky = Poly.atom("wave_vectors__0"), Poly.atom("wave_vectors__1")
    ctf_param = cc.positional_params[1]
    want = (kx * kx + ky * ky).power(__import__("fractions").Fraction(1, 2)) * Poly.atom(f"{ctf_param}.wavelength")
    ctx.check(alpha == want, "R-ANGLES", f"{cc.qualname}:alpha", cc.where, f"alpha = {alpha.key()}",
              f"alpha normalises to `{alpha.key()}`, not |k|*wavelength", key_detail="alpha")
    ph = canon(assigns[p_name])
    okp = isinstance(ph, ast.Call) and (call_name(ph) or "").endswith("arctan2") and [dotted(a) for a in ph.args] == [
        "wave_vectors__1", "wave_vectors__0"]
    wl_atoms = [a for a in alpha.atoms() if a.endswith(".wavelength")]
    ctx.check(okp, "R-ANGLES", f"{cc.qualname}:phi", cc.where, "phi = arctan2(k_y, k_x)",
              f"phi = {norm_text(assigns[p_name])}: not arctan2(k_y, k_x)", key_detail="phi")
    g = repo.function("abtem.core.grid", "polar_spatial_frequencies")
    at2 = [c for c in walk_no_nested(g.node) if isinstance(c, ast.Call) and (call_name(c) or "").endswith("arctan2")]
    ctx.require(len(at2) == 1, "polar_spatial_frequencies: arctan2 not found")
    args = [norm_text(a) for a in at2[0].args]
    okg = len(args) == 2 and args[0].startswith("ky") and args[1].startswith("kx")
    ctx.check(okg, "R-ANGLES", f"{g.qualname}:phi", g.loc(at2[0]), f"real-space convention arctan2({', '.join(args)})",
              f"real-space azimuth is arctan2({', '.join(args)}): differs from the PRISM convention arctan2(k_y, k_x)",
              key_detail="grid-phi")

    # ---------------- R-FLATORDER
    bc = repo.function("abtem.prism.utils", "batch_crop_2d")
    cparam = bc.positional_params[1]
    dfc = DataFlow(bc.node)
    reps = []
    for c_ in walk_no_nested(bc.node):
        if isinstance(c_, ast.Call) and (call_name(c_) or "").split(".")[-1] in ("tile", "repeat", "broadcast_to",
                                                                                 "concatenate", "stack") and c_.args:
            stc = next((s_ for s_ in walk_no_nested(bc.node) if isinstance(s_, ast.stmt) and any(x is c_ for x in ast.walk(s_))
                        and not isinstance(s_, (ast.If, ast.For, ast.With, ast.Try, ast.FunctionDef))), None)
            if stc is None:
                continue
            src = c_.args[0] if (call_name(c_) or "").split(".")[0] in ("np", "xp", "numpy", "cp") else c_.func.value
            if cparam in dfc.backward_slice(dfc.cfg.node_of(stc).idx, src).params:
                reps.append(((call_name(c_) or "").split(".")[-1], c_))
    ctx.require(reps, f"{bc.qualname}: the replication of `{cparam}` over the batch axes was not found")
    for kind, c_ in reps:
        ctx.check(kind != "repeat", "R-FLATORDER", f"{bc.qualname}:corners replicated block-wise", bc.loc(c_),
                  f"`{norm_text(c_)[:60]}` repeats the whole corner list once per batch member",
                  f"`{norm_text(c_)[:70]}` repeats each corner consecutively (element-wise) although the flattened leading "
                  "axis runs over the positions fastest: with more than one batch member the windows are cropped at "
                  "other positions' corners", key_detail="flatorder")

    # ---------------- R-FRESHCOEFF (before the anchors of R-CONTRACT: a violation decides even if those are lost)
    from ..rules import inplace
    from ..rules.arrayown import FRESH, Ownership

    brm = repo.method(SM, "SMatrixArray", "_batch_reduce_to_measurements")
    own = Ownership(repo)
    dfb = own.df_of(brm)
    out_loops = [l for l in walk_no_nested(brm.node) if isinstance(l, ast.For) and isinstance(l.iter, ast.Call)
                 and call_name(l.iter) == "zip" and isinstance(l.target, ast.Tuple)]
    out_vars = {e.id for l in out_loops for e in l.target.elts if isinstance(e, ast.Name)}
    n_sites = 0
    for site in inplace.sites(dfb):
        idx, st, name, kind, text = site
        if not dfb.cfg.nodes[idx].loops:
            continue  # set-up before the CTF / scan loops
        if name in out_vars and kind == "store":
            continue  # measurement.array[indices] = ... : the designated output
        if name in ("pbar",):
            continue
        cls_ = inplace.classes(own, brm, site)
        n_sites += 1
        ctx.check(cls_ <= {FRESH}, "R-FRESHCOEFF", f"{brm.qualname}:in-place on per-iteration buffers only", brm.loc(st),
                  f"`{text}` writes a buffer created in the same iteration",
                  f"`{text}` modifies in place a buffer of class {sorted(cls_)} inside the CTF/scan loops: the buffer "
                  "outlives the iteration, so the coefficients of CTF member k are multiplied into what member k+1 "
                  "starts from — the reduction is no longer <probe_k, S> for each member", key_detail="fresh")
    ctx.ok("R-FRESHCOEFF", f"{brm.qualname}:scan", brm.where, f"{n_sites} in-place site(s) inside the loops examined")

    # ---------------- R-CONTRACT
    rw = repo.method(SM, "SMatrixArray", "_reduce_to_waves")
    tds = [c for c in walk_no_nested(rw.node) if isinstance(c, ast.Call) and (call_name(c) or "").endswith("tensordot")]
    ctx.require(len(tds) == 2, "_reduce_to_waves: expected two tensordot contractions")
    for c in tds:
        axes = next((k.value for k in c.keywords if k.arg == "axes"), c.args[2] if len(c.args) > 2 else None)
        ok = (axes is not None and norm_text(axes).replace(" ", "") in ("[-1,-3]", "(-1,-3)")
              and dotted(c.args[0]) == rw.positional_params[3] and dotted(c.args[1]) == rw.positional_params[1])
        ctx.check(ok, "R-CONTRACT", f"{rw.qualname}:tensordot", rw.loc(c),
                  "coefficients[-1] contracted with the plane-wave axis -3",
                  f"`{norm_text(c)}` does not contract the coefficients' last axis with the S-matrix plane-wave axis",
                  key_detail=norm_text(axes) if axes is not None else "?")
    br = repo.method(SM, "SMatrixArray", "_batch_reduce_to_measurements")
    # the coefficients handed to _reduce_to_waves: product of position and (broadcast) CTF coefficients
    rcalls = [c for c in ast.walk(br.node) if isinstance(c, ast.Call) and call_name(c) == "self._reduce_to_waves"]
    ctx.require(len(rcalls) == 1 and len(rcalls[0].args) >= 3, "_batch_reduce_to_measurements: _reduce_to_waves call not found")
    cvar = dotted(rcalls[0].args[2])
    defs = [st for st in ast.walk(br.node) if isinstance(st, ast.Assign) and len(st.targets) == 1
            and dotted(st.targets[0]) == cvar]
    mult = [st for st in defs if isinstance(st.value, ast.BinOp)]
    ctx.require(len(mult) == 1, "_batch_reduce_to_measurements: coefficient product not found")
    pos_calls = [st for st in ast.walk(br.node) if isinstance(st, ast.Assign) and isinstance(st.value, ast.Call)
                 and call_name(st.value) == "self._calculate_positions_coefficients"]
    ctf_calls = [st for st in ast.walk(br.node) if isinstance(st, ast.Assign) and isinstance(st.value, ast.Call)
                 and call_name(st.value) == "self._calculate_ctf_coefficients"]
    ctx.require(len(pos_calls) == 1 and len(ctf_calls) == 1, "coefficient computations not found")
    pos_var, ctf_var = dotted(pos_calls[0].targets[0]), dotted(ctf_calls[0].targets[0])
    ex0 = [st for st in ast.walk(br.node) if isinstance(st, ast.Assign) and isinstance(st.value, ast.Call)
           and call_name(st.value) == "expand_dims_to_broadcast" and isinstance(st.targets[0], ast.Tuple)]
    expanded = {}
    for st in ex0:
        for tgt, arg in zip(st.targets[0].elts, st.value.args):
            expanded[dotted(tgt)] = dotted(arg)
    operands = {expanded.get(dotted(mult[0].value.left), dotted(mult[0].value.left)),
                expanded.get(dotted(mult[0].value.right), dotted(mult[0].value.right))}
    ok = isinstance(mult[0].value.op, ast.Mult) and operands == {pos_var, ctf_var}
    ctx.check(ok, "R-CONTRACT", f"{br.qualname}:product", br.loc(mult[0]), "coefficients = positions * ctf",
              f"`{norm_text(mult[0])}` is not the product of position and CTF coefficients", key_detail="product")
    ex = [c for c in ast.walk(br.node) if isinstance(c, ast.Call) and call_name(c) == "expand_dims_to_broadcast"]
    ctx.require(len(ex) == 1, "expand_dims_to_broadcast call not found")
    md = next((k.value for k in ex[0].keywords if k.arg == "match_dims"), None)
    ok = md is not None and norm_text(md).replace(" ", "") in ("[(-1,),(-1,)]", "((-1,),(-1,))")
    ctx.check(ok, "R-CONTRACT", f"{br.qualname}:match-dims", br.loc(ex[0]), "plane-wave axes (-1) matched",
              f"coefficients are broadcast with match_dims={norm_text(md) if md is not None else None}", key_detail="dims")
