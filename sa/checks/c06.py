"""C06 — PRISM reduction reproduces conventional multislice probes (coefficient clauses)."""
from __future__ import annotations

import ast
import copy

from ..model import AnalysisError, call_name, dotted, norm_text, walk_no_nested
from ..rules import cnorm
from ..terms import PI, Normalizer, Poly

SM = "abtem.prism.s_matrix"


class _Comp(ast.NodeTransformer):
    """Strip broadcasting subscripts and name vector components: v[None, None, :, 0] -> v__0,
    v[:, 0][None] -> v__0, x[:, None, None] -> x."""

    def visit_Subscript(self, node: ast.Subscript):
        self.generic_visit(node)
        idx = node.slice.elts if isinstance(node.slice, ast.Tuple) else [node.slice]
        comp = None
        for i in idx:
            if isinstance(i, ast.Constant) and i.value is None:
                continue
            if isinstance(i, ast.Constant) and i.value is Ellipsis:
                continue
            if isinstance(i, ast.Slice) and i.lower is None and i.upper is None and i.step is None:
                continue
            if isinstance(i, ast.Constant) and isinstance(i.value, int) and comp is None:
                comp = i.value
                continue
            return node  # something else: leave alone
        base = node.value
        if comp is None:
            return base
        d = dotted(base)
        if d is None:
            return node
        base_name = d.split(".")[-1].lstrip("_")
        return ast.Name(id=base_name + f"__{comp}", ctx=ast.Load())


def _phase_terms(expr: ast.expr) -> Poly:
    e = _Comp().visit(copy.deepcopy(expr))
    ast.fix_missing_locations(e)
    return Normalizer().norm(e)


def run(ctx) -> None:
    repo = ctx.repo
    ctx.rule("R-CNORM", cnorm.__doc__.split("\n\n", 1)[1])
    ctx.rule("R-PHASE", "the position coefficients of the PRISM expansion are exp(-2 pi i (x kx + y ky)) in both the "
             "GridScan arm and the generic arm: every complex_exponential argument is a sum of terms -2*pi*p_i*k_i "
             "with the position component and the wave-vector component of the same axis")
    ctx.rule("R-ANGLES", "the CTF coefficients are evaluated at alpha = |k|*wavelength and phi = arctan2(k_y, k_x), the "
             "same convention as the real-space probe's angular grid (grid.polar_spatial_frequencies)")
    ctx.rule("R-FLATORDER", "batch_crop_2d flattens (batch axes..., positions) to one leading axis in C order, so the "
             "position index varies fastest: the per-position crop corners are extended to the flattened length by "
             "block-wise replication (np.tile(corners, (n_batch, 1)), broadcast_to + reshape, concatenation of whole "
             "copies) — an element-wise np.repeat(corners, n_batch, axis=0) pairs window k of batch b with the corner "
             "of another position whenever there is more than one batch member (several frozen-phonon configurations "
             "in one eager S-matrix)")
    ctx.rule("R-FRESHCOEFF", "inside the CTF / scan-position loops of _batch_reduce_to_measurements every in-place write "
             "(augmented assignment, subscript store, out=) other than the store into the output measurement goes to "
             "a buffer created in the same iteration (ownership class FRESH of sa/rules/arrayown.py): coefficients "
             "hoisted out of the CTF loop and multiplied in place would carry CTF member k into member k+1")
    ctx.rule("R-CONTRACT", "the reduction contracts the coefficient's last axis with the plane-wave axis (-3) of the "
             "S-matrix in both the cropped and the uncropped arm, and CTF and position coefficients are combined by "
             "multiplication along their last (plane-wave) axis")
    ctx.undecided("window cropping equality with interpolation; lazy reduction schemes; numerical agreement with "
                  "multislice")

    n = cnorm.check_package(ctx)
    ctx.require(n >= 4, f"R-CNORM matched only {n} normalisations in the package")
    # positive control for the taint domain
    from ..cfg import DataFlow
    src = "def f(a):\n    x = complex_exponential(a)\n    y = x / np.sqrt((x ** 2).sum())\n    w = np.exp(-a)\n    z = w / np.sqrt((w ** 2).sum())\n"
    fn = ast.parse(src).body[0]
    dfc = DataFlow(fn)
    t1 = cnorm.taint(dfc, dfc.cfg.node_of(fn.body[1]).idx, ast.Name(id="x", ctx=ast.Load()))
    t2 = cnorm.taint(dfc, dfc.cfg.node_of(fn.body[3]).idx, ast.Name(id="w", ctx=ast.Load()))
    ctx.require((t1, t2) == ("complex", "unknown") or (t1, t2) == ("complex", "real"), f"R-CNORM control failed {t1} {t2}")

    # ---------------- R-PHASE
    pc = repo.method(SM, "SMatrixArray", "_calculate_positions_coefficients")
    sw = [i for i in walk_no_nested(pc.node) if isinstance(i, ast.If) and "GridScan" in norm_text(i.test)]
    ctx.require(len(sw) == 1 and sw[0].orelse, "_calculate_positions_coefficients: GridScan switch not found")
    two_pi = Poly.const(-2) * Poly.atom(PI)
    for arm_name, arm in (("GridScan", sw[0].body), ("generic", sw[0].orelse)):
        assigns = {st.targets[0].id: st.value for st in arm if isinstance(st, ast.Assign) and isinstance(
            st.targets[0], ast.Name)}
        exps = [c for st in arm for c in ast.walk(st) if isinstance(c, ast.Call) and call_name(c) == "complex_exponential"]
        ctx.require(len(exps) >= 1, f"{arm_name} arm: no complex_exponential")
        # position coordinates: a local defined from scan._x_coordinates() is the x (axis 0) coordinate, etc.
        coord_axis = {}
        for nm, v in assigns.items():
            t = norm_text(v)
            if "_x_coordinates" in t:
                coord_axis[nm] = "0"
            elif "_y_coordinates" in t:
                coord_axis[nm] = "1"
        total = Poly()
        for c in exps:
            # a factor in the denominator of a quotient (or conjugated) contributes minus its phase
            sgn = 1
            for st_ in arm:
                for q in ast.walk(st_):
                    if isinstance(q, ast.BinOp) and isinstance(q.op, ast.Div) and any(x is c for x in ast.walk(q.right)):
                        sgn = -sgn
                    if isinstance(q, ast.Call) and isinstance(q.func, ast.Attribute) and q.func.attr in ("conj", "conjugate") \
                            and any(x is c for x in ast.walk(q)) and q is not c:
                        sgn = -sgn
            total = total + (_phase_terms(c.args[0]) if sgn == 1 else -_phase_terms(c.args[0]))
        monos = total.terms
        ok = len(monos) == 2
        axes_seen = set()
        detail = total.key()
        for m, coeff in monos.items():
            atoms = dict(m)
            comps = [a for a in atoms if a != PI]
            okm = coeff == -2 and atoms.get(PI) == 1 and len(comps) == 2 and all(atoms[a] == 1 for a in comps)
            if okm:
                kcomp = [a for a in comps if a.startswith("wave_vectors__")]
                pcomp = [a for a in comps if not a.startswith("wave_vectors__")]
                okm = len(kcomp) == 1 and len(pcomp) == 1
                if okm:
                    kax = kcomp[0].rsplit("__", 1)[1]
                    p = pcomp[0]
                    pax = p.rsplit("__", 1)[1] if "__" in p else coord_axis.get(p)
                    okm = pax == kax
                    axes_seen.add(kax)
            ok = ok and okm
        ok = ok and axes_seen == {"0", "1"}
        ctx.check(ok, "R-PHASE", f"{pc.qualname}:{arm_name}", pc.loc(exps[0]),
                  f"phase = {detail}",
                  f"the {arm_name} arm's phase normalises to `{detail}`, not -2*pi*(x*k_x + y*k_y)",
                  key_detail=arm_name)
        if arm_name == "GridScan":
            ctx.check(sorted(coord_axis.values()) == ["0", "1"], "R-PHASE", f"{pc.qualname}:GridScan coordinates",
                      pc.loc(arm[0]), "x from _x_coordinates(), y from _y_coordinates()",
                      f"the GridScan arm does not take one coordinate from _x_coordinates() and one from "
                      f"_y_coordinates() ({ {k: norm_text(v)[:40] for k, v in assigns.items()} })", key_detail="xy")

    # ---------------- R-ANGLES
    cc = repo.method(SM, "SMatrixArray", "_calculate_ctf_coefficients")
    assigns = {}
    for st in walk_no_nested(cc.node):
        if isinstance(st, ast.Assign) and isinstance(st.targets[0], ast.Name):
            assigns.setdefault(st.targets[0].id, st.value)
    ev = [c for c in walk_no_nested(cc.node) if isinstance(c, ast.Call) and isinstance(c.func, ast.Attribute)
          and c.func.attr == "_evaluate_from_angular_grid"]
    ctx.require(len(ev) == 1 and len(ev[0].args) == 2, "_calculate_ctf_coefficients: kernel evaluation not found")
    a_name, p_name = (dotted(x) for x in ev[0].args)
    ctx.require(a_name in assigns and p_name in assigns, "alpha/phi definitions not found")
    alias = {}

    class _Inline(ast.NodeTransformer):
        def __init__(self):
            self.stack = []

        def visit_Name(self, node):
            if isinstance(node.ctx, ast.Load) and node.id in assigns and node.id not in self.stack and not (
                    isinstance(assigns[node.id], ast.Call) and (call_name(assigns[node.id]) or "").endswith(
                        "get_array_module")):
                self.stack.append(node.id)
                try:
                    return self.visit(copy.deepcopy(assigns[node.id]))
                finally:
                    self.stack.pop()
            return node

    def canon(expr):
        e = _Inline().visit(copy.deepcopy(expr))
        e = _Comp().visit(e)
        ast.fix_missing_locations(e)
        return e
    alpha = Normalizer(atom_alias=alias).norm(canon(assigns[a_name]))
    kx, ky = Poly.atom("wave_vectors__0"), Poly.atom("wave_vectors__1")
    ctf_param = cc.positional_params[1]
    want = (kx * kx + ky * ky).power(__import__("fractions").Fraction(1, 2)) * Poly.atom(f"{ctf_param}.wavelength")
    ctx.check(alpha == want, "R-ANGLES", f"{cc.qualname}:alpha", cc.where, f"alpha = {alpha.key()}",
              f"alpha normalises to `{alpha.key()}`, not |k|*wavelength", key_detail="alpha")
    ph = canon(assigns[p_name])
    okp = isinstance(ph, ast.Call) and (call_name(ph) or "").endswith("arctan2") and [dotted(a) for a in ph.args] == [
        "wave_vectors__1", "wave_vectors__0"]
    wl_atoms = [a for a in alpha.atoms() if a.endswith(".wavelength")]
    ctx.check(okp, "R-ANGLES", f"{cc.qualname}:phi", cc.where, "phi = arctan2(k_y, k_x)",
              f"phi = {norm_text(assigns[p_name])}: not arctan2(k_y, k_x)", key_detail="phi")
    g = repo.function("abtem.core.grid", "polar_spatial_frequencies")
    at2 = [c for c in walk_no_nested(g.node) if isinstance(c, ast.Call) and (call_name(c) or "").endswith("arctan2")]
    ctx.require(len(at2) == 1, "polar_spatial_frequencies: arctan2 not found")
    args = [norm_text(a) for a in at2[0].args]
    okg = len(args) == 2 and args[0].startswith("ky") and args[1].startswith("kx")
    ctx.check(okg, "R-ANGLES", f"{g.qualname}:phi", g.loc(at2[0]), f"real-space convention arctan2({', '.join(args)})",
              f"real-space azimuth is arctan2({', '.join(args)}): differs from the PRISM convention arctan2(k_y, k_x)",
              key_detail="grid-phi")

    # ---------------- R-FLATORDER
    bc = repo.function("abtem.prism.utils", "batch_crop_2d")
    cparam = bc.positional_params[1]
    dfc = DataFlow(bc.node)
    reps = []
    for c_ in walk_no_nested(bc.node):
        if isinstance(c_, ast.Call) and (call_name(c_) or "").split(".")[-1] in ("tile", "repeat", "broadcast_to",
                                                                                 "concatenate", "stack") and c_.args:
            stc = next((s_ for s_ in walk_no_nested(bc.node) if isinstance(s_, ast.stmt) and any(x is c_ for x in ast.walk(s_))
                        and not isinstance(s_, (ast.If, ast.For, ast.With, ast.Try, ast.FunctionDef))), None)
            if stc is None:
                continue
            src = c_.args[0] if (call_name(c_) or "").split(".")[0] in ("np", "xp", "numpy", "cp") else c_.func.value
            if cparam in dfc.backward_slice(dfc.cfg.node_of(stc).idx, src).params:
                reps.append(((call_name(c_) or "").split(".")[-1], c_))
    ctx.require(reps, f"{bc.qualname}: the replication of `{cparam}` over the batch axes was not found")
    for kind, c_ in reps:
        ctx.check(kind != "repeat", "R-FLATORDER", f"{bc.qualname}:corners replicated block-wise", bc.loc(c_),
                  f"`{norm_text(c_)[:60]}` repeats the whole corner list once per batch member",
                  f"`{norm_text(c_)[:70]}` repeats each corner consecutively (element-wise) although the flattened leading "
                  "axis runs over the positions fastest: with more than one batch member the windows are cropped at "
                  "other positions' corners", key_detail="flatorder")

    # ---------------- R-FRESHCOEFF (before the anchors of R-CONTRACT: a violation decides even if those are lost)
    from ..rules import inplace
    from ..rules.arrayown import FRESH, Ownership

    brm = repo.method(SM, "SMatrixArray", "_batch_reduce_to_measurements")
    own = Ownership(repo)
    dfb = own.df_of(brm)
    out_loops = [l for l in walk_no_nested(brm.node) if isinstance(l, ast.For) and isinstance(l.iter, ast.Call)
                 and call_name(l.iter) == "zip" and isinstance(l.target, ast.Tuple)]
    out_vars = {e.id for l in out_loops for e in l.target.elts if isinstance(e, ast.Name)}
    n_sites = 0
    for site in inplace.sites(dfb):
        idx, st, name, kind, text = site
        if not dfb.cfg.nodes[idx].loops:
            continue  # set-up before the CTF / scan loops
        if name in out_vars and kind == "store":
            continue  # measurement.array[indices] = ... : the designated output
        if name in ("pbar",):
            continue
        cls_ = inplace.classes(own, brm, site)
        n_sites += 1
        ctx.check(cls_ <= {FRESH}, "R-FRESHCOEFF", f"{brm.qualname}:in-place on per-iteration buffers only", brm.loc(st),
                  f"`{text}` writes a buffer created in the same iteration",
                  f"`{text}` modifies in place a buffer of class {sorted(cls_)} inside the CTF/scan loops: the buffer "
                  "outlives the iteration, so the coefficients of CTF member k are multiplied into what member k+1 "
                  "starts from — the reduction is no longer <probe_k, S> for each member", key_detail="fresh")
    ctx.ok("R-FRESHCOEFF", f"{brm.qualname}:scan", brm.where, f"{n_sites} in-place site(s) inside the loops examined")

    # ---------------- R-CONTRACT
    rw = repo.method(SM, "SMatrixArray", "_reduce_to_waves")
    tds = [c for c in walk_no_nested(rw.node) if isinstance(c, ast.Call) and (call_name(c) or "").endswith("tensordot")]
    ctx.require(len(tds) == 2, "_reduce_to_waves: expected two tensordot contractions")
    for c in tds:
        axes = next((k.value for k in c.keywords if k.arg == "axes"), c.args[2] if len(c.args) > 2 else None)
        ok = (axes is not None and norm_text(axes).replace(" ", "") in ("[-1,-3]", "(-1,-3)")
              and dotted(c.args[0]) == rw.positional_params[3] and dotted(c.args[1]) == rw.positional_params[1])
        ctx.check(ok, "R-CONTRACT", f"{rw.qualname}:tensordot", rw.loc(c),
                  "coefficients[-1] contracted with the plane-wave axis -3",
                  f"`{norm_text(c)}` does not contract the coefficients' last axis with the S-matrix plane-wave axis",
                  key_detail=norm_text(axes) if axes is not None else "?")
    br = repo.method(SM, "SMatrixArray", "_batch_reduce_to_measurements")
    # the coefficients handed to _reduce_to_waves: product of position and (broadcast) CTF coefficients
    rcalls = [c for c in ast.walk(br.node) if isinstance(c, ast.Call) and call_name(c) == "self._reduce_to_waves"]
    ctx.require(len(rcalls) == 1 and len(rcalls[0].args) >= 3, "_batch_reduce_to_measurements: _reduce_to_waves call not found")
    cvar = dotted(rcalls[0].args[2])
    defs = [st for st in ast.walk(br.node) if isinstance(st, ast.Assign) and len(st.targets) == 1
            and dotted(st.targets[0]) == cvar]
    mult = [st for st in defs if isinstance(st.value, ast.BinOp)]
    ctx.require(len(mult) == 1, "_batch_reduce_to_measurements: coefficient product not found")
    pos_calls = [st for st in ast.walk(br.node) if isinstance(st, ast.Assign) and isinstance(st.value, ast.Call)
                 and call_name(st.value) == "self._calculate_positions_coefficients"]
    ctf_calls = [st for st in ast.walk(br.node) if isinstance(st, ast.Assign) and isinstance(st.value, ast.Call)
                 and call_name(st.value) == "self._calculate_ctf_coefficients"]
    ctx.require(len(pos_calls) == 1 and len(ctf_calls) == 1, "coefficient computations not found")
    pos_var, ctf_var = dotted(pos_calls[0].targets[0]), dotted(ctf_calls[0].targets[0])
    ex0 = [st for st in ast.walk(br.node) if isinstance(st, ast.Assign) and isinstance(st.value, ast.Call)
           and call_name(st.value) == "expand_dims_to_broadcast" and isinstance(st.targets[0], ast.Tuple)]
    expanded = {}
    for st in ex0:
        for tgt, arg in zip(st.targets[0].elts, st.value.args):
            expanded[dotted(tgt)] = dotted(arg)
    operands = {expanded.get(dotted(mult[0].value.left), dotted(mult[0].value.left)),
                expanded.get(dotted(mult[0].value.right), dotted(mult[0].value.right))}
    ok = isinstance(mult[0].value.op, ast.Mult) and operands == {pos_var, ctf_var}
    ctx.check(ok, "R-CONTRACT", f"{br.qualname}:product", br.loc(mult[0]), "coefficients = positions * ctf",
              f"`{norm_text(mult[0])}` is not the product of position and CTF coefficients", key_detail="product")
    ex = [c for c in ast.walk(br.node) if isinstance(c, ast.Call) and call_name(c) == "expand_dims_to_broadcast"]
    ctx.require(len(ex) == 1, "expand_dims_to_broadcast call not found")
    md = next((k.value for k in ex[0].keywords if k.arg == "match_dims"), None)
    ok = md is not None and norm_text(md).replace(" ", "") in ("[(-1,),(-1,)]", "((-1,),(-1,))")
    ctx.check(ok, "R-CONTRACT", f"{br.qualname}:match-dims", br.loc(ex[0]), "plane-wave axes (-1) matched",
              f"coefficients are broadcast with match_dims={norm_text(md) if md is not None else None}", key_detail="dims")


# =====================================================================================================================
# ---- added after the mutation sweep
from fractions import Fraction  # noqa: E402

from ..cfg import DataFlow  # noqa: E402
from ..model import bind_args, kw, last_attr  # noqa: E402
from ..terms import FlowNormalizer  # noqa: E402

PU = "abtem.prism.utils"


def _node_at(df: DataFlow, f, target: ast.AST) -> int:
    for n in df.cfg.nodes:
        if n.kind == "stmt" and n.ast is not None and any(x is target for x in ast.walk(n.ast)) and not isinstance(
                n.ast, (ast.If, ast.For, ast.While, ast.With, ast.Try)):
            return n.idx
    for n in df.cfg.nodes:
        if n.ast is not None and any(x is target for x in ast.walk(n.ast)):
            return n.idx
    raise AnalysisError(f"{f.qualname}: no CFG node for `{norm_text(target)[:40]}`")


# ---------------------------------------------------------------------------------------------- R-UNITNORM
def _modsq_of(e: ast.expr):
    """X when e is |X|^2: abs2(X), abs(X)**2, X*conj(X) (optionally .real)."""
    if isinstance(e, ast.Attribute) and e.attr == "real":
        return _modsq_of(e.value)
    if isinstance(e, ast.Call) and last_attr(e) == "abs2" and len(e.args) == 1:
        return e.args[0]
    if isinstance(e, ast.BinOp) and isinstance(e.op, ast.Pow) and isinstance(e.right, ast.Constant) and e.right.value == 2 \
            and isinstance(e.left, ast.Call) and last_attr(e.left) in ("abs", "absolute") and len(e.left.args) == 1:
        return e.left.args[0]
    if isinstance(e, ast.BinOp) and isinstance(e.op, ast.Mult):
        for a, b in ((e.left, e.right), (e.right, e.left)):
            if isinstance(b, ast.Call) and last_attr(b) in ("conj", "conjugate"):
                inner = b.args[0] if b.args else (b.func.value if isinstance(b.func, ast.Attribute) else None)
                if inner is not None and norm_text(inner) == norm_text(a):
                    return a
    return None


def _unitnorm(ctx) -> None:
    repo = ctx.repo
    cc = repo.method(SM, "SMatrixArray", "_calculate_ctf_coefficients")
    df = DataFlow(cc.node)
    rets = [r for r in walk_no_nested(cc.node) if isinstance(r, ast.Return) and r.value is not None]
    ctx.require(len(rets) == 1, f"{cc.qualname}: expected one return")
    sums: dict[str, tuple] = {}

    def hook(nz, c):
        s = last_attr(c)
        if s == "_evaluate_from_angular_grid":
            return Poly.atom("KERNEL")
        if s == "sum":
            recv = c.func.value if isinstance(c.func, ast.Attribute) and not (
                isinstance(c.func.value, ast.Name) and c.args and _modsq_of(c.args[0]) is not None) else (
                c.args[0] if c.args else None)
            x = _modsq_of(recv) if recv is not None else None
            if x is not None:
                inner = nz.norm(x)
                name = f"SUMSQ{len(sums)}"
                axis = kw(c, "axis")
                keep = kw(c, "keepdims")
                pos = [a for a in c.args if a is not recv]
                if axis is None and pos:
                    axis = pos[0]
                sums[name] = (inner, axis, keep, c)
                return Poly.atom(name)
        if s == "norm" and c.args:  # linalg.norm(X, axis=..., keepdims=...) = sqrt(sum |X|^2)
            inner = nz.norm(c.args[0])
            name = f"SUMSQ{len(sums)}"
            sums[name] = (inner, kw(c, "axis"), kw(c, "keepdims"), c)
            return Poly.atom(name).power(Fraction(1, 2))
        return None

    nz = FlowNormalizer(df, df.cfg.node_of(rets[0]).idx, call_hook=hook)
    p = nz.norm(rets[0].value)
    cons = f"{cc.qualname}:unit norm over the plane waves"
    ctx.require("KERNEL" in p.atoms(), f"{cc.qualname}: the returned coefficients are not derived from the CTF kernel")
    ctx.require(len(sums) >= 1, f"{cc.qualname}: no sum of squared moduli found in `{p.key()[:80]}`: normalisation not recognised")
    ok = len(sums) == 1
    why = f"{len(sums)} different sums"
    if ok:
        (name, (inner, axis, keep, call)), = sums.items()
        want = Poly.atom("KERNEL") * Poly.atom(name).power(Fraction(-1, 2))
        if inner != Poly.atom("KERNEL"):
            ok, why = False, f"the sum is taken of `{inner.key()}`, not of the coefficients themselves"
        elif p != want:
            ok, why = False, (f"the coefficients are `{p.key().replace(name, 'sum|c|^2')}` instead of "
                              "c / sqrt(sum |c|^2)")
        else:
            ax = None
            if axis is not None:
                try:
                    from ..model import fold_constant

                    ax = fold_constant(axis)
                except Exception:
                    raise AnalysisError(f"{cc.qualname}: axis `{norm_text(axis)}` of the normalising sum is not a literal")
            kd = isinstance(keep, ast.Constant) and keep.value is True
            if ax not in (-1, (-1,)):
                ok, why = False, (f"the sum runs over axis {ax!r}, not over the plane-wave axis -1: with a CTF ensemble "
                                  "(several defocus values ...) the members are mixed and no member has unit norm")
            elif not kd:
                ok, why = False, ("the sum drops the plane-wave axis (keepdims is not True): with a CTF ensemble the "
                                  "division broadcasts the norms along the wrong axis (or fails)")
    ctx.check(ok, "R-UNITNORM", cons, cc.loc(rets[0]), "c / sqrt(sum_k |c_k|^2) over axis -1, keepdims",
              f"{why} — the probe built from the S-matrix does not carry unit intensity like the real-space Probe, so "
              "exit waves and measurements differ by a factor that depends on the aberrations", key_detail="unitnorm")


# ---------------------------------------------------------------------------------------------- R-PHASEPRODUCT
def _phase_of(df, at, e: ast.expr, depth: int = 0) -> Poly:
    """total phase of an expression built from complex_exponential factors by * and / (and conj)."""
    if depth > 8:
        raise AnalysisError("phase expression too deep")
    if isinstance(e, ast.Call) and call_name(e) == "complex_exponential" and len(e.args) == 1:
        return _phase_terms(e.args[0])
    if isinstance(e, ast.Call) and last_attr(e) in ("conj", "conjugate"):
        inner = e.args[0] if e.args else e.func.value
        return -_phase_of(df, at, inner, depth + 1)
    if isinstance(e, ast.Call) and last_attr(e) in ("asarray", "array", "astype", "copy") :
        inner = e.args[0] if (e.args and last_attr(e) in ("asarray", "array")) else e.func.value
        return _phase_of(df, at, inner, depth + 1)
    if isinstance(e, ast.BinOp) and isinstance(e.op, ast.Mult):
        return _phase_of(df, at, e.left, depth + 1) + _phase_of(df, at, e.right, depth + 1)
    if isinstance(e, ast.BinOp) and isinstance(e.op, ast.Div):
        return _phase_of(df, at, e.left, depth + 1) - _phase_of(df, at, e.right, depth + 1)
    if isinstance(e, ast.Name):
        defs = df.reaching(at, e.id)
        if len(defs) == 1 and defs[0].kind == "assign" and defs[0].value is not None:
            return _phase_of(df, defs[0].node, defs[0].value, depth + 1)
        if len(defs) == 2 and {d.kind for d in defs} == {"assign", "aug"}:
            a = next(d for d in defs if d.kind == "assign")
            g = next(d for d in defs if d.kind == "aug")
            st = df.cfg.nodes[g.node].ast
            if isinstance(st, ast.AugAssign) and isinstance(st.op, (ast.Mult, ast.Div)):
                sign = 1 if isinstance(st.op, ast.Mult) else -1
                rhs = _phase_of(df, g.node, st.value, depth + 1)
                return _phase_of(df, a.node, a.value, depth + 1) + (rhs if sign == 1 else -rhs)
    raise AnalysisError(f"cannot read the phase of `{norm_text(e)[:60]}`")


def _phase_product(ctx) -> None:
    repo = ctx.repo
    pc = repo.method(SM, "SMatrixArray", "_calculate_positions_coefficients")
    df = DataFlow(pc.node)
    rets = [r for r in walk_no_nested(pc.node) if isinstance(r, ast.Return) and r.value is not None]
    ctx.require(len(rets) == 1 and isinstance(rets[0].value, ast.Name), f"{pc.qualname}: expected `return <coefficients>`")
    rname = rets[0].value.id
    at = df.cfg.node_of(rets[0]).idx
    coord_axis = {}
    for st in walk_no_nested(pc.node):
        if isinstance(st, ast.Assign) and isinstance(st.targets[0], ast.Name):
            t = {last_attr(c) for c in ast.walk(st.value) if isinstance(c, ast.Call)}
            if "_x_coordinates" in t:
                coord_axis[st.targets[0].id] = "0"
            elif "_y_coordinates" in t:
                coord_axis[st.targets[0].id] = "1"
    defs = [d for d in df.reaching(at, rname) if d.kind in ("assign", "aug")]
    ctx.require(len(defs) >= 2, f"{pc.qualname}: expected one definition of the coefficients per scan type")

    def phase_of_def(d, depth=0):
        stn = df.cfg.nodes[d.node].ast
        if d.kind == "assign" and d.value is not None:
            return _phase_of(df, d.node, d.value)
        if d.kind == "aug" and isinstance(stn, ast.AugAssign) and isinstance(stn.op, (ast.Mult, ast.Div)) and depth < 6:
            before = [x for x in df.reaching(d.node, rname) if x.kind in ("assign", "aug")]
            if len(before) == 1:
                rhs = _phase_of(df, d.node, stn.value)
                return phase_of_def(before[0], depth + 1) + (rhs if isinstance(stn.op, ast.Mult) else -rhs)
        raise AnalysisError(f"{pc.qualname}: cannot read the phase defined by `{norm_text(stn)[:60]}`")

    consumed = {x.node for g in defs if g.kind == "aug" for x in df.reaching(g.node, rname) if x.node != g.node}
    for d in defs:
        if d.node in consumed:
            continue  # updated in place afterwards: judged through the augmented assignment
        st = df.cfg.nodes[d.node].ast
        total = phase_of_def(d)
        good = len(total.terms) == 2
        axes_seen = set()
        for m, coeff in total.terms.items():
            atoms = dict(m)
            comps = [a for a in atoms if a != PI]
            okm = coeff == -2 and atoms.get(PI) == 1 and len(comps) == 2 and all(atoms[a] == 1 for a in comps)
            if okm:
                kc = [a for a in comps if a.startswith("wave_vectors__")]
                pcs = [a for a in comps if not a.startswith("wave_vectors__")]
                okm = len(kc) == 1 and len(pcs) == 1
                if okm:
                    kax = kc[0].rsplit("__", 1)[1]
                    pax = pcs[0].rsplit("__", 1)[1] if "__" in pcs[0] else coord_axis.get(pcs[0])
                    okm = pax == kax
                    axes_seen.add(kax)
            good = good and okm
        good = good and axes_seen == {"0", "1"}
        arm = "GridScan" if any(a in coord_axis for a in total.atoms()) else "generic"
        ctx.check(good, "R-PHASEPRODUCT", f"{pc.qualname}:{arm} total phase", pc.loc(st),
                  f"phase of the product of the exponential factors = {total.key()}",
                  f"the exponential factors combine (products add, quotients subtract their phases) to the phase "
                  f"`{total.key()}`, not to -2*pi*(x*k_x + y*k_y): the probe is shifted to a mirrored position",
                  key_detail=f"total-{arm}")


# ---------------------------------------------------------------------------------------------- R-REDUCE
def _reduce_rules(ctx) -> None:
    repo = ctx.repo
    rw = repo.method(SM, "SMatrixArray", "_reduce_to_waves")
    br = repo.method(SM, "SMatrixArray", "_batch_reduce_to_measurements")
    df = DataFlow(rw.node)
    cparam = rw.positional_params[3]
    # (a) the coefficients stay complex
    for st in walk_no_nested(rw.node):
        if not (isinstance(st, ast.Assign) and isinstance(st.value, ast.Call)):
            continue
        c = st.value
        dt = kw(c, "dtype")
        if dt is None and last_attr(c) == "astype" and c.args:
            dt = c.args[0]
        src = c.args[0] if c.args and last_attr(c) != "astype" else (c.func.value if isinstance(c.func, ast.Attribute) else None)
        if dt is None or src is None or not (isinstance(src, ast.Name) and src.id == cparam):
            continue
        is_complex = None
        if isinstance(dt, ast.Call) and last_attr(dt) == "get_dtype":
            cv = kw(dt, "complex")
            if cv is None and dt.args:
                cv = dt.args[0]
            if isinstance(cv, ast.Constant) and isinstance(cv.value, bool):
                is_complex = cv.value
            elif cv is None:
                is_complex = False
        elif "complex" in norm_text(dt):
            is_complex = True
        elif "float" in norm_text(dt):
            is_complex = False
        if is_complex is None:
            raise AnalysisError(f"{rw.qualname}: cannot read the dtype `{norm_text(dt)}` the coefficients are cast to")
        ctx.check(is_complex, "R-REDUCE", f"{rw.qualname}:coefficients stay complex", rw.loc(st),
                  f"`{norm_text(dt)}` is a complex type",
                  f"the expansion coefficients exp(-2 pi i k.r) * CTF(k) are cast to the real type `{norm_text(dt)}`: "
                  "their imaginary part (the whole position and aberration phase) is discarded", key_detail="complex")
    # (b) the cropped arm is the one taken when the window differs from the grid
    ifs = [i for i in walk_no_nested(rw.node) if isinstance(i, ast.If) and i.orelse and
           any(isinstance(c, ast.Call) and last_attr(c) in ("minimum_crop", "wrapped_crop_2d", "batch_crop_2d")
               for s in i.body + i.orelse for c in ast.walk(s))]
    ctx.require(len(ifs) == 1, f"{rw.qualname}: the window / full-grid switch was not found")
    sw = ifs[0]
    test, neg = sw.test, False
    while isinstance(test, ast.UnaryOp) and isinstance(test.op, ast.Not):
        test, neg = test.operand, not neg
    ctx.require(isinstance(test, ast.Compare) and len(test.ops) == 1 and isinstance(test.ops[0], (ast.Eq, ast.NotEq)),
                f"{rw.qualname}: switch `{norm_text(sw.test)}` is not an (in)equality")
    sides = {dotted(test.left), dotted(test.comparators[0])}
    ctx.require(sides == {"self.window_gpts", "self.gpts"}, f"{rw.qualname}: switch compares {sorted(map(str, sides))}")
    body_when_differs = isinstance(test.ops[0], ast.NotEq) != neg
    crop_in_body = any(isinstance(c, ast.Call) and last_attr(c) in ("minimum_crop", "wrapped_crop_2d", "batch_crop_2d")
                       for s in sw.body for c in ast.walk(s))
    crop_in_else = any(isinstance(c, ast.Call) and last_attr(c) in ("minimum_crop", "wrapped_crop_2d", "batch_crop_2d")
                       for s in sw.orelse for c in ast.walk(s))
    ctx.check(crop_in_body != crop_in_else and crop_in_body == body_when_differs, "R-REDUCE",
              f"{rw.qualname}:window crop iff the window differs from the grid", rw.loc(sw),
              "cropping arm taken when window_gpts != gpts, plain contraction otherwise",
              f"with `{norm_text(sw.test)}` the cropping arm runs when the window equals the grid and the plain "
              "contraction when it does not: without interpolation the probes come back re-centred in a wrapped window, "
              "with interpolation they are not cropped to the window at all", key_detail="croparm")
    # (c) ensemble axis moved to the front exactly when the S-matrix has more than (plane wave, y, x) axes
    n_guard = 0
    for i in walk_no_nested(rw.node):
        if not (isinstance(i, ast.If) and any(isinstance(c, ast.Call) and last_attr(c) == "moveaxis" for s in i.body
                                              if not isinstance(s, (ast.If, ast.For, ast.While)) for c in ast.walk(s))):
            continue
        from ..model import NotConstant, fold_constant

        class _Len(ast.NodeTransformer):
            def visit_Call(self, node):
                if call_name(node) == "len" and len(node.args) == 1 and (dotted(node.args[0]) or "").endswith(".shape"):
                    return ast.Name(id="__ndim", ctx=ast.Load())
                return self.generic_visit(node)

            def visit_Attribute(self, node):
                if node.attr == "ndim":
                    return ast.Name(id="__ndim", ctx=ast.Load())
                return self.generic_visit(node)

        t2 = ast.fix_missing_locations(_Len().visit(copy.deepcopy(i.test)))
        try:
            truth = {n: bool(_fold_cmp(t2, {"__ndim": n})) for n in (3, 4, 5)}
        except NotConstant:
            raise AnalysisError(f"{rw.qualname}: cannot evaluate `{norm_text(i.test)}` for a given number of axes")
        n_guard += 1
        ctx.check(truth == {3: False, 4: True, 5: True}, "R-REDUCE", f"{rw.qualname}:ensemble axis to the front {n_guard}",
                  rw.loc(i), "moveaxis(-3, 0) exactly when the S-matrix has an ensemble axis (more than 3 axes)",
                  f"`{norm_text(i.test)}` is {truth} for 3/4/5 array axes: with exactly (plane waves, y, x) there is no "
                  "ensemble axis to move and moveaxis(-3, 0) permutes the scan axes of a 2D scan; with an ensemble axis it "
                  "must be moved in front of the scan axes", key_detail=f"ensemble{n_guard}")
    ctx.require(n_guard == 2, f"{rw.qualname}: expected the ensemble-axis move in both arms, found {n_guard}")
    # (d) window pixel positions = positions / sampling - window offset
    pos_param = rw.positional_params[2]
    mc = [c for c in walk_no_nested(rw.node) if isinstance(c, ast.Call) and last_attr(c) == "minimum_crop"]
    ctx.require(len(mc) == 1 and mc[0].args, f"{rw.qualname}: minimum_crop call not found")
    mcf = repo.function(PU, "minimum_crop")
    b = bind_args(mc[0], mcf)
    p0, p1 = mcf.positional_params[:2]
    ctx.require(p0 in b and p1 in b, f"{rw.qualname}: minimum_crop arguments not bound")
    at = _node_at(df, rw, mc[0])
    pp = FlowNormalizer(df, at).norm(b[p0])
    want = Poly.atom(pos_param) * Poly.atom("self.waves.sampling").inverse() - Poly.atom("self.window_offset")
    ctx.check(pp == want and dotted(b[p1]) == "self.window_gpts", "R-REDUCE", f"{rw.qualname}:window pixel positions", rw.loc(mc[0]),
              f"minimum_crop({pp.key()}, {norm_text(b[p1])})",
              f"the windows are placed at `{pp.key()}` with shape `{norm_text(b[p1])}`; the probe position in pixels of "
              f"this S-matrix block is {pos_param} / sampling - window_offset and the window shape is window_gpts: the "
              "windows are cut around other places than the probes", key_detail="pixelpos")


def _fold_cmp(e: ast.expr, env: dict):
    from ..model import NotConstant, fold_constant

    if isinstance(e, ast.Compare) and len(e.ops) == 1:
        a, b = fold_constant(e.left, env), fold_constant(e.comparators[0], env)
        op = e.ops[0]
        table = {ast.Lt: a < b, ast.LtE: a <= b, ast.Gt: a > b, ast.GtE: a >= b, ast.Eq: a == b, ast.NotEq: a != b}
        for k_, v_ in table.items():
            if isinstance(op, k_):
                return v_
        raise NotConstant("compare")
    if isinstance(e, ast.UnaryOp) and isinstance(e.op, ast.Not):
        return not _fold_cmp(e.operand, env)
    if isinstance(e, ast.BoolOp):
        vals = [_fold_cmp(v, env) for v in e.values]
        return all(vals) if isinstance(e.op, ast.And) else any(vals)
    return fold_constant(e, env)


_inner_run_c06_a = run


def run(ctx) -> None:  # noqa: F811
    ctx.rule("R-UNITNORM", "the CTF coefficients returned by _calculate_ctf_coefficients are c / sqrt(sum_k |c_k|^2) with "
             "the sum over the plane-wave axis (-1, kept): term normal form of the returned value with the kernel "
             "evaluation as the atom c.  The real-space Probe is normalised to unit intensity, so the PRISM probe must be")
    ctx.rule("R-PHASEPRODUCT", "the position coefficients are a product/quotient of complex exponentials whose phases "
             "(products add, quotients and conjugates subtract) total -2 pi (x k_x + y k_y) in every scan-type arm")
    ctx.rule("R-REDUCE", "_reduce_to_waves: the coefficients are cast to a complex type; the window-crop arm is taken "
             "exactly when window_gpts != gpts; the ensemble axis is moved to the front exactly when the S-matrix array "
             "has more than three axes; the windows are placed at positions / sampling - window_offset with shape "
             "window_gpts")
    pending = None
    for part in (_unitnorm, _phase_product, _reduce_rules):
        try:
            part(ctx)
        except AnalysisError as e:
            pending = pending or e
    _inner_run_c06_a(ctx)
    if pending is not None:
        raise pending


# ---------------------------------------------------------------------------------------------- R-WAVEVECTOR
import re as _re  # noqa: E402


class _GridNorm(FlowNormalizer):
    """FlowNormalizer that (a) turns names unpacked from a pair (`w, h = self.extent`) into the subscripted pair and
    (b) turns fftfreq(N, d=D)[index] into the atom FREQ[axis of N|axis of index] when N*D == 1 (integer orders)."""

    def _name(self, name: str) -> Poly:
        d = self.df.single_def(self._at[-1], name)
        if d is not None and d.kind == "assign" and d.value is not None:
            st = self.df.cfg.nodes[d.node].ast
            if isinstance(st, ast.Assign) and isinstance(st.targets[0], (ast.Tuple, ast.List)) and not isinstance(
                    st.value, (ast.Tuple, ast.List)):
                pos = [i for i, t in enumerate(st.targets[0].elts) if isinstance(t, ast.Name) and t.id == name]
                if len(pos) == 1 and dotted(st.value) is not None:
                    return Poly.atom(f"1*{dotted(st.value)}[{pos[0]}]")
        return super()._name(name)

    @staticmethod
    def _axis(p: Poly):
        if len(p.terms) == 1:
            (mono, c), = p.terms.items()
            if c == 1 and len(mono) == 1 and mono[0][1] == 1:
                m = _re.search(r"\[(?:1\*)?(-?\d)\]$", mono[0][0])
                if m:
                    return int(m.group(1))
        return None

    def norm(self, n):
        if isinstance(n, ast.Subscript) and isinstance(n.value, ast.Call) and last_attr(n.value) == "fftfreq":
            c = n.value
            N = c.args[0] if c.args else kw(c, "n")
            D = kw(c, "d") or (c.args[1] if len(c.args) > 1 else None)
            if N is not None:
                pn = self.norm(N)
                pd = self.norm(D) if D is not None else Poly.const(1)
                ax_n, ax_i = self._axis(pn), self._axis(self.norm(n.slice))
                if (pn * pd) == Poly.const(1):
                    return Poly.atom(f"FREQ[{ax_n}|{ax_i}]")
                return Poly.atom(f"FREQ[{ax_n}|{ax_i}]") * pn * pd
        return super().norm(n)


def _wave_vectors(ctx) -> None:
    repo = ctx.repo
    f = repo.method(SM, "SMatrix", "wave_vectors")
    df = DataFlow(f.node)
    rets = [r for r in walk_no_nested(f.node) if isinstance(r, ast.Return) and r.value is not None]
    ctx.require(len(rets) == 1, f"{f.qualname}: expected one return")
    v = rets[0].value
    at = df.cfg.node_of(rets[0]).idx
    transposed = False
    for _ in range(4):
        if isinstance(v, ast.Attribute) and v.attr == "T":
            v, transposed = v.value, not transposed
        elif isinstance(v, ast.Call) and last_attr(v) in ("asarray", "array", "ascontiguousarray") and v.args:
            v = v.args[0]
        elif isinstance(v, ast.Call) and last_attr(v) in ("stack", "column_stack") and v.args:
            ax = kw(v, "axis")
            transposed = last_attr(v) == "column_stack" or (ax is not None and norm_text(ax) in ("-1", "1"))
            v = v.args[0]
        elif isinstance(v, ast.Name):
            d = df.single_def(at, v.id)
            if d is None or d.value is None:
                break
            v, at = d.value, d.node
        else:
            break
    ctx.require(isinstance(v, (ast.List, ast.Tuple)) and len(v.elts) == 2 and transposed,
                f"{f.qualname}: the returned array is not [k_x, k_y] transposed to (n, 2)")
    for comp, e in enumerate(v.elts):
        p = _GridNorm(df, at).norm(e)
        want = Poly.atom(f"FREQ[{comp}|{comp}]") * Poly.atom(f"1*self.interpolation[{comp}]") * \
            Poly.atom(f"1*self.extent[{comp}]").inverse()
        ctx.check(p == want, "R-WAVEVECTOR", f"{f.qualname}:component {comp}", f.loc(rets[0]),
                  f"k[{comp}] = (integer order along axis {comp} at the aperture pixels) * interpolation[{comp}] / extent[{comp}]",
                  f"component {comp} of the wave vectors is `{p.key()}`; the plane waves that make up a probe of the "
                  f"interpolated cell are k[{comp}] = FREQ[{comp}|{comp}] * interpolation[{comp}] / extent[{comp}], where "
                  f"FREQ[a|b] is the integer Fourier order of an axis with shape[a] points taken at the aperture's pixel "
                  f"indices along axis b: the S-matrix is expanded in plane waves that are not the probe's Fourier "
                  "components", key_detail=f"k{comp}")


# ---------------------------------------------------------------------------------------------- R-PWNORM
def _pw_norm(ctx) -> None:
    repo = ctx.repo
    f = repo.method(SM, "SMatrix", "_build_s_matrix")
    df = DataFlow(f.node)
    pws = [st for st in walk_no_nested(f.node) if isinstance(st, ast.Assign) and isinstance(st.value, ast.Call)
           and last_attr(st.value) == "plane_waves" and isinstance(st.targets[0], ast.Name)]
    ctx.require(len(pws) == 1, f"{f.qualname}: plane_waves(...) assignment not found")
    arr = pws[0].targets[0].id
    wcalls = [c for c in walk_no_nested(f.node) if isinstance(c, ast.Call) and call_name(c) == "Waves" and c.args
              and isinstance(c.args[0], ast.Name) and c.args[0].id == arr]
    ctx.require(len(wcalls) == 1, f"{f.qualname}: Waves({arr}, ...) not found")
    at = _node_at(df, f, wcalls[0])
    spar = f.positional_params[0]

    def hook(nz, c):
        if last_attr(c) == "prod" and len(c.args) == 1:
            a = c.args[0]
            if isinstance(a, ast.Subscript) and isinstance(a.slice, ast.Slice) and isinstance(a.value, ast.Attribute) \
                    and a.value.attr == "shape" and isinstance(a.value.value, ast.Name) and a.value.value.id == arr \
                    and a.slice.lower is not None and norm_text(a.slice.lower) == "-2" and a.slice.upper is None:
                return Poly.atom("G0") * Poly.atom("G1")
            d = dotted(a)
            if d == f"{spar}.interpolation":
                return Poly.atom("I0") * Poly.atom("I1")
            if d == f"{spar}.gpts":
                return Poly.atom("G0") * Poly.atom("G1")
        return None

    ren = {f"1*{spar}.interpolation[0]": "I0", f"1*{spar}.interpolation[1]": "I1", f"1*{spar}.gpts[0]": "G0",
           f"1*{spar}.gpts[1]": "G1", f"1*{arr}.shape[-2]": "G0", f"1*{arr}.shape[-1]": "G1"}
    scale = Poly.const(1)
    seen_plane = False
    for d in sorted(df.reaching(at, arr), key=lambda d_: d_.node):
        st = df.cfg.nodes[d.node].ast
        if d.kind == "assign" and st is pws[0]:
            seen_plane = True
            continue
        if d.kind == "aug" and isinstance(st, ast.AugAssign) and isinstance(st.op, (ast.Mult, ast.Div)):
            p = FlowNormalizer(df, d.node, call_hook=hook).norm(st.value)
            p = p.subst({a: Poly.atom(ren[a]) for a in p.atoms() if a in ren})
            scale = scale * (p if isinstance(st.op, ast.Mult) else p.inverse())
            continue
        if d.kind == "assign" and isinstance(st, ast.Assign) and isinstance(st.value, ast.BinOp) and \
                isinstance(st.value.op, (ast.Mult, ast.Div)) and isinstance(st.value.left, ast.Name) and st.value.left.id == arr:
            p = FlowNormalizer(df, d.node, call_hook=hook).norm(st.value.right)
            p = p.subst({a: Poly.atom(ren[a]) for a in p.atoms() if a in ren})
            scale = scale * (p if isinstance(st.value.op, ast.Mult) else p.inverse())
            continue
        raise AnalysisError(f"{f.qualname}: cannot follow the definition `{norm_text(st)[:50]}` of the plane-wave array")
    ctx.require(seen_plane, f"{f.qualname}: the plane-wave array does not reach Waves(...)")
    if not (scale.atoms() <= {"I0", "I1", "G0", "G1"}):
        raise AnalysisError(f"{f.qualname}: plane-wave amplitude `{scale.key()}` is not expressed in interpolation and gpts")
    want = Poly.atom("I0") * Poly.atom("I1") * (Poly.atom("G0") * Poly.atom("G1")).inverse()
    ctx.check(scale == want, "R-PWNORM", f"{f.qualname}:plane-wave amplitude", f.loc(wcalls[0]),
              "unit-modulus plane waves scaled by prod(interpolation) / prod(gpts)",
              f"the unit-modulus plane waves enter the S-matrix scaled by `{scale.key()}` (I = interpolation, G = gpts) "
              "instead of I0*I1/(G0*G1): with unit-norm coefficients (R-UNITNORM) the reduced probe then carries "
              "another total intensity than the real-space Probe (normalised to unit intensity in the package's "
              "unnormalised-FFT convention), all exit waves and measurements are off by a constant factor",
              key_detail="amplitude")


_inner_run_c06_b = run


def run(ctx) -> None:  # noqa: F811
    ctx.rule("R-WAVEVECTOR", "SMatrix.wave_vectors returns (k_x, k_y) with k[a] = n_a * interpolation[a] / extent[a], n_a "
             "the integer Fourier order fftfreq(shape[a], d=1/shape[a]) of the aperture grid along axis a taken at the "
             "aperture's non-zero pixels along the same axis a (term normal form per component; the three subscripts "
             "and the order must all name axis a)")
    ctx.rule("R-PWNORM", "_build_s_matrix hands plane waves of amplitude prod(interpolation) / prod(gpts) to the "
             "multislice (product of every in-place scale applied between plane_waves(...) and Waves(...))")
    ctx.assume("the real-space Probe is normalised to unit total intensity in reciprocal space with unnormalised FFTs "
               "(Waves.normalize), which fixes the plane-wave amplitude checked by R-PWNORM")
    pending = None
    for part in (_wave_vectors, _pw_norm):
        try:
            part(ctx)
        except AnalysisError as e:
            pending = pending or e
    _inner_run_c06_b(ctx)
    if pending is not None:
        raise pending


# ---------------------------------------------------------------------------------------------- R-CROPHULL
class _Vec:
    """a pair of per-axis polynomials (component 0 = x / rows, component 1 = y / columns)."""

    def __init__(self, c0: Poly, c1: Poly):
        self.c = (c0, c1)


class _PairEval:
    """Evaluates straight-line code over scalars (Poly) and pairs (_Vec): tuples of two, asarray/astype/item casts,
    + and - (pairs broadcast with scalars), // by a literal, rint, min/max over the positions (position-independent
    summands are pulled out: min(a + c) = min(a) + c), constant subscripts.  Anything else raises AnalysisError."""

    def __init__(self, where: str, env: dict, dependent: set[str]):
        self.where = where
        self.env = dict(env)
        self.dep = set(dependent)

    def _split(self, p: Poly):
        dep = Poly({m: c for m, c in p.terms.items() if any(a in self.dep for a, _ in m)})
        return dep, p - dep

    def _fn(self, name: str, p: Poly) -> Poly:
        if name in ("MIN", "MAX"):
            dep, ind = self._split(p)
            if dep.is_zero():
                return ind
            a = f"{name}({dep.key()})"
            return Poly.atom(a) + ind
        a = f"{name}({p.key()})"
        if any(x in self.dep for x in p.atoms()):
            self.dep.add(a)
        return Poly.atom(a)

    def lift(self, v, fn):
        return _Vec(fn(v.c[0]), fn(v.c[1])) if isinstance(v, _Vec) else fn(v)

    def binop(self, a, b, fn):
        if isinstance(a, _Vec) or isinstance(b, _Vec):
            a2 = a.c if isinstance(a, _Vec) else (a, a)
            b2 = b.c if isinstance(b, _Vec) else (b, b)
            return _Vec(fn(a2[0], b2[0]), fn(a2[1], b2[1]))
        return fn(a, b)

    def ev(self, e: ast.expr):
        if isinstance(e, ast.Constant) and isinstance(e.value, (int, float)) and not isinstance(e.value, bool):
            return Poly.const(Fraction(repr(e.value)) if isinstance(e.value, float) else e.value)
        if isinstance(e, ast.Name):
            if e.id in self.env:
                return self.env[e.id]
            raise AnalysisError(f"{self.where}: unknown name `{e.id}`")
        if isinstance(e, (ast.Tuple, ast.List)) and len(e.elts) == 2:
            a, b = self.ev(e.elts[0]), self.ev(e.elts[1])
            if isinstance(a, Poly) and isinstance(b, Poly):
                return _Vec(a, b)
        if isinstance(e, ast.UnaryOp) and isinstance(e.op, ast.USub):
            return self.lift(self.ev(e.operand), lambda p: -p)
        if isinstance(e, ast.BinOp) and isinstance(e.op, (ast.Add, ast.Sub)):
            sub = isinstance(e.op, ast.Sub)
            return self.binop(self.ev(e.left), self.ev(e.right), (lambda x, y: x - y) if sub else (lambda x, y: x + y))
        if isinstance(e, ast.BinOp) and isinstance(e.op, ast.FloorDiv) and isinstance(e.right, ast.Constant):
            k = e.right.value
            return self.lift(self.ev(e.left), lambda p: self._fn(f"FLOORDIV{k}", p))
        if isinstance(e, ast.Subscript):
            v = self.ev(e.value)
            idx = e.slice.elts if isinstance(e.slice, ast.Tuple) else [e.slice]
            comp = [i for i in idx if not (isinstance(i, ast.Constant) and i.value is Ellipsis) and not (
                isinstance(i, ast.Slice) and i.lower is None and i.upper is None)]
            if isinstance(v, _Vec) and len(comp) == 1 and isinstance(comp[0], ast.Constant) and comp[0].value in (0, 1):
                return v.c[comp[0].value]
        if isinstance(e, ast.Call):
            s = last_attr(e)
            if s in ("asarray", "array", "ascontiguousarray") and e.args:
                return self.ev(e.args[0])
            if s in ("astype", "item", "copy") and isinstance(e.func, ast.Attribute):
                return self.ev(e.func.value)
            if s == "int" and len(e.args) == 1:
                return self.ev(e.args[0])
            if s in ("rint", "round", "floor", "ceil") and len(e.args) == 1:
                nm = {"rint": "RINT", "round": "RINT", "floor": "FLOOR", "ceil": "CEIL"}[s]
                return self.lift(self.ev(e.args[0]), lambda p: self._fn(nm, p))
            if s in ("min", "max", "amin", "amax") and len(e.args) == 1 and not e.keywords:
                v = self.ev(e.args[0])
                if isinstance(v, Poly):
                    return self._fn("MIN" if "min" in s else "MAX", v)
        raise AnalysisError(f"{self.where}: cannot evaluate `{norm_text(e)[:60]}`")

    def run(self, body):
        """-> evaluated return value (list of values)"""
        for st in body:
            if isinstance(st, ast.Assign) and len(st.targets) == 1 and isinstance(st.targets[0], ast.Name):
                if isinstance(st.value, ast.Call) and last_attr(st.value) == "get_array_module":
                    continue
                self.env[st.targets[0].id] = self.ev(st.value)
            elif isinstance(st, ast.AugAssign) and isinstance(st.target, ast.Name) and isinstance(st.op, (ast.Add, ast.Sub)):
                sub = isinstance(st.op, ast.Sub)
                self.env[st.target.id] = self.binop(self.ev(st.target), self.ev(st.value),
                                                    (lambda x, y: x - y) if sub else (lambda x, y: x + y))
            elif isinstance(st, ast.Return) and isinstance(st.value, ast.Tuple):
                return [self.ev(x) for x in st.value.elts]
            elif (isinstance(st, ast.Expr) and isinstance(st.value, ast.Constant)) or isinstance(st, ast.Pass):
                continue
            else:
                raise AnalysisError(f"{self.where}: cannot evaluate statement `{norm_text(st)[:60]}`")
        raise AnalysisError(f"{self.where}: no return reached")


def _crop_hull(ctx) -> None:
    repo = ctx.repo
    f = repo.function(PU, "minimum_crop")
    ctx.require(len(f.positional_params) >= 2, f"{f.qualname}: signature changed")
    pp, sp = f.positional_params[:2]
    P = [Poly.atom("P0"), Poly.atom("P1")]
    S = [Poly.atom("S0"), Poly.atom("S1")]
    evl = _PairEval(f.qualname, {pp: _Vec(*P), sp: _Vec(*S)}, {"P0", "P1"})
    out = evl.run(f.body)
    ctx.require(len(out) == 3 and all(isinstance(v, _Vec) for v in out), f"{f.qualname}: does not return three pairs")
    corner, size, rel = out
    for i, ax in enumerate("xy"):
        R = Poly.atom(f"RINT({(P[i] - Poly.atom(f'FLOORDIV2({S[i].key()})')).key()})")
        absolute = rel.c[i] + corner.c[i]
        txt = lambda p: p.key().replace("P0", "pos_x").replace("P1", "pos_y").replace("S0", "shape_x").replace("S1", "shape_y")
        ctx.check(absolute == R, "R-CROPHULL", f"{f.qualname}:window corner {ax}", f.where,
                  f"crop corner + relative corner = rint(position - shape // 2) along {ax}",
                  f"along {ax} the hull corner plus the returned relative corner is `{txt(absolute)}`; the window of shape "
                  f"`shape` centred on the probe starts at rint(pos_{ax} - shape_{ax} // 2) = `{txt(R)}`: the windows "
                  "are cut at other pixels than the probe positions", key_detail=f"corner-{ax}")
        lo_ok = corner.c[i] == Poly.atom(f"MIN({R.key()})")
        hi = corner.c[i] + size.c[i]
        hi_ok = hi == Poly.atom(f"MAX({R.key()})") + S[i]
        ctx.check(lo_ok and hi_ok, "R-CROPHULL", f"{f.qualname}:hull {ax}", f.where,
                  f"hull along {ax} = [min corner, max corner + shape)",
                  f"along {ax} the common crop is [`{txt(corner.c[i])}`, `{txt(hi)}`) but the windows span "
                  f"[min(corner), max(corner) + shape_{ax}): windows stick out of the common crop (or the crop is "
                  "misplaced), the batch crop reads other pixels", key_detail=f"hull-{ax}")


# ---------------------------------------------------------------------------------------------- R-WRAPCROP
def _emptiness(test: ast.expr):
    """(name, is_empty) for tests `X.size == 0`, `X.size != 0`, `X.size > 0`, `X.size`, `not ...`."""
    neg = False
    while isinstance(test, ast.UnaryOp) and isinstance(test.op, ast.Not):
        test, neg = test.operand, not neg
    if isinstance(test, ast.Attribute) and test.attr == "size" and isinstance(test.value, ast.Name):
        return test.value.id, neg
    if isinstance(test, ast.Compare) and len(test.ops) == 1:
        l, r, op = test.left, test.comparators[0], test.ops[0]
        if isinstance(r, ast.Attribute) and isinstance(l, ast.Constant):
            l, r = r, l
            op = {ast.Lt: ast.Gt, ast.Gt: ast.Lt, ast.LtE: ast.GtE, ast.GtE: ast.LtE}.get(type(op), type(op))()
        if isinstance(l, ast.Attribute) and l.attr == "size" and isinstance(l.value, ast.Name) and \
                isinstance(r, ast.Constant) and r.value == 0:
            if isinstance(op, (ast.Eq, ast.LtE)):
                return l.value.id, not neg
            if isinstance(op, (ast.NotEq, ast.Gt)):
                return l.value.id, neg
    return None


def _wrap_crop(ctx) -> None:
    repo = ctx.repo
    f = repo.function(PU, "wrapped_crop_2d")
    ctx.require(len(f.positional_params) >= 3, f"{f.qualname}: signature changed")
    ap, cp_, zp = f.positional_params[:3]
    C = [Poly.atom("C0"), Poly.atom("C1")]
    Z = [Poly.atom("Z0"), Poly.atom("Z1")]
    N = [Poly.atom("N0"), Poly.atom("N1")]
    txt = lambda p: (p.key() if isinstance(p, Poly) else str(p)).replace("C0", "corner[0]").replace("C1", "corner[1]") \
        .replace("Z0", "size[0]").replace("Z1", "size[1]").replace("N0", "rows").replace("N1", "columns")
    par = {}
    for n in ast.walk(f.node):
        for ch in ast.iter_child_nodes(n):
            par[ch] = n
    env: dict = {cp_: _Vec(*C), zp: _Vec(*Z)}
    pos_table: dict[str, Poly] = {}

    class E(_PairEval):
        def ev(self, e):
            if isinstance(e, ast.Subscript) and isinstance(e.value, ast.Attribute) and e.value.attr == "shape" and \
                    isinstance(e.value.value, ast.Name) and e.value.value.id == ap and isinstance(e.slice, ast.UnaryOp) \
                    and isinstance(e.slice.op, ast.USub) and isinstance(e.slice.operand, ast.Constant) and \
                    e.slice.operand.value in (1, 2):
                return N[2 - e.slice.operand.value]
            if isinstance(e, ast.Subscript) and isinstance(e.value, ast.Attribute) and e.value.attr == "shape" and \
                    isinstance(e.value.value, ast.Name) and e.value.value.id == ap and isinstance(e.slice, ast.Slice) and \
                    e.slice.lower is not None and norm_text(e.slice.lower) == "-2" and e.slice.upper is None:
                return _Vec(*N)
            if isinstance(e, ast.Call) and last_attr(e) == "abs" and len(e.args) == 1:
                inner = e.args[0]
                if isinstance(inner, ast.Call) and last_attr(inner) == "min" and len(inner.args) == 2:
                    a, b = (self.ev(x) for x in inner.args)
                    if isinstance(b, Poly) and b.is_zero() and isinstance(a, Poly):
                        pos_table[f"POS({(-a).key()})"] = -a
                        return Poly.atom(f"POS({(-a).key()})")  # |min(a, 0)| = max(-a, 0)
            if isinstance(e, ast.Call) and last_attr(e) == "max" and len(e.args) == 2:
                a, b = (self.ev(x) for x in e.args)
                if isinstance(a, Poly) and isinstance(b, Poly) and (a.is_zero() or b.is_zero()):
                    q = b if a.is_zero() else a
                    pos_table[f"POS({q.key()})"] = q
                    return Poly.atom(f"POS({q.key()})")
            return super().ev(e)

    body = f.body
    tries = [st for st in body if isinstance(st, ast.Try)]
    ctx.require(len(tries) <= 1, f"{f.qualname}: several try blocks")
    # ---- straight-line prefix (the far corner)
    evl = E(f.qualname, env, set())
    segs: dict[str, tuple] = {}  # name -> (axis, 'first' | 'wrap')
    ws = [st for st in ast.walk(f.node) if isinstance(st, ast.Assign) and isinstance(st.value, ast.Call)
          and last_attr(st.value) == "wrapped_slices"]
    ctx.require(len(ws) == 2, f"{f.qualname}: expected wrapped_slices for rows and columns")
    for st in body:
        if isinstance(st, ast.Try):
            break
        if isinstance(st, ast.Assign) and isinstance(st.targets[0], ast.Name) and not (
                isinstance(st.value, ast.Call) and last_attr(st.value) == "get_array_module"):
            evl.env[st.targets[0].id] = evl.ev(st.value)
    for st in ws:
        ctx.require(isinstance(st.targets[0], ast.Tuple) and len(st.targets[0].elts) == 2 and len(st.value.args) == 3,
                    f"{f.qualname}: `{norm_text(st)[:50]}` is not first, wrap = wrapped_slices(start, stop, n)")
        start, stop, n = (evl.ev(a) for a in st.value.args)
        axes = [i for i in (0, 1) if n == N[i]]
        ctx.require(len(axes) == 1, f"{f.qualname}: `{norm_text(st.value.args[2])}` is not the number of rows or columns")
        i = axes[0]
        good = start == C[i] and stop == C[i] + Z[i]
        ctx.check(good, "R-WRAPCROP", f"{f.qualname}:periodic range along array axis {i - 2}", f.loc(st),
                  f"[{txt(start)}, {txt(stop)}) wrapped into {txt(n)}",
                  f"the range wrapped into the {txt(n)} of the array is [{txt(start)}, {txt(stop)}) instead of "
                  f"[corner[{i}], corner[{i}] + size[{i}]): rows and columns of the crop are crossed or the crop has "
                  "another extent", key_detail=f"range{i}")
        for t, role in zip(st.targets[0].elts, ("first", "wrap")):
            ctx.require(isinstance(t, ast.Name), f"{f.qualname}: wrapped_slices result not unpacked into names")
            segs[t.id] = (i, role)
    ctx.require(sorted(v[0] for v in segs.values()) == [0, 0, 1, 1], f"{f.qualname}: row/column segments not identified")
    # ---- block assembly
    blocks: dict[str, tuple] = {}  # name -> (rows tuple, cols tuple)
    for st in walk_no_nested(f.node):
        if isinstance(st, ast.Assign) and isinstance(st.targets[0], ast.Name) and isinstance(st.value, ast.Subscript) and \
                isinstance(st.value.value, ast.Name) and st.value.value.id == ap and isinstance(st.value.slice, ast.Tuple):
            idx = [x for x in st.value.slice.elts if not (isinstance(x, ast.Constant) and x.value is Ellipsis)]
            if len(idx) == 2 and all(isinstance(x, ast.Name) and x.id in segs for x in idx):
                r, c = segs[idx[0].id], segs[idx[1].id]
                ctx.check(r[0] == 0 and c[0] == 1, "R-WRAPCROP",
                          f"{f.qualname}:block ({'rows' if r[0] == 0 else 'columns'} {r[1]}, {'columns' if c[0] == 1 else 'rows'} {c[1]})", f.loc(st),
                          f"`{norm_text(st.value)}` takes a row segment and a column segment",
                          f"`{norm_text(st.value)}` indexes the rows with a segment of array axis {r[0] - 2} and the columns "
                          f"with a segment of axis {c[0] - 2}", key_detail="block")
                blocks[st.targets[0].id] = ((r[1],), (c[1],)) if (r[0], c[0]) == (0, 1) else None
    ctx.require(len(blocks) == 4, f"{f.qualname}: expected four blocks, found {len(blocks)}")

    def formula(t):
        """test -> nested tuples over atoms ('empty', name)"""
        if isinstance(t, ast.BoolOp):
            return ("and" if isinstance(t.op, ast.And) else "or",) + tuple(formula(v) for v in t.values)
        if isinstance(t, ast.UnaryOp) and isinstance(t.op, ast.Not):
            return ("not", formula(t.operand))
        em = _emptiness(t)
        if em is None:
            raise AnalysisError(f"{f.qualname}: cannot read `{norm_text(t)}` as a test on empty blocks")
        return ("atom", em[0]) if em[1] else ("not", ("atom", em[0]))

    def holds(fm, val):
        if fm[0] == "atom":
            return val[fm[1]]
        if fm[0] == "not":
            return not holds(fm[1], val)
        if fm[0] == "and":
            return all(holds(x, val) for x in fm[1:])
        return any(holds(x, val) for x in fm[1:])

    def atoms_of(fm, acc):
        if fm[0] == "atom":
            acc.add(fm[1])
        else:
            for x in fm[1:]:
                atoms_of(x, acc)
        return acc

    class _Cond(list):
        """path condition of a statement; `(name, True) in cond` asks whether it entails that `name` is empty."""

        def __contains__(self, item):
            name, want = item
            names = set()
            for fm in self:
                atoms_of(fm, names)
            names = sorted(names | {name})
            import itertools

            for bits in itertools.product((False, True), repeat=len(names)):
                val = dict(zip(names, bits))
                if all(holds(fm, val) for fm in self) and val[name] != want:
                    return False
            return True

        def __str__(self):
            return " and ".join(_fm_text(fm) for fm in self) or "none"

    def conditions(st):
        out = _Cond()
        cur = st
        while cur in par:
            p_ = par[cur]
            if isinstance(p_, ast.If):
                fm = formula(p_.test)
                out.append(fm if any(cur is s for s in p_.body) else ("not", fm))
            cur = p_
        return out

    def concat_of(e):
        if isinstance(e, ast.Call) and last_attr(e) in ("concatenate", "concat") and e.args and isinstance(
                e.args[0], (ast.List, ast.Tuple)) and len(e.args[0].elts) == 2 and all(
                isinstance(x, ast.Name) for x in e.args[0].elts):
            ax = kw(e, "axis") or (e.args[1] if len(e.args) > 1 else None)
            try:
                from ..model import fold_constant

                axv = fold_constant(ax) if ax is not None else 0
            except Exception:
                raise AnalysisError(f"{f.qualname}: concatenation axis `{norm_text(ax)}` is not a literal")
            return [x.id for x in e.args[0].elts], axv
        return None

    def lab(name: str) -> str:
        b_ = blocks.get(name)
        return "block ?" if b_ is None else f"block rows {'+'.join(b_[0])} x columns {'+'.join(b_[1])}"

    def combine(name_target: str, ops, axv, where):
        a, b = (blocks.get(o) for o in ops)
        if a is None or b is None:
            raise AnalysisError(f"{f.qualname}: operands {ops} of the concatenation are not known blocks")
        if axv == -2:
            ok = a[1] == b[1]
            res = (a[0] + b[0], a[1])
        elif axv == -1:
            ok = a[0] == b[0]
            res = (a[0], a[1] + b[1])
        else:
            raise AnalysisError(f"{f.qualname}: concatenation along axis {axv}")
        ctx.check(ok, "R-WRAPCROP", f"{f.qualname}:join of {lab(ops[0])} and {lab(ops[1])}", where,
                  f"{ops[0]} (rows {a[0]}, columns {a[1]}) and {ops[1]} (rows {b[0]}, columns {b[1]}) joined along axis {axv}",
                  f"{ops[0]} holds rows {a[0]} x columns {a[1]} and {ops[1]} rows {b[0]} x columns {b[1]}; joining them along "
                  f"axis {axv} needs equal {'columns' if axv == -2 else 'rows'}: the wrapped parts are glued along the "
                  "wrong axis (shape error, or a transposed mosaic when the sizes happen to fit)",
                  key_detail="join")
        return res if ok else None

    # variables defined by a concatenation (with shortcuts for empty operands)
    order = []
    for st in walk_no_nested(f.node):
        if isinstance(st, ast.Assign) and isinstance(st.targets[0], ast.Name) and concat_of(st.value) is not None:
            order.append(st)
    for st in order:
        tgt = st.targets[0].id
        ops, axv = concat_of(st.value)
        blocks[tgt] = combine(tgt, ops, axv, f.loc(st))
        for alt in walk_no_nested(f.node):
            if isinstance(alt, ast.Assign) and alt is not st and isinstance(alt.targets[0], ast.Name) and \
                    alt.targets[0].id == tgt:
                ctx.require(isinstance(alt.value, ast.Name) and alt.value.id in ops,
                            f"{f.qualname}: `{norm_text(alt)}` is not a shortcut of the concatenation")
                dropped = [o for o in ops if o != alt.value.id][0]
                ctx.check((dropped, True) in conditions(alt), "R-WRAPCROP", f"{f.qualname}:shortcut dropping {lab(dropped)}",
                          f.loc(alt), f"`{norm_text(alt)}` only where {dropped} is empty",
                          f"`{norm_text(alt)}` drops the block {dropped} on a path where {dropped} is not known to be empty "
                          f"(conditions {conditions(alt)}): the wrapped part of the crop is lost", key_detail="shortcut")
    rets = [r for r in walk_no_nested(f.node) if isinstance(r, ast.Return) and r.value is not None and not any(
        isinstance(par.get(x), ast.ExceptHandler) or isinstance(x, ast.ExceptHandler) for x in _ancestors(par, r))]
    finals = [r for r in rets if concat_of(r.value) is not None]
    ctx.require(len(finals) == 1, f"{f.qualname}: final concatenation not found")
    ops, axv = concat_of(finals[0].value)
    res = combine("result", ops, axv, f.loc(finals[0]))
    if res is not None:
        ctx.check(res == (("first", "wrap"), ("first", "wrap")), "R-WRAPCROP", f"{f.qualname}:mosaic order", f.loc(finals[0]),
                  "rows (first, wrapped) x columns (first, wrapped)",
                  f"the crop is assembled as rows {res[0]} x columns {res[1]}; the periodic crop is the segment up to the "
                  "array edge followed by the wrapped-around segment, along both axes", key_detail="mosaic")
    for r in rets:
        if r is finals[0]:
            continue
        ctx.require(isinstance(r.value, ast.Name) and r.value.id in ops, f"{f.qualname}: `{norm_text(r)}` is not a shortcut")
        dropped = [o for o in ops if o != r.value.id][0]
        ctx.check((dropped, True) in conditions(r), "R-WRAPCROP", f"{f.qualname}:result shortcut dropping {lab(dropped)}", f.loc(r),
                  f"`{norm_text(r)}` only where {dropped} is empty",
                  f"`{norm_text(r)}` drops {dropped} on a path where it is not known to be empty (conditions "
                  f"{conditions(r)}): the wrapped part of the crop is lost", key_detail="shortcut")
    # ---- the fall-back for windows that wrap on both sides: pad(mode="wrap") and slice
    handlers = [h for t in tries for h in t.handlers]
    if not handlers:
        return
    ctx.require(len(handlers) == 1, f"{f.qualname}: several exception handlers")
    h = handlers[0]
    gens = {}
    for st in h.body:
        if isinstance(st, ast.Assign) and isinstance(st.targets[0], ast.Name) and isinstance(st.value, ast.Call) and \
                call_name(st.value) in ("tuple", "list") and st.value.args and isinstance(
                st.value.args[0], (ast.GeneratorExp, ast.ListComp)) and st.targets[0].id not in gens:
            gens[st.targets[0].id] = st.value.args[0]
    pads = [c for st in h.body for c in ast.walk(st) if isinstance(c, ast.Call) and last_attr(c) == "pad"]
    ctx.require(len(pads) == 1 and len(gens) == 2, f"{f.qualname}: fall-back pad / slice construction not recognised")
    mode = kw(pads[0], "mode")
    ctx.check(isinstance(mode, ast.Constant) and mode.value == "wrap", "R-WRAPCROP", f"{f.qualname}:fall-back pads periodically",
              f.loc(pads[0]), "pad(..., mode='wrap')", f"`{norm_text(pads[0])[:60]}` does not extend the array periodically",
              key_detail="padmode")

    def per_axis(gen, extra_env):
        ctx.require(len(gen.generators) == 1 and isinstance(gen.generators[0].iter, ast.Call) and
                    call_name(gen.generators[0].iter) == "zip" and isinstance(gen.generators[0].target, ast.Tuple),
                    f"{f.qualname}: `{norm_text(gen)[:50]}` is not a comprehension over zip(...)")
        g = gen.generators[0]
        out = []
        for i in (0, 1):
            e2 = E(f.qualname, dict(evl.env), set())
            e2.env.update(extra_env[i])
            for t, src in zip(g.target.elts, g.iter.args):
                ctx.require(isinstance(t, ast.Name), f"{f.qualname}: comprehension target")
                if isinstance(src, ast.Name) and src.id in extra_env["@seq"]:
                    e2.env[t.id] = extra_env["@seq"][src.id][i]
                else:
                    v = e2.ev(src)
                    ctx.require(isinstance(v, _Vec), f"{f.qualname}: `{norm_text(src)}` is not a per-axis pair")
                    e2.env[t.id] = v.c[i]
            out.append((e2, gen.elt))
        return out

    pad_name = next(n for n, g in gens.items() if isinstance(g.elt, (ast.Tuple, ast.List)))
    sl_name = next(n for n in gens if n != pad_name)
    pad_vals = []
    for i, (e2, elt) in enumerate(per_axis(gens[pad_name], {0: {}, 1: {}, "@seq": {}})):
        v = e2.ev(elt)
        ctx.require(isinstance(v, _Vec), f"{f.qualname}: pad widths are not (before, after) pairs")
        pad_vals.append(v)
    seq = {pad_name: pad_vals}
    for i, (e2, elt) in enumerate(per_axis(gens[sl_name], {0: {}, 1: {}, "@seq": seq})):
        ctx.require(isinstance(elt, ast.Call) and call_name(elt) == "slice" and len(elt.args) == 2,
                    f"{f.qualname}: slices are not slice(start, stop)")
        start, stop = e2.ev(elt.args[0]), e2.ev(elt.args[1])
        pb, pa = pad_vals[i].c
        ctx.check(start == C[i] + pb and stop - start == Z[i], "R-WRAPCROP", f"{f.qualname}:fall-back slice axis {i - 2}",
                  f.loc(h), f"[{txt(start)}, {txt(stop)}) = corner + pad before, length size",
                  f"after padding {txt(pb)} samples in front, the crop along axis {i - 2} is [{txt(start)}, {txt(stop)}); it "
                  f"must start at corner[{i}] + (pad before) and have length size[{i}]", key_detail=f"fbslice{i}")

        def pos_arg(p):
            if len(p.atoms()) == 1 and p == Poly.atom(next(iter(p.atoms()))):
                return pos_table.get(next(iter(p.atoms())))
            return None

        qb, qa = pos_arg(pb), pos_arg(pa)
        if qb is None or qa is None:
            raise AnalysisError(f"{f.qualname}: pad widths `{txt(pb)}`, `{txt(pa)}` are not max(., 0) forms")
        before_ok = qb == -C[i]
        # behind: an over-estimate that only adds non-negative quantities (array / crop sizes) still covers the crop
        extra = qa - (C[i] + Z[i] - N[i])
        after_ok = all(coef >= 0 and (mono == () or (len(mono) == 1 and mono[0][1] == 1 and mono[0][0] in
                                                    ("Z0", "Z1", "N0", "N1"))) for mono, coef in extra.terms.items())
        ctx.check(before_ok and after_ok, "R-WRAPCROP", f"{f.qualname}:fall-back pad covers the crop axis {i - 2}", f.loc(h),
                  f"pad ({txt(pb)}, {txt(pa)})",
                  f"along axis {i - 2} the array is padded by ({txt(pb)}, {txt(pa)}); the crop [corner, corner + size) needs "
                  f"max(-corner[{i}], 0) in front and at least max(corner[{i}] + size[{i}] - n, 0) behind: the slice "
                  "runs out of the padded array or starts at the wrong pixel", key_detail=f"fbpad{i}")


def _fm_text(fm) -> str:
    if fm[0] == "atom":
        return f"{fm[1]} empty"
    if fm[0] == "not":
        return f"not ({_fm_text(fm[1])})"
    return "(" + f" {fm[0]} ".join(_fm_text(x) for x in fm[1:]) + ")"


def _ancestors(par, n):
    out = []
    while n in par:
        n = par[n]
        out.append(n)
    return out


_inner_run_c06_c = run


def run(ctx) -> None:  # noqa: F811
    ctx.rule("R-CROPHULL", "minimum_crop, evaluated symbolically per axis (pairs of polynomials; rint, min and max over "
             "the positions as function atoms, min(a + c) = min(a) + c): hull corner + returned relative corner = "
             "rint(position - shape // 2), and the hull is [min corner, max corner + shape) along each axis with the "
             "shape component of the same axis")
    ctx.rule("R-WRAPCROP", "wrapped_crop_2d: the ranges handed to wrapped_slices are [corner[a], corner[a] + size[a]) "
             "wrapped into the array length of the same axis; the four blocks take (row segment, column segment); "
             "blocks are joined along -2 only with equal columns and along -1 only with equal rows, giving rows "
             "(first, wrapped) x columns (first, wrapped); a shortcut that drops a block is taken only where that "
             "block is tested empty; the pad fall-back extends periodically by at least (max(-corner, 0), "
             "max(corner + size - n, 0)) and slices [corner + pad before, + size)")
    pending = None
    for part in (_crop_hull, _wrap_crop):
        try:
            part(ctx)
        except AnalysisError as e:
            pending = pending or e
    _inner_run_c06_c(ctx)
    if pending is not None:
        raise pending


# ---------------------------------------------------------------------------------------------- R-USERAPERTURE
def _user_aperture(ctx) -> None:
    from ..rules import userparam

    repo = ctx.repo
    ctf_cls = repo.cls("abtem.transfer", "CTF")
    base = repo.cls(SM, "BaseSMatrix")
    cc = repo.method(SM, "SMatrixArray", "_calculate_ctf_coefficients")
    ctx.require(len(cc.positional_params) >= 2, f"{cc.qualname}: signature changed")
    eng = userparam.Engine(repo, SM, ctf_cls, consumer_base=base, seeds=((cc, cc.positional_params[1]),))
    # the object whose coefficients are evaluated must be traced back to the entry points of the reduction
    entry = [f for f in eng.funcs if f.cls is not None and base in f.cls.mro() and eng.names[id(f)] and
             not f.name.startswith("_")]
    ctx.require(len(entry) >= 3, f"only {len(entry)} public S-matrix methods were found to take a CTF object")
    ctx.require(len(eng.components) >= 1,
                "no component of the CTF is matched to the S-matrix in the reduction path")
    n = userparam.check(ctx, "R-USERAPERTURE", eng, "the user-supplied CTF", "the S-matrix")
    ctx.require(n >= 2, f"R-USERAPERTURE found only {n} write(s) into a CTF object in {SM}")
    m = userparam.check_rebinds(ctx, "R-USERAPERTURE", eng, "the user-supplied CTF")
    ctx.require(m >= 2, f"R-USERAPERTURE found only {m} place(s) where a missing CTF is constructed in {SM}")
    tracked = set()
    for init in repo.init_chain(ctf_cls):
        for p in init.params[1:]:
            if not eng.is_component_attr(p):
                tracked |= {p, "_" + p}
    userparam.unjudged_stores(eng, eng.sites(), tracked)


_inner_run_c06_d = run


def run(ctx) -> None:  # noqa: F811
    ctx.rule("R-USERAPERTURE", "the reduction uses the CTF the caller handed in.  Every write the S-matrix module makes "
             "into a CTF object (a parameter annotated CTF, a parameter that receives one at a call site of the module, a "
             "copy, a block generated from it; attribute stores, setattr, stores below an attribute, calls of methods "
             "that write their receiver) is enumerated from the code.  Attributes whose setter forwards into a "
             "component the reduction match(...)es to the S-matrix (grid, accelerator) are not per-probe choices and are "
             "left out.  Any other parameter (semiangle_cutoff, aberration coefficients, envelopes ...) may be "
             "overwritten only on paths where a test established that the caller left it unset — equality with the "
             "None / infinite default of the CTF constructor (read from the signature through the MRO), np.isinf, "
             "`is None` — and only with the S-matrix' own attribute of the same name.  Clamping a LARGER cutoff down "
             "to the expansion cutoff (`>` / `>=` the S-matrix value, min(...)) is accepted as well: the expansion "
             "has no beams beyond its cutoff, so this is physically forced and changes nothing.  A write under a "
             "weaker condition (inequality with the S-matrix value, `<` tests or max(...) that catch smaller finite "
             "values, no condition, another value) is a violation: an aperture chosen below the expansion cutoff is a "
             "legitimate probe, replacing it gives the probes of another aperture.  A write guarded by an explicit "
             "request parameter (compared with a constant other than its default) is decided by showing that no call "
             "in the package makes that request.  The parameter holding the caller's CTF is rebound to a freshly "
             "constructed CTF only where it is None (or a mapping spread into the constructor)")
    from ..rules import deferred

    deferred.run(ctx, lambda: _user_aperture(ctx), _inner_run_c06_d)
