"""C29 — array-object structural operations keep data and metadata aligned (abtem/array.py)."""
from __future__ import annotations

import ast

from ..cfg import CFG, DataFlow
from ..model import AnalysisError, call_name, dotted, norm_text, walk_no_nested
from ..rules import twins

ARR = "abtem.array"
COMMUTATIVE = {"add", "mul", "and", "or", "xor"}


def _stmt_of(func: ast.FunctionDef, node: ast.AST) -> ast.stmt:
    best = None
    for st in ast.walk(func):
        if isinstance(st, ast.stmt) and not isinstance(st, (ast.FunctionDef, ast.If, ast.For, ast.While, ast.With,
                                                           ast.Try)):
            if any(n is node for n in ast.walk(st)):
                best = st
    if best is None:
        raise AnalysisError("statement not found")
    return best


def run(ctx) -> None:
    repo = ctx.repo
    ctx.rule("R-REFLECT", "a reflected operator dunder (__rX__) may be a class-level alias of the forward dunder only "
             "for a commutative operator (add, mul, and, or, xor): `2 / x` is not `x / 2`")
    ctx.rule("R-DUNDERNAME", "every operator dunder implemented as self._arithmetic(other, \"<name>\") / "
             "self._in_place_arithmetic(other, \"<name>\") passes its own name, so that `a - b` really dispatches "
             "to ndarray.__sub__")
    ctx.rule("R-BASEGUARD", "_reduction reaches its reduction calls only after `if self._is_base_axis(axes): raise` on "
             "the normalised axes; get_items indexes the array only with items validated against ensemble_shape; "
             "squeeze only considers the ensemble part of the shape")
    ctx.rule("R-CTORCHAIN", "every concrete ArrayObject subclass executes ArrayObject.__init__, which calls "
             "_check_axes_metadata (one metadata entry per array dimension)")
    ctx.rule("R-LOCKSTEP", "each structural operation edits the axis-metadata list with the same axis expression it "
             "passes to the array operation (_stack, expand_dims, squeeze, _reduction, swapaxes, moveaxis, concatenate)")
    ctx.rule("R-TWIN", "lazy and eager arms of the structural operations call the same array function with the same "
             "arguments (see sa/rules/twins.py)")
    ctx.rule("R-AXISNORM", "squeeze and _reduction interpret a negative user axis like NumPy does, against the *full* "
             "array: every normalisation of the axis argument (normalize_axes(axis, S) or the idiom `a if a >= 0 else "
             "len(S) + a`) uses S == self.shape / self.array.shape, never the ensemble part only — otherwise "
             "squeeze((-1,)) addresses an ensemble axis although -1 is a base axis")
    ctx.rule("R-ITEMMETA", "indexing carries the metadata of the selected items into the *new* object only: "
             "_get_ensemble_axes_metadata_items / get_items never write the receiver's metadata, array or axes list "
             "(directly or through a local alias), and the metadata dict they return depends on "
             "axis.item_metadata(item, ...) of every integer-indexed axis")
    ctx.undecided("that numpy/dask implement stack/concatenate/moveaxis identically; value equality with NumPy")

    ao = repo.cls(ARR, "ArrayObject")

    # ---------------- R-REFLECT
    def alias_findings(class_attrs):
        out = []
        for name, val in class_attrs.items():
            if name.startswith("__r") and name.endswith("__") and isinstance(val, ast.Name) and \
                    val.id.startswith("__") and name not in ("__repr__", "__reduce__", "__reversed__", "__round__"):
                op, fwd = name[3:-2], val.id[2:-2]
                out.append((name, val.id, op, fwd, op == fwd and op in COMMUTATIVE))
        return out

    # positive control: the rule must recognise a bad alias on every run
    control = ast.parse("class K:\n    __rtruediv__ = __truediv__\n    __rmul__ = __mul__").body[0]
    cattrs = {t.id: st.value for st in control.body if isinstance(st, ast.Assign) for t in st.targets}
    cres = alias_findings(cattrs)
    ctx.require([r[4] for r in cres] == [False, True], "R-REFLECT positive control failed")
    n_cls = 0
    for c in repo.all_classes():
        if c.name != "ArrayObject" and not c.is_subclass_of("ArrayObject"):
            continue
        n_cls += 1
        res = alias_findings(c.class_attrs)
        for name, fwdname, op, fwd, ok in res:
            ctx.check(ok, "R-REFLECT", f"{c.qualname}.{name}", c.where,
                      f"{name} = {fwdname} (commutative)",
                      f"`{name} = {fwdname}`: the reflected operator reuses the forward implementation of a "
                      f"non-commutative operator, so `k {_sym(op)} obj` computes `obj {_sym(fwd)} k`",
                      key_detail="")
        # reflected dunders written as defs must not delegate to the forward dunder either
        for name, defs in c.methods.items():
            if name.startswith("__r") and name.endswith("__") and name[3:-2] in (
                    "truediv", "sub", "floordiv", "pow", "mod", "matmul", "lshift", "rshift"):
                for f in defs:
                    fwdname = "__" + name[3:]
                    delegates = any(isinstance(x, ast.Call) and call_name(x) in (f"self.{fwdname}",)
                                    for x in walk_no_nested(f.node))
                    ctx.check(not delegates, "R-REFLECT", f"{f.qualname}", f.where,
                              f"{name} has its own implementation",
                              f"{name} delegates to {fwdname}: `k {_sym(name[3:-2])} obj` computes `obj {_sym(name[3:-2])} k`",
                              key_detail="delegate")
    ctx.ok("R-REFLECT", f"{ARR}:scan", ao.where, f"{n_cls} array-object classes scanned for reflected-operator aliases")

    # ---------------- R-DUNDERNAME
    n_d = 0
    for name, defs in ao.methods.items():
        if not (name.startswith("__") and name.endswith("__")):
            continue
        for f in defs:
            for c in walk_no_nested(f.node):
                if isinstance(c, ast.Call) and call_name(c) in ("self._arithmetic", "self._in_place_arithmetic") \
                        and len(c.args) == 2 and isinstance(c.args[1], ast.Constant):
                    n_d += 1
                    ctx.check(c.args[1].value == name, "R-DUNDERNAME", f"{f.qualname}", f.loc(c),
                              f"dispatches to ndarray.{name}",
                              f"{name} dispatches to ndarray.{c.args[1].value}", key_detail="")
    ctx.require(n_d >= 8, f"R-DUNDERNAME matched only {n_d} dunders")

    # ---------------- R-BASEGUARD
    red = repo.method(ARR, "ArrayObject", "_reduction")
    cfg = CFG(red.node)
    df = DataFlow(red.node)
    guards = []
    for n in cfg.nodes:
        if n.kind == "test" and isinstance(n.ast, ast.If) and any(isinstance(s, ast.Raise) for s in n.ast.body):
            t = n.ast.test
            alts = t.values if isinstance(t, ast.BoolOp) and isinstance(t.op, ast.Or) else [t]
            if any(isinstance(a, ast.Call) and call_name(a) == "self._is_base_axis" for a in alts):
                guards.append(n)
    reds = []
    for n in cfg.nodes:
        if n.ast is None or n.kind != "stmt":
            continue
        for c in walk_no_nested(n.ast):
            if isinstance(c, ast.Call) and isinstance(c.func, ast.Call) and call_name(c.func) == "getattr" and \
                    len(c.args) >= 2:
                reds.append((n, c))
    ctx.require(len(reds) >= 2, "_reduction: axis reductions not found")
    ctx.require(len(guards) <= 1, "_reduction: several base-axis guards")
    if not guards:
        for n, c in reds:
            ctx.violation("R-BASEGUARD", f"{red.qualname}:{norm_text(c)[:50]}", red.loc(c),
                          "no unconditional `if self._is_base_axis(axes): raise` guard exists in _reduction: base axes "
                          "can be reduced", key_detail="guard")
    else:
        g = guards[0]
        gcall = [c for c in ast.walk(g.ast.test) if isinstance(c, ast.Call) and call_name(c) == "self._is_base_axis"][0]
        for n, c in reds:
            dom = cfg.dominates(g.idx, n.idx)
            same_axes = norm_text(c.args[1]) == norm_text(gcall.args[0])
            # the guarded value and the reduced value must be the same definition
            same_def = {d.node for d in df.reaching(g.idx, norm_text(gcall.args[0]))} == {
                d.node for d in df.reaching(n.idx, norm_text(c.args[1]))}
            ctx.check(dom and same_axes and same_def, "R-BASEGUARD", f"{red.qualname}:{norm_text(c)[:50]}", red.loc(c),
                      "reduction over axes that passed the base-axis guard",
                      f"`{norm_text(c)[:70]}` is reachable without passing `if self._is_base_axis("
                      f"{norm_text(gcall.args[0])}): raise` on the same axes value: a base axis can be reduced",
                      key_detail="guard")
        # negative axes are normalised before the guard
        rd = df.reaching(g.idx, norm_text(gcall.args[0]))
        normalised = any(d.value is not None and "len(self.shape)" in norm_text(d.value) for d in rd)
        ctx.check(normalised, "R-BASEGUARD", f"{red.qualname}:normalised-axes", red.loc(g.ast),
                  "guard sees axes normalised to non-negative indices",
                  "the base-axis guard is applied before negative axes are normalised (axis=-1 would slip through)",
                  key_detail="norm")

    gi = repo.method(ARR, "ArrayObject", "get_items")
    dfg = DataFlow(gi.node)
    idxs = [s for s in walk_no_nested(gi.node) if isinstance(s, ast.Subscript) and dotted(s.value) in (
        "self._array", "self.array") and isinstance(s.ctx, ast.Load)]
    ctx.require(len(idxs) >= 1, "get_items: array indexing not found")
    for s in idxs:
        st = _stmt_of(gi.node, s)
        rdefs = dfg.reaching(dfg.cfg.node_of(st).idx, norm_text(s.slice)) if isinstance(s.slice, ast.Name) else []
        ok = bool(rdefs) and all(
            isinstance(d.value, ast.Call) and call_name(d.value) == "_validate_array_items" and any(
                k.arg == "shape" and norm_text(k.value) == "self.ensemble_shape" for k in d.value.keywords)
            or (isinstance(d.value, ast.Call) and call_name(d.value) == "_validate_array_items"
                and len(d.value.args) >= 2 and norm_text(d.value.args[1]) == "self.ensemble_shape")
            for d in rdefs)
        ctx.check(ok, "R-BASEGUARD", f"{gi.qualname}:{norm_text(s)}", gi.loc(s),
                  "array indexed with items validated against ensemble_shape",
                  f"`{norm_text(s)}` indexes the array with items that were not validated against ensemble_shape "
                  "(base axes can be indexed)", key_detail="items")
    sq = repo.method(ARR, "ArrayObject", "squeeze")
    # the shape examined for length-one axes: the iterable of the enumerate() inside the `squeezed` computation
    shp = []
    for c in walk_no_nested(sq.node):
        if isinstance(c, ast.Call) and call_name(c) == "enumerate" and c.args and isinstance(c.args[0], ast.Name):
            defs = [st for st in walk_no_nested(sq.node) if isinstance(st, ast.Assign) and isinstance(
                st.targets[0], ast.Name) and st.targets[0].id == c.args[0].id]
            if len(defs) == 1 and "shape" in norm_text(defs[0].value):
                shp = defs
    ok = len(shp) == 1 and norm_text(shp[0].value).replace(" ", "") in (
        "self.shape[:-len(self.base_shape)]", "self.ensemble_shape")
    ctx.check(ok, "R-BASEGUARD", f"{sq.qualname}:ensemble-only", sq.where,
              "squeeze considers only the ensemble part of the shape",
              f"squeeze examines `{norm_text(shp[0].value) if shp else '?'}`: base axes of length one can be squeezed",
              key_detail="squeeze")

    # ---------------- R-CTORCHAIN
    init = ao.own_method("__init__")
    ctx.require(init is not None, "ArrayObject.__init__ not found")
    ok = any(isinstance(c, ast.Call) and call_name(c) == "self._check_axes_metadata" for c in walk_no_nested(init.node))
    ctx.check(ok, "R-CTORCHAIN", f"{init.qualname}:check", init.where, "constructor validates the axes metadata",
              "ArrayObject.__init__ no longer calls _check_axes_metadata", key_detail="check")
    chk = ao.own_method("_check_axes_metadata")
    ctx.require(chk is not None, "_check_axes_metadata not found")
    tests = [i for i in walk_no_nested(chk.node) if isinstance(i, ast.If) and any(isinstance(s, ast.Raise) for s in i.body)]
    t0 = [norm_text(i.test).replace(" ", "") for i in tests]
    ok = any(t in ("len(self.shape)!=len(self.axes_metadata)", "len(self.axes_metadata)!=len(self.shape)") for t in t0)
    ctx.check(ok, "R-CTORCHAIN", f"{chk.qualname}:dimension-count", chk.where,
              "raises unless there is one metadata entry per dimension",
              f"_check_axes_metadata tests {t0}: a dimension/metadata count mismatch is not rejected", key_detail="count")
    subs = [c for c in repo.subclasses(ao) if not c.is_abstract()]
    ctx.require(len(subs) >= 12, f"only {len(subs)} concrete ArrayObject subclasses found")
    for c in subs:
        chain = repo.init_chain(c)
        ctx.check(init in chain, "R-CTORCHAIN", c.qualname, c.where,
                  "constructor chain reaches ArrayObject.__init__",
                  f"{c.name}'s constructor chain ({' -> '.join(f.cls.name for f in chain if f.cls)}) never runs "
                  "ArrayObject.__init__: the axes metadata of such objects is never checked against the array",
                  key_detail="")

    # ---------------- R-LOCKSTEP
    def kwarg(call, name, pos=None):
        for k in call.keywords:
            if k.arg == name:
                return k.value
        if pos is not None and len(call.args) > pos:
            return call.args[pos]
        return None

    # _stack
    st = repo.method(ARR, "ArrayObject", "_stack")
    stacks = [c for c in walk_no_nested(st.node) if isinstance(c, ast.Call) and (call_name(c) or "").endswith(".stack")]
    inserts = [c for c in walk_no_nested(st.node) if isinstance(c, ast.Call) and isinstance(c.func, ast.Attribute)
               and c.func.attr == "insert"]
    ctx.require(len(stacks) == 2 and len(inserts) == 1, "_stack: stack/insert calls not found")
    axes_used = {norm_text(kwarg(c, "axis", 1)) for c in stacks} | {norm_text(inserts[0].args[0])}
    ctx.check(len(axes_used) == 1, "R-LOCKSTEP", st.qualname, st.where, f"array and metadata use axis `{axes_used}`",
              f"array stacked along {sorted(norm_text(kwarg(c, 'axis', 1)) for c in stacks)} but metadata inserted at "
              f"{norm_text(inserts[0].args[0])}", key_detail="")
    ok = norm_text(inserts[0].args[1]) == st.positional_params[2]
    ctx.check(ok, "R-LOCKSTEP", f"{st.qualname}:inserted-metadata", st.loc(inserts[0]),
              "the new axis gets the supplied axis metadata", "the inserted entry is not the supplied axis metadata",
              key_detail="entry")
    # expand_dims
    ed = repo.method(ARR, "ArrayObject", "expand_dims")
    ecall = [c for c in walk_no_nested(ed.node) if isinstance(c, ast.Call) and call_name(c) == "_expand_dims"]
    eins = [l for l in walk_no_nested(ed.node) if isinstance(l, ast.For) and any(
        isinstance(c, ast.Call) and isinstance(c.func, ast.Attribute) and c.func.attr == "insert" for c in ast.walk(l))]
    ctx.require(len(ecall) == 1 and len(eins) == 1, "expand_dims: array/metadata operations not found")
    ax = norm_text(kwarg(ecall[0], "axis", 1))
    it = eins[0].iter
    okz = isinstance(it, ast.Call) and call_name(it) == "zip" and norm_text(it.args[0]) == ax
    insc = [c for c in ast.walk(eins[0]) if isinstance(c, ast.Call) and isinstance(c.func, ast.Attribute)
            and c.func.attr == "insert"][0]
    okz = okz and isinstance(eins[0].target, ast.Tuple) and norm_text(insc.args[0]) == eins[0].target.elts[0].id \
        and norm_text(insc.args[1]) == eins[0].target.elts[1].id
    dfe = DataFlow(ed.node)
    same = {d.node for d in dfe.reaching(dfe.cfg.node_of(_stmt_of(ed.node, ecall[0])).idx, ax)} == {
        d.node for d in dfe.reaching(dfe.cfg.node_of(eins[0]).idx, ax)}
    ctx.check(okz and same, "R-LOCKSTEP", ed.qualname, ed.where, f"array expanded and metadata inserted at `{ax}`",
              f"array expanded along `{ax}` but metadata inserted along `{norm_text(it)}`", key_detail="")
    # squeeze
    sqc = [c for c in walk_no_nested(sq.node) if isinstance(c, ast.Call) and (call_name(c) or "").endswith(".squeeze")]
    comp = [c for c in walk_no_nested(sq.node) if isinstance(c, ast.ListComp)
            and "ensemble_axes_metadata" in norm_text(c.generators[0].iter)]
    ctx.require(len(sqc) == 1 and len(comp) == 1, "squeeze: array/metadata operations not found")
    ax = norm_text(kwarg(sqc[0], "axis", 1))
    cond = " ".join(norm_text(i) for i in comp[0].generators[0].ifs)
    tgt = comp[0].generators[0].target
    okq = isinstance(tgt, ast.Tuple) and cond.replace(" ", "") == f"{tgt.elts[0].id}notin{ax}" and \
        call_name(comp[0].generators[0].iter) == "enumerate" and isinstance(comp[0].elt, ast.Name) and \
        comp[0].elt.id == tgt.elts[1].id
    ctx.check(okq, "R-LOCKSTEP", sq.qualname, sq.where, f"array squeezed along `{ax}` and metadata dropped for `{ax}`",
              f"array squeezed along `{ax}` but metadata filtered by `{cond}`", key_detail="")
    # _reduction
    compr = [c for c in walk_no_nested(red.node) if isinstance(c, ast.ListComp) and c.generators[0].ifs]
    ctx.require(len(compr) == 1, "_reduction: metadata filter not found")
    cond = norm_text(compr[0].generators[0].ifs[0]).replace(" ", "")
    gen = compr[0].generators[0]
    red_axes = {norm_text(c.args[1]) for _, c in reds}
    okr = len(red_axes) == 1 and isinstance(gen.target, ast.Tuple) and cond == f"{gen.target.elts[1].id}notin{list(red_axes)[0]}"
    # the filter is applied only when the reduced axes are dropped
    in_body = [i for i in walk_no_nested(red.node) if isinstance(i, ast.If) and any(
        compr[0] is x for s in i.body for x in ast.walk(s))]
    in_else = [i for i in walk_no_nested(red.node) if isinstance(i, ast.If) and any(
        compr[0] is x for s in i.orelse for x in ast.walk(s))]
    parents = in_body or in_else
    okk = (bool(in_body) and norm_text(in_body[-1].test).replace(" ", "") == "notkeepdims") or (
        not in_body and bool(in_else) and norm_text(in_else[-1].test).replace(" ", "") == "keepdims")
    kd = {norm_text(kwarg(c, "keepdims")) for _, c in reds}
    ctx.check(okr and okk and kd == {"keepdims"}, "R-LOCKSTEP", red.qualname, red.where,
              "metadata of reduced axes dropped iff not keepdims, array reduced over the same axes with the same keepdims",
              f"array reduced over {sorted(red_axes)} (keepdims={sorted(kd)}) but metadata filtered by `{cond}` under "
              f"`{norm_text(parents[0].test) if parents else 'no condition'}`", key_detail="")
    # swapaxes
    sw = repo.function(ARR, "swapaxes")
    calls = [c for c in walk_no_nested(sw.node) if isinstance(c, ast.Call) and (call_name(c) or "").endswith(".swapaxes")]
    tup = [s for s in walk_no_nested(sw.node) if isinstance(s, ast.Assign) and isinstance(s.targets[0], ast.Tuple)
           and isinstance(s.value, ast.Tuple)]
    ctx.require(len(calls) == 2 and len(tup) == 1, "swapaxes: operations not found")
    pair = {norm_text(calls[0].args[1]), norm_text(calls[0].args[2])}
    lhs = [norm_text(t.slice) for t in tup[0].targets[0].elts]
    rhs = [norm_text(t.slice) for t in tup[0].value.elts]
    oks = set(lhs) == pair and rhs == lhs[::-1] and len(pair) == 2
    ctx.check(oks, "R-LOCKSTEP", sw.qualname, sw.where, f"array and metadata swap the same pair {sorted(pair)}",
              f"array swaps {sorted(pair)} but metadata assigns {lhs} = {rhs}", key_detail="")
    # moveaxis
    mv = repo.function(ARR, "moveaxis")
    calls = [c for c in walk_no_nested(mv.node) if isinstance(c, ast.Call) and (call_name(c) or "").endswith(".moveaxis")]
    loops = [l for l in walk_no_nested(mv.node) if isinstance(l, ast.For)]
    ctx.require(len(calls) == 2 and len(loops) == 1, "moveaxis: operations not found")
    src, dst = norm_text(calls[0].args[1]), norm_text(calls[0].args[2])
    it = loops[0].iter
    okm = isinstance(it, ast.Call) and call_name(it) == "zip" and [norm_text(a) for a in it.args] == [
        f"reversed({src})", f"reversed({dst})"]
    body = " ".join(norm_text(s) for s in loops[0].body)
    if okm and isinstance(loops[0].target, ast.Tuple):
        s_, d_ = (e.id for e in loops[0].target.elts)
        okm = f".pop({s_})" in body and f".insert({d_}, " in body
    ctx.check(okm, "R-LOCKSTEP", mv.qualname, mv.where, "metadata moved source->destination like the array",
              f"array moves {src}->{dst} but metadata loop is `for {norm_text(loops[0].target)} in {norm_text(it)}: {body[:80]}`",
              key_detail="")
    # concatenate
    cc = repo.function(ARR, "concatenate")
    calls = [c for c in walk_no_nested(cc.node) if isinstance(c, ast.Call) and (call_name(c) or "").endswith(".concatenate")
             and (dotted(c.func.value) in ("da", "xp", "np", "cp") or (dotted(c.func.value) or "").startswith("xp"))]
    ctx.require(len(calls) == 2, "concatenate: array operations not found")
    ax = {norm_text(kwarg(c, "axis", 1)) for c in calls}
    subs_ = [s for s in walk_no_nested(cc.node) if isinstance(s, ast.Subscript) and "axes_metadata" in norm_text(s.value)]
    idx = {norm_text(s.slice) for s in subs_}
    ctx.check(len(ax) == 1 and idx == ax and len(subs_) >= 3, "R-LOCKSTEP", cc.qualname, cc.where,
              f"array and metadata concatenated along `{ax}`",
              f"array concatenated along {sorted(ax)} but metadata indexed with {sorted(idx)}", key_detail="")

    # ---------------- R-AXISNORM
    FULL = ("self.shape", "self.array.shape", "self._array.shape")
    n_norm = 0
    for mname in ("squeeze", "_reduction"):
        fn = repo.method(ARR, "ArrayObject", mname)
        sites = []
        for c in walk_no_nested(fn.node):
            if isinstance(c, ast.Call) and call_name(c) == "normalize_axes" and len(c.args) >= 2:
                sites.append((c, c.args[1]))
            if isinstance(c, ast.IfExp) and isinstance(c.test, ast.Compare) and isinstance(c.test.ops[0], (ast.GtE, ast.Lt)):
                for arm in (c.body, c.orelse):
                    if isinstance(arm, ast.BinOp) and isinstance(arm.op, ast.Add):
                        for side in (arm.left, arm.right):
                            if isinstance(side, ast.Call) and call_name(side) == "len" and side.args:
                                sites.append((c, side.args[0]))
        ctx.require(sites, f"{fn.qualname}: no normalisation of the axis argument found")
        for c, shape_expr in sites:
            n_norm += 1
            d = dotted(shape_expr)
            if d is None or not d.startswith("self."):
                # a local: follow its single definition
                dfn = DataFlow(fn.node)
                stn = _stmt_of(fn.node, c)
                dd = dfn.single_def(dfn.cfg.node_of(stn).idx, d) if d else None
                shown = norm_text(dd.value) if dd is not None and dd.value is not None else norm_text(shape_expr)
                good = dd is not None and dd.value is not None and dotted(dd.value) in FULL
            else:
                shown, good = d, d in FULL
            ctx.check(good, "R-AXISNORM", f"{fn.qualname}:axis normalised against the full shape", fn.loc(c),
                      f"negative axes count from the end of {shown}",
                      f"the axis argument is normalised against `{shown[:60]}`, not the full array shape: a negative axis "
                      "addresses a different dimension than in NumPy (base axes can be hit, ensemble axes missed)",
                      key_detail="axisnorm")

    # expand_dims normalises a negative axis against the *old* rank (np.expand_dims counts positions in the result):
    # confirmed on the tree (expand_dims((-2,)) on (2,3,ny,nx) gives (2,3,1,ny,nx), NumPy would address a base axis).
    # Reported as information: following NumPy would turn calls that work today into errors, which is a change of
    # behaviour rather than a minimal repair.
    ed = repo.method(ARR, "ArrayObject", "expand_dims")
    for c in walk_no_nested(ed.node):
        if isinstance(c, ast.Call) and call_name(c) == "normalize_axes" and len(c.args) >= 2:
            ctx.info("R-AXISNORM", f"{ed.qualname}:axis normalisation", ed.loc(c),
                     f"new-axis positions are normalised against `{norm_text(c.args[1])}` (the rank before expansion); "
                     "negative positions therefore differ from np.expand_dims — not decided as a violation")

    # ---------------- R-ITEMMETA
    from .c32 import receiver_writes

    gi = repo.method(ARR, "ArrayObject", "_get_ensemble_axes_metadata_items")
    for fn in (gi, repo.method(ARR, "ArrayObject", "get_items")):
        ws = receiver_writes(fn)
        ctx.check(not ws, "R-ITEMMETA", f"{fn.qualname}:receiver untouched", fn.loc(ws[0]) if ws else fn.where,
                  "no write to the indexed object's metadata / array / axes list",
                  f"`{norm_text(ws[0])[:90]}` writes the indexed object's own state: a later index operation on the "
                  "same object sees (and accumulates) the item metadata of an earlier one" if ws else "",
                  key_detail="receiver")
    rets = [r for r in walk_no_nested(gi.node) if isinstance(r, ast.Return) and r.value is not None]
    ctx.require(len(rets) == 1 and isinstance(rets[0].value, ast.Tuple) and len(rets[0].value.elts) == 2,
                f"{gi.qualname}: expected `return axes_metadata, metadata`")
    dfi = DataFlow(gi.node)
    sl = dfi.backward_slice(dfi.cfg.node_of(rets[0]).idx, rets[0].value.elts[1])
    item_calls = [c for n_ in sl.def_nodes for c in ast.walk(dfi.cfg.nodes[n_].ast)
                  if isinstance(c, ast.Call) and isinstance(c.func, ast.Attribute) and c.func.attr == "item_metadata"]
    ctx.check(bool(item_calls), "R-ITEMMETA", f"{gi.qualname}:item metadata returned", gi.loc(rets[0]),
              "returned metadata depends on axis.item_metadata(item, ...)",
              "the returned metadata does not depend on axis.item_metadata(...): the metadata of the selected items "
              "is dropped", key_detail="item-metadata")

    # ---------------- R-TWIN for array.py
    n = twins.check_package(ctx, modules={ARR})
    ctx.require(n >= 7, f"R-TWIN compared only {n} twins in abtem/array.py")


def _sym(op: str) -> str:
    return {"truediv": "/", "sub": "-", "floordiv": "//", "pow": "**", "mod": "%", "matmul": "@", "add": "+",
            "mul": "*", "lshift": "<<", "rshift": ">>"}.get(op, op)
